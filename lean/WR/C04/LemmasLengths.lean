/-
  C04 — helper lemmas about the unit factors of the generic length traversal (WR/C04/Lengths.lean).
-/
import WR.C04.Lengths
import WR.C04.Spec
namespace WR.C04

theorem unitFactor_eq_spec (c : FontCtx) (u : Nat) : unitFactor c u = specFactor c u := by
  unfold unitFactor specFactor specFactor.specPx' pxPer
  by_cases h1 : u = uPx
  · simp [h1]
  · simp only [h1, if_false]
    by_cases h2 : u = uPt
    · subst h2; simp [uPt, uPx, uIn]; grind
    · by_cases h3 : u = uPc
      · subst h3; simp [uPt, uPx, uIn, uPc]; grind
      · by_cases h4 : u = uIn
        · subst h4; simp [uPt, uPx, uIn, uPc]
        · by_cases h5 : u = uCm
          · subst h5; simp [uPt, uPx, uIn, uPc, uCm]; grind
          · by_cases h6 : u = uMm
            · subst h6; simp [uPt, uPx, uIn, uPc, uCm, uMm]; grind
            · by_cases h7 : u = uQ
              · subst h7; simp [uPt, uPx, uIn, uPc, uCm, uMm, uQ]; grind
              · simp [h2, h3, h4, h5, h6, h7]

theorem unitFactor_some_iff (c : FontCtx) (u : Nat) : (unitFactor c u).isSome = isLengthUnit u := by
  unfold unitFactor pxPer isLengthUnit
  by_cases h : 3 ≤ u ∧ u ≤ 13
  · obtain ⟨h1, h2⟩ := h
    have : u = 3 ∨ u = 4 ∨ u = 5 ∨ u = 6 ∨ u = 7 ∨ u = 8 ∨ u = 9 ∨ u = 10 ∨ u = 11 ∨ u = 12 ∨ u = 13 := by omega
    rcases this with rfl | rfl | rfl | rfl | rfl | rfl | rfl | rfl | rfl | rfl | rfl <;> simp [uPx, uPt, uPc, uIn, uCm, uMm, uQ, uEm, uEx, uCh, uRem]
  · have hne : ∀ k, 3 ≤ k → k ≤ 13 → u ≠ k := by intro k a b hk; subst hk; exact h ⟨a, b⟩
    simp [uPx, uPt, uPc, uIn, uCm, uMm, uQ, uEm, uEx, uCh, uRem,
      hne 3, hne 4, hne 5, hne 6, hne 7, hne 8, hne 9, hne 10, hne 11, hne 12, hne 13]
    omega

theorem unitFactor_px (c : FontCtx) : unitFactor c uPx = some 1 := by simp [unitFactor]

theorem unitFactor_fontFree (c₁ c₂ : FontCtx) (u : Nat) (h : isFontRelative u = false) :
    unitFactor c₁ u = unitFactor c₂ u := by
  unfold unitFactor
  simp only [isFontRelative, Bool.or_eq_false_iff, decide_eq_false_iff_not] at h
  obtain ⟨⟨⟨h1, h2⟩, h3⟩, h4⟩ := h
  simp [h1, h2, h3, h4]

end WR.C04
