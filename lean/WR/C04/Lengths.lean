/-
  C04 — ONE generic model of the length-carrying computer functions of html/tree/computed_values.go
  (transforms, transformOrigin, backgroundPosition / backgroundSize / backgroundImage gradients,
  borderSpacing, borderRadius, borderImageOutset, clip, objectPosition, gridTemplate / gridAuto,
  size, length, pixelLength, gap, columnWidth, tabSize, wordSpacing, bleed):
  they all walk a value and replace every length by its absolute form, leaving percentages,
  numbers, angles, keywords and the shape of the value alone.

  `LV` is a small value AST (length-or-number with a unit code | keyword | node with children:
  tuples, lists and functions are nodes with a tag), `computeLengths` the traversal.
  The harness converts the declared value and the computed value of the real code to this AST with
  one generic (reflection based) converter and compares `computeLengths ctx declared` with the
  computed one for every generated explicit value.
-/
import WR.C04.Model
namespace WR.C04

mutual
  inductive LV where
    /-- `pr.Dimension{Value: x, Unit: u}`: a length (units 3..13), a percentage (2), a number (1),
        an angle / flex fraction (≥ 14) or the zero unit (0) -/
    | len (x : Rat) (u : Nat)
    /-- keyword, string, integer, boolean … anything the computers do not touch -/
    | kw (s : String)
    /-- tuple / list / function / struct: a tag and the children in order -/
    | node (tag : String) (children : LVs)
  inductive LVs where
    | nil
    | cons (h : LV) (t : LVs)
end

/-- what a length is made absolute against -/
structure FontCtx where
  /-- the element's own computed font size, px -/
  fs : Rat
  /-- the root element's computed font size, px -/
  rootFS : Rat
  /-- 1ex / font size and 1ch / font size of the element's font (text engine; parameters) -/
  exR : Rat
  chR : Rat

def isLengthUnit (u : Nat) : Bool := 3 ≤ u && u ≤ 13

/-- px per unit: the factor `length_` multiplies by -/
def unitFactor (c : FontCtx) (u : Nat) : Option Rat :=
  if u = uPx then some 1
  else match pxPer u with
    | some r => some r
    | none =>
      if u = uEm then some c.fs
      else if u = uEx then some (c.fs * c.exR)
      else if u = uCh then some (c.fs * c.chR)
      else if u = uRem then some c.rootFS
      else none

mutual
  /-- **computeLengths** — every length becomes `x · factor` px, everything else is unchanged -/
  def computeLengths (c : FontCtx) : LV → LV
    | .len x u => match unitFactor c u with
      | some f => .len (x * f) uPx
      | none => .len x u
    | .kw s => .kw s
    | .node t cs => .node t (computeLengthsL c cs)
  def computeLengthsL (c : FontCtx) : LVs → LVs
    | .nil => .nil
    | .cons h t => .cons (computeLengths c h) (computeLengthsL c t)
end

mutual
  /-- no relative or non-px absolute length unit remains: px / percentage / number / angle / keyword only -/
  def isAbsolute : LV → Bool
    | .len _ u => !isLengthUnit u || u == uPx
    | .kw _ => true
    | .node _ cs => isAbsoluteL cs
  def isAbsoluteL : LVs → Bool
    | .nil => true
    | .cons h t => isAbsolute h && isAbsoluteL t
end

mutual
  /-- no font-relative unit (em, ex, ch, rem) occurs -/
  def fontFree : LV → Bool
    | .len _ u => !isFontRelative u
    | .kw _ => true
    | .node _ cs => fontFreeL cs
  def fontFreeL : LVs → Bool
    | .nil => true
    | .cons h t => fontFree h && fontFreeL t
end

mutual
  /-- the shape of a value: the same tree with every number erased -/
  def shape : LV → LV
    | .len _ u => .len 0 (if isLengthUnit u then uPx else u)
    | .kw s => .kw s
    | .node t cs => .node t (shapeL cs)
  def shapeL : LVs → LVs
    | .nil => .nil
    | .cons h t => .cons (shape h) (shapeL t)
end

/-- the factor the specification prescribes (CSS Values 3 §5): exact absolute ratios; em / ex / ch
    against the element's own font size, rem against the root's -/
def specFactor (c : FontCtx) (u : Nat) : Option Rat :=
  match specPx' u with
  | some r => some r
  | none =>
    if u = uEm then some c.fs
    else if u = uEx then some (c.fs * c.exR)
    else if u = uCh then some (c.fs * c.chR)
    else if u = uRem then some c.rootFS
    else none
where
  /-- 1in = 96px = 72pt = 6pc = 2.54cm = 25.4mm = 101.6q -/
  specPx' (u : Nat) : Option Rat :=
    if u = uPx then some 1
    else if u = uIn then some 96
    else if u = uPt then some (96 / 72)
    else if u = uPc then some (96 / 6)
    else if u = uCm then some (96 / (254/100))
    else if u = uMm then some (96 / (254/10))
    else if u = uQ then some (96 / (1016/10))
    else none

end WR.C04
