/-
  C04 — hand-written model of CSS defaulting and computed values in
    html/tree/style.go            ComputedStyle.Get / cascadeValue / propsCache, AnonymousStyle.Get,
                                  textDecoration, the `page` special case, InitialNotComputed
    html/tree/computed_values.go  length_, length, pixelLength, borderWidth, fontSize, fontWeight,
                                  lineHeight, wordSpacing, tabSize, gap, columnWidth

  Two definitions of the same thing:
    * `computed`  — pure, recursive over the chain of styles  node :: parent :: … :: root
    * `get`       — the lazy Go `Get` WITH its per-style cache, as a state machine
                    (`State` = the caches of all styles; every nested `Get` threads the state)
  `WR.Props.C04.get_cache_transparent` proves that they agree for every order of calls.

  A *chain* (`List Node`, the node first, the root element last) is a position in the style tree:
  a style object of the Go code holds exactly one pointer, `parentStyle`.  An element's parent is
  its parent element, a pseudo-element's parent is its element, an anonymous box's parent is the
  box it was created in, a page context's parent is the root element.  Two nodes with the same
  parent share the tail of their chains (and therefore, in `State`, the caches of all ancestors).

  Values are symbolic where the Go code does not interpret them (`init p`, `opq tag`, `comp …`),
  numeric (`dim`, exact rationals) for the modelled computer functions.
  Everything is parametric in a `Table` (property table etc.); the driver instantiates it with the
  tables regenerated from the real code (`WR.Gen.C04Tables`).
-/
namespace WR.C04

/-- Unit codes of css/properties.Unit (0 = the zero value "no content"). -/
abbrev uNone : Nat := 0
abbrev uScalar : Nat := 1
abbrev uPerc : Nat := 2
abbrev uEx : Nat := 3
abbrev uEm : Nat := 4
abbrev uCh : Nat := 5
abbrev uRem : Nat := 6
abbrev uPx : Nat := 7
abbrev uPt : Nat := 8
abbrev uPc : Nat := 9
abbrev uIn : Nat := 10
abbrev uCm : Nat := 11
abbrev uMm : Nat := 12
abbrev uQ : Nat := 13

inductive Val where
  /-- `pr.InitialValues[p]`, not interpreted -/
  | init (p : Nat)
  /-- a validated declared value the model does not interpret (identified by the harness) -/
  | opq (tag : Nat)
  /-- the result of a computer function the model does not interpret, applied to `v` for
      property `p` on the style object `node` -/
  | comp (p node : Nat) (v : Val)
  /-- `pr.DimOrS{Dimension{Value: x, Unit: u}}` -/
  | dim (x : Rat) (u : Nat)
  /-- `pr.DimOrS{S: s}`, `pr.IntString{String: s}`, `pr.String(s)`, `pr.Page(s)` -/
  | kw (s : String)
  /-- `pr.IntString{Int: n}` -/
  | int (n : Int)
  /-- `pr.Decorations.Union` (text-decoration-line propagation), own value first -/
  | union (a b : Val)
  deriving DecidableEq, Repr, Inhabited

inductive Decl where
  | inherit | initial | value (v : Val)
  deriving DecidableEq, Repr, Inhabited

/-- One style object. `anon` ⇒ `AnonymousStyle`, otherwise `ComputedStyle` (elements, pseudo-elements,
    page contexts).  `exR`/`chR`: what `text.CharacterRatio` returns for this style (a parameter). -/
structure Node where
  id : Nat
  anon : Bool
  casc : List (Nat × Decl)
  exR : Rat
  chR : Rat
  deriving DecidableEq, Repr, Inhabited

/-- which computer function is registered for a property (computerFunctions) -/
inductive CK where
  | none | length | pixelLength | borderWidth | fontSize | fontWeight | lineHeight
  | wordSpacing | tabSize | gap | other
  deriving DecidableEq, Repr, Inhabited

structure Table where
  inherited : Nat → Bool
  initNotComputed : Nat → Bool
  ck : Nat → CK
  initVal : Nat → Val
  /-- 0: not a text-decoration property, 1: text-decoration-line, 2: -color / -style -/
  tdKind : Nat → Nat
  pPage : Nat
  pFontSize : Nat
  pFontWeight : Nat
  /-- properties pre-set to `DimOrS{}` by newAnonymousStyle -/
  anonSeed : Nat → Bool
  /-- pr.FontSizeKeywords -/
  kwFontSize : String → Option Rat
  /-- keywordsValues (ascending) -/
  kwLadder : List Rat
  /-- fontWeightRelative (a Go map: a missing key reads as 0) -/
  bolder : Int → Option Int
  lighter : Int → Option Int
  /-- borderWidthKeywords -/
  bwKw : String → Option Rat

/-- declaration of `p` in the cascaded style (a Go map: at most one entry per key; first wins here) -/
def declOf (n : Node) (p : Nat) : Option Decl :=
  match n.casc.find? (fun e => e.1 == p) with
  | some e => some e.2
  | none => none

/-- cascadeValue, first part: the cascaded declaration, or inherit/initial by the Inherited set;
    on the root element `inherit` is `initial`. -/
def effDecl (T : Table) (isRoot : Bool) (n : Node) (p : Nat) : Decl :=
  let d := match declOf n p with
    | some d => d
    | none => if T.inherited p then Decl.inherit else Decl.initial
  match d, isRoot with
  | .inherit, true => .initial
  | d, _ => d

/-- textDecoration (style.go) -/
def textDecoration (kind : Nat) (value parentValue : Val) (cascaded : Bool) : Val :=
  if kind = 1 then .union value parentValue
  else if kind = 2 then (if cascaded then value else parentValue)
  else value

/-! ## arithmetic of the computer functions (no access to other properties) -/

/-- exact CSS ratios: how many px is one unit -/
def pxPer (u : Nat) : Option Rat :=
  if u = uPt then some (4/3)
  else if u = uPc then some 16
  else if u = uIn then some 96
  else if u = uCm then some (4800/127)
  else if u = uMm then some (480/127)
  else if u = uQ then some (120/127)
  else none

def Val.num? : Val → Option Rat
  | .dim x _ => some x
  | _ => none

/-- asPixels -/
def asPixels (x : Rat) (pixelsOnly : Bool) : Val :=
  .dim x (if pixelsOnly then uScalar else uPx)

def isFontRelative (u : Nat) : Bool := u = uEx || u = uEm || u = uCh || u = uRem

/-- does `length_` read the style's own font size for this value (when none is passed)? -/
def needsFS : Val → Bool
  | .dim x u => x ≠ 0 && isFontRelative u
  | _ => false

def needsRoot : Val → Bool
  | .dim x u => x ≠ 0 && u = uRem
  | _ => false

/-- `length_` once the font sizes it may need are known. `fs`: the font size used for em/ex/ch,
    `rootFS`: rootStyle.fontSize.  A non-numeric font size (cannot happen for values produced by
    `fontSize`) yields an uninterpreted `comp`. -/
def lengthArith (p : Nat) (n : Node) (v : Val) (fs rootFS : Val) (pixelsOnly : Bool) : Val :=
  match v with
  | .kw s => if s = "auto" ∨ s = "content" then .kw s else asPixels 0 pixelsOnly   -- `value.Value == 0`
  | .dim x u =>
    if x = 0 then asPixels 0 pixelsOnly
    else if u = uPx then asPixels x pixelsOnly
    else match pxPer u with
      | some r => asPixels (x * r) pixelsOnly
      | none =>
        if u = uEm then
          match fs.num? with | some f => asPixels (x * f) pixelsOnly | none => .comp p n.id v
        else if u = uEx then
          match fs.num? with | some f => asPixels (x * f * n.exR) pixelsOnly | none => .comp p n.id v
        else if u = uCh then
          match fs.num? with | some f => asPixels (x * f * n.chR) pixelsOnly | none => .comp p n.id v
        else if u = uRem then
          match rootFS.num? with | some f => asPixels (x * f) pixelsOnly | none => .comp p n.id v
        else .dim x u                   -- percentage, scalar, zero unit: returned unchanged
  | v => .comp p n.id v

/-- first ladder value strictly above / last strictly below (fontSize larger / smaller) -/
def firstAbove (f : Rat) : List Rat → Option Rat
  | [] => none
  | k :: ks => if k > f then some k else firstAbove f ks

def lastBelow (f : Rat) (l : List Rat) : Option Rat :=
  firstAbove' f l.reverse
where firstAbove' (f : Rat) : List Rat → Option Rat
  | [] => none
  | k :: ks => if k < f then some k else firstAbove' f ks

/-- does `fontSize` read the parent's font size for this value? (not for absolute keywords) -/
def fsNeedsParent (T : Table) : Val → Bool
  | .kw s => (T.kwFontSize s).isNone
  | _ => true

/-- `fontSize` once the parent's font size (`pfs`, initial on the root) is known -/
def fontSizeArith (T : Table) (n : Node) (v : Val) (pfs rootFS : Val) : Val :=
  match v with
  | .kw s =>
    match T.kwFontSize s with
    | some k => .dim k uScalar
    | none =>
      match pfs.num? with
      | none => .comp T.pFontSize n.id v
      | some f =>
        if s = "larger" then
          match firstAbove f T.kwLadder with
          | some k => .dim k uScalar
          | none => .dim (f * (6/5)) uScalar
        else if s = "smaller" then
          match lastBelow f T.kwLadder with
          | some k => .dim k uScalar
          | none => .dim (f * (4/5)) uScalar
        else lengthArith T.pFontSize n v pfs rootFS true   -- not produced by the validator
  | .dim x u =>
    if u = uPerc then
      match pfs.num? with
      | some f => .dim (x * f / 100) uScalar
      | none => .comp T.pFontSize n.id v
    else lengthArith T.pFontSize n v pfs rootFS true
  | v => .comp T.pFontSize n.id v

/-- Go map read with the zero default -/
def mapGet (m : Int → Option Int) (k : Int) : Int := (m k).getD 0

def fwNeedsParent : Val → Bool
  | .kw s => s = "bolder" || s = "lighter"
  | _ => false

/-- `fontWeight`; `pw`: the parent's computed font-weight (on the root element: the initial value) -/
def fontWeightArith (T : Table) (n : Node) (v : Val) (pw : Val) : Val :=
  match v with
  | .kw s =>
    if s = "normal" then .int 400
    else if s = "bold" then .int 700
    else if s = "bolder" then
      match pw with
      | .int w => .int (mapGet T.bolder w)
      | _ => .comp T.pFontWeight n.id v
    else if s = "lighter" then
      match pw with
      | .int w => .int (mapGet T.lighter w)
      | _ => .comp T.pFontWeight n.id v
    else .int 0                           -- default branch: value.Int of a keyword value
  | .int k => .int k
  | v => .comp T.pFontWeight n.id v

def lhNeedsFS : Val → Bool
  | .dim _ u => u = uPerc
  | _ => false

/-- `lineHeight` -/
def lineHeightArith (p : Nat) (n : Node) (v : Val) (fs rootFS : Val) : Val :=
  match v with
  | .kw s => if s = "normal" then .kw s else .dim 0 uPx   -- other keywords: length_ returns the value, `.Value` is 0
  | .dim x u =>
    if u = uScalar then .dim x u
    else if u = uPerc then
      match fs.num? with
      | some f => .dim (x / 100 * f) uPx
      | none => .comp p n.id v
    else
      match lengthArith p n v fs rootFS true with
      | .dim y _ => .dim y uPx
      | _ => .comp p n.id v
  | v => .comp p n.id v

/-- `borderWidth` once the border style is known -/
def borderWidthArith (T : Table) (p : Nat) (n : Node) (v : Val) (style fs rootFS : Val) : Val :=
  if style = .kw "none" ∨ style = .kw "hidden" then .dim 0 uScalar
  else match v with
    | .kw s => match T.bwKw s with
      | some w => .dim w uScalar
      | none => lengthArith p n v fs rootFS true
    | v => lengthArith p n v fs rootFS true

/-- does borderWidth reach length_ (and so possibly the font size)? -/
def bwNeedsLength (T : Table) (v style : Val) : Bool :=
  if style = .kw "none" ∨ style = .kw "hidden" then false
  else match v with
    | .kw s => (T.bwKw s).isNone
    | _ => true

/-! ## the pure definition -/

/-- what a computer function sees of the other properties -/
structure Ctx where
  /-- computed values of the parent style; `none` on the root element -/
  par : Option (Nat → Val)
  /-- rootStyle.fontSize -/
  rootFS : Val

/-- cascadeValue, purely: the cascaded / inherited / initial value and whether the computer function
    still has to run on it (`false`: the value is already a computed value — inherited from the
    parent, or an initial value outside InitialNotComputed) -/
def rawValue (T : Table) (c : Ctx) (n : Node) (p : Nat) : Val × Bool :=
  match effDecl T c.par.isNone n p with
  | .initial => (T.initVal p, T.initNotComputed p)
  | .inherit => (match c.par with | some f => f p | none => T.initVal p, false)
  | .value v => (v, true)

/-- the text-decoration and `page` special cases of `Get`: the replacement value, if one applies -/
def specialPure (T : Table) (c : Ctx) (n : Node) (p : Nat) (value : Val) : Option Val :=
  match c.par with
  | some f =>
    if T.tdKind p ≠ 0 then some (textDecoration (T.tdKind p) value (f p) (declOf n p).isSome)
    else if p = T.pPage ∧ value = .kw "auto" then some (f T.pPage)
    else none
  | none =>
    if p = T.pPage ∧ value = .kw "auto" then some (.kw "") else none

/-- The value handed to the computer function, and whether the computer function runs at all.
    `rawValue` plus the text-decoration and `page` special cases of `Get`. -/
def preValue (T : Table) (c : Ctx) (n : Node) (p : Nat) : Val × Bool :=
  let r := rawValue T c n p
  match specialPure T c n p r.1 with
  | some v => (v, true)
  | none => r

/-- the parent's font size as `fontSize` reads it (placeholder when it is not read) -/
def pfsArg (T : Table) (c : Ctx) (v : Val) : Val :=
  if fsNeedsParent T v then
    match c.par with
    | some f => f T.pFontSize
    | none => T.initVal T.pFontSize
  else .init 0

/-- the parent's font weight as `fontWeight` reads it (only for bolder / lighter) -/
def pwArg (T : Table) (c : Ctx) (v : Val) : Val :=
  if fwNeedsParent v then
    match c.par with
    | some f => f T.pFontWeight
    | none => T.initVal T.pFontWeight
  else .init 0

def rootArg (c : Ctx) (v : Val) : Val := if needsRoot v then c.rootFS else .init 0

/-- computed font-size of a ComputedStyle -/
def fontSizePure (T : Table) (c : Ctx) (n : Node) : Val :=
  let r := preValue T c n T.pFontSize
  if r.2 then fontSizeArith T n r.1 (pfsArg T c r.1) (rootArg c r.1) else r.1

/-- the own font size as `length_` reads it (placeholder when it is not read) -/
def fsArg (T : Table) (c : Ctx) (n : Node) (v : Val) : Val :=
  if needsFS v then fontSizePure T c n else .init 0

/-- computed value of a property without computer function (the border style read by borderWidth) -/
def plainPure (T : Table) (c : Ctx) (n : Node) (p : Nat) : Val :=
  (preValue T c n p).1

/-- the root font size as `length_` reads it for rem outside `font-size`: rootStyle.fontSize, but on
    the root element itself the element's own computed font size (CSS Values 3 §5.1.1) -/
def rootArgL (T : Table) (c : Ctx) (n : Node) (v : Val) : Val :=
  if needsRoot v then
    match c.par with
    | none => fontSizePure T c n
    | some _ => c.rootFS
  else .init 0

def lengthPure (T : Table) (c : Ctx) (n : Node) (p : Nat) (v : Val) (pixelsOnly : Bool) : Val :=
  lengthArith p n v (fsArg T c n v) (rootArgL T c n v) pixelsOnly

/-- the computer function of `p` applied to `v` -/
def computePure (T : Table) (c : Ctx) (n : Node) (p : Nat) (v : Val) : Val :=
  match T.ck p with
  | .none => v
  | .fontSize => fontSizeArith T n v (pfsArg T c v) (rootArg c v)
  | .fontWeight => fontWeightArith T n v (pwArg T c v)
  | .length => lengthPure T c n p v false
  | .pixelLength => if v = .kw "normal" then v else lengthPure T c n p v true
  | .wordSpacing => if v = .kw "normal" then .dim 0 uNone else lengthPure T c n p v false
  | .gap => if v = .kw "normal" then v else lengthPure T c n p v false
  | .tabSize =>
    match v with
    | .dim x u => if u = uScalar then .dim x u else lengthPure T c n p v false
    | v => lengthPure T c n p v false
  | .lineHeight =>
    if lhNeedsFS v then lineHeightArith p n v (fontSizePure T c n) (.init 0)
    else lineHeightArith p n v (fsArg T c n v) (rootArgL T c n v)
  | .borderWidth =>
    let style := plainPure T c n (p - 1)
    if bwNeedsLength T v style then borderWidthArith T p n v style (fsArg T c n v) (rootArgL T c n v)
    else borderWidthArith T p n v style (.init 0) (.init 0)
  | .other => .comp p n.id v

/-- AnonymousStyle.Get, given the parent's computed values -/
def anonPure (T : Table) (f : Nat → Val) (p : Nat) : Val :=
  if T.anonSeed p then .dim 0 uNone
  else if T.inherited p then f p
  else if p = T.pPage then f p
  else if T.tdKind p ≠ 0 then textDecoration (T.tdKind p) (T.initVal p) (f p) false
  else T.initVal p

/-- computed value of `p` on one style, given its context -/
def nodePure (T : Table) (c : Ctx) (n : Node) (p : Nat) : Val :=
  match n.anon, c.par with
  | true, some f => anonPure T f p
  | _, _ =>
    let r := preValue T c n p
    if r.2 then computePure T c n p r.1 else r.1

/-- context of the root element: no parent; on its `font-size` property `rem` refers to the initial
    font size (for the other properties see `rootArgL`) -/
def rootCtx (T : Table) : Ctx := { par := none, rootFS := T.initVal T.pFontSize }

/-- the root element of a chain (its last node) -/
def rootOf : Node → List Node → Node
  | n, [] => n
  | _, m :: rest => rootOf m rest

/-- **computed value** of property `p` at the tree position `chain` (node first, root last) -/
def computed (T : Table) : List Node → Nat → Val
  | [], p => T.initVal p
  | [n], p => nodePure T (rootCtx T) n p
  | n :: m :: rest, p =>
    nodePure T { par := some (computed T (m :: rest)),
                 rootFS := nodePure T (rootCtx T) (rootOf m rest) T.pFontSize } n p

/-! ## the lazy `Get` with its cache -/

/-- the caches (`propsCache`) of all style objects: position ↦ property ↦ cached value -/
def State := List Node → Nat → Option Val

def State.set (s : State) (c : List Node) (p : Nat) (v : Val) : State :=
  fun c' p' => if p' = p ∧ c' = c then some v else s c' p'

def State.del (s : State) (c : List Node) (p : Nat) : State :=
  fun c' p' => if p' = p ∧ c' = c then none else s c' p'

/-- freshly created styles: empty caches, except the values pre-set by newAnonymousStyle
    (only a style with a parent can be anonymous: computedFromCascaded) -/
def State.fresh (T : Table) : State :=
  fun c p => match c with
    | n :: _ :: _ => if n.anon ∧ T.anonSeed p then some (.dim 0 uNone) else none
    | _ => none

/-- the `Get`s a style can issue on other style objects -/
structure Getters where
  /-- parentStyle.Get; `none` on the root element -/
  par : Option (State → Nat → State × Val)
  /-- the root element's font size (rootStyle.fontSize).  The Go code evaluates it by a `Get` on
      the root when the style is created; the model issues that `Get` when the value is used. -/
  root : State → State × Val

/-- AnonymousStyle.Get -/
def anonGet (T : Table) (pg : State → Nat → State × Val) (key : List Node) (p : Nat) (st : State) :
    State × Val :=
  match st key p with
  | some v => (st, v)
  | none =>
    -- newAnonymousStyle pre-sets these entries (`State.fresh`), so this branch is not reachable from
    -- fresh styles; it only makes `anonGet` meaningful on arbitrary states
    if T.anonSeed p then (st.set key p (.dim 0 uNone), .dim 0 uNone)
    else if T.inherited p ∨ p = T.pPage then
      let r := pg st p
      (r.1.set key p r.2, r.2)
    else if T.tdKind p ≠ 0 then
      let r := pg st p
      let v := textDecoration (T.tdKind p) (T.initVal p) r.2 false
      (r.1.set key p v, v)
    else (st.set key p (T.initVal p), T.initVal p)

/-- cascadeValue: (state, value, save) -/
def cascadeValue (T : Table) (g : Getters) (n : Node) (p : Nat) (st : State) : State × Val × Bool :=
  match effDecl T g.par.isNone n p with
  | .initial => (st, T.initVal p, !T.initNotComputed p)
  | .inherit =>
    match g.par with
    | some pg => let r := pg st p; (r.1, r.2, true)
    | none => (st, T.initVal p, true)          -- unreachable: effDecl never answers inherit on the root
  | .value v => (st, v, false)

/-- the text-decoration and `page` special cases of `Get`: the state after the parent's `Get` and
    the replacement value, if a special case applies -/
def specialGet (T : Table) (g : Getters) (n : Node) (p : Nat) (value : Val) (st : State) :
    Option (State × Val) :=
  match g.par with
  | some pg =>
    if T.tdKind p ≠ 0 then
      let r := pg st p
      some (r.1, textDecoration (T.tdKind p) value r.2 (declOf n p).isSome)
    else if p = T.pPage ∧ value = .kw "auto" then some (pg st T.pPage)
    else none
  | none =>
    if p = T.pPage ∧ value = .kw "auto" then some (st, .kw "") else none

/-- `Get` up to (not including) the computer function: state, value, and whether the computer
    function must still run (`false`: the value was found in / saved to the cache) -/
def getPre (T : Table) (g : Getters) (key : List Node) (n : Node) (p : Nat) (st : State) :
    State × Val × Bool :=
  let cv := cascadeValue T g n p st
  let st1 := if cv.2.2 then cv.1.set key p cv.2.1 else cv.1      -- `if save { c.Set(key, value) }`
  let r : State × Val := match specialGet T g n p cv.2.1 st1 with
    | some s => (s.1.del key p, s.2)                              -- `c.delete(key)`
    | none => (st1, cv.2.1)
  match r.1 key p with                                            -- "check the cache again"
  | some v => (r.1, v, false)
  | none => (r.1, r.2, true)

/-- the parent's font size as `fontSize` reads it: absolute keywords return before the read -/
def pfsGet (T : Table) (g : Getters) (v : Val) (st : State) : State × Val :=
  if fsNeedsParent T v then
    match g.par with
    | some pg => pg st T.pFontSize
    | none => (st, T.initVal T.pFontSize)
  else (st, .init 0)

def rootGet (g : Getters) (v : Val) (st : State) : State × Val :=
  if needsRoot v then g.root st else (st, .init 0)

/-- `Get(font-size)` on a ComputedStyle (= `compGet` at font-size, see `fontSizeGet_eq`) -/
def fontSizeGet (T : Table) (g : Getters) (key : List Node) (n : Node) (st : State) : State × Val :=
  match st key T.pFontSize with
  | some v => (st, v)
  | none =>
    let r := getPre T g key n T.pFontSize st
    if r.2.2 then
      let a := pfsGet T g r.2.1 r.1
      let b := rootGet g r.2.1 a.1
      let out := fontSizeArith T n r.2.1 a.2 b.2
      (b.1.set key T.pFontSize out, out)
    else (r.1, r.2.1)

/-- `Get` of a property without computer function (border styles), on a ComputedStyle -/
def plainGet (T : Table) (g : Getters) (key : List Node) (n : Node) (p : Nat) (st : State) :
    State × Val :=
  match st key p with
  | some v => (st, v)
  | none =>
    let r := getPre T g key n p st
    if r.2.2 then (r.1.set key p r.2.1, r.2.1) else (r.1, r.2.1)

/-- the own font size as `length_` reads it: `computer.GetFontSize()` only for font-relative units -/
def fsGet (T : Table) (g : Getters) (key : List Node) (n : Node) (v : Val) (st : State) : State × Val :=
  if needsFS v then fontSizeGet T g key n st else (st, .init 0)

/-- rem outside `font-size`: rootStyle.fontSize, on the root element the own font size (already
    fetched by `fsGet`: a cache hit) -/
def rootGetL (T : Table) (g : Getters) (key : List Node) (n : Node) (v : Val) (st : State) : State × Val :=
  if needsRoot v then
    match g.par with
    | none => fontSizeGet T g key n st
    | some _ => g.root st
  else (st, .init 0)

/-- `length_(computer, v, -1, pixelsOnly)` -/
def lengthGet (T : Table) (g : Getters) (key : List Node) (n : Node) (p : Nat) (v : Val)
    (pixelsOnly : Bool) (st : State) : State × Val :=
  let a := fsGet T g key n v st
  let b := rootGetL T g key n v a.1
  (b.1, lengthArith p n v a.2 b.2 pixelsOnly)

/-- the computer function of `p` applied to `v`, with the nested `Get`s it issues -/
def computeGet (T : Table) (g : Getters) (key : List Node) (n : Node) (p : Nat) (v : Val)
    (st : State) : State × Val :=
  match T.ck p with
  | .none => (st, v)
  | .fontSize =>
    let a := pfsGet T g v st
    let b := rootGet g v a.1
    (b.1, fontSizeArith T n v a.2 b.2)
  | .fontWeight =>
    if fwNeedsParent v then
      match g.par with
      | some pg => let r := pg st T.pFontWeight; (r.1, fontWeightArith T n v r.2)
      | none => (st, fontWeightArith T n v (T.initVal T.pFontWeight))
    else (st, fontWeightArith T n v (.init 0))
  | .length => lengthGet T g key n p v false st
  | .pixelLength => if v = .kw "normal" then (st, v) else lengthGet T g key n p v true st
  | .wordSpacing => if v = .kw "normal" then (st, .dim 0 uNone) else lengthGet T g key n p v false st
  | .gap => if v = .kw "normal" then (st, v) else lengthGet T g key n p v false st
  | .tabSize =>
    match v with
    | .dim x u => if u = uScalar then (st, .dim x u) else lengthGet T g key n p v false st
    | v => lengthGet T g key n p v false st
  | .lineHeight =>
    if lhNeedsFS v then
      let r := fontSizeGet T g key n st
      (r.1, lineHeightArith p n v r.2 (.init 0))
    else
      let a := fsGet T g key n v st
      let b := rootGetL T g key n v a.1
      (b.1, lineHeightArith p n v a.2 b.2)
  | .borderWidth =>
    let s := plainGet T g key n (p - 1) st
    if bwNeedsLength T v s.2 then
      let a := fsGet T g key n v s.1
      let b := rootGetL T g key n v a.1
      (b.1, borderWidthArith T p n v s.2 a.2 b.2)
    else (s.1, borderWidthArith T p n v s.2 (.init 0) (.init 0))
  | .other => (st, .comp p n.id v)

/-- ComputedStyle.Get -/
def compGet (T : Table) (g : Getters) (key : List Node) (n : Node) (p : Nat) (st : State) :
    State × Val :=
  match st key p with
  | some v => (st, v)
  | none =>
    let r := getPre T g key n p st
    if r.2.2 then
      let o := computeGet T g key n p r.2.1 r.1
      (o.1.set key p o.2, o.2)
    else (r.1, r.2.1)

/-- `Get` on one style object -/
def nodeGet (T : Table) (g : Getters) (key : List Node) (n : Node) (p : Nat) (st : State) :
    State × Val :=
  match n.anon, g.par with
  | true, some pg => anonGet T pg key p st
  | _, _ => compGet T g key n p st

def rootGetters (T : Table) : Getters :=
  { par := none, root := fun st => (st, T.initVal T.pFontSize) }

/-- **Get** with the cache: `get T chain st p` = (state after the call, returned value) -/
def get (T : Table) : List Node → State → Nat → State × Val
  | [], st, p => (st, T.initVal p)
  | [n], st, p => nodeGet T (rootGetters T) [n] n p st
  | n :: m :: rest, st, p =>
    nodeGet T { par := some (get T (m :: rest)),
                root := fun st => nodeGet T (rootGetters T) [rootOf m rest] (rootOf m rest) T.pFontSize st }
      (n :: m :: rest) n p st

/-- a sequence of `Get` calls (any styles, any properties, any order) -/
def run (T : Table) : State → List (List Node × Nat) → State × List Val
  | st, [] => (st, [])
  | st, (c, p) :: reqs =>
    let r := get T c st p
    let rs := run T r.1 reqs
    (rs.1, r.2 :: rs.2)

end WR.C04
