/-
  C04 — the table the driver (and so the judge) runs the model with: the regenerated tables of the
  code, except that the `inherited` flag of every property comes from the hand-written reference
  `specInherited` (the code's own flag only for the few properties the reference leaves unspecified).
-/
import WR.C04.SpecTable
import WR.Gen.C04Tables
namespace WR.C04
open WR.Gen.C04Tables

/-- inherited flag per property index, reference first -/
def refInherited : Array Bool :=
  rows.map fun r => match specInheritedOf r.name with
    | some (some b) => b
    | _ => r.inh

def refTable : Table :=
  { WR.Gen.C04Tables.table with inherited := fun p => match refInherited[p]? with | some b => b | none => false }

end WR.C04
