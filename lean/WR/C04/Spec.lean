/-
  C04 — specification, written from the property text / CSS Cascade 4 §7 (defaulting), CSS Values 3
  §5 (lengths) and CSS Fonts 3 §3.5 (font-size), independent of the control flow of `Get`.
-/
import WR.C04.Model
namespace WR.C04

/-- the three defaulting behaviours -/
inductive Behaviour where
  | useParent | useInitial | useDeclared (v : Val)
  deriving DecidableEq, Repr

/-- "With no winning declaration an inherited property takes the parent's computed value and any
    other its initial value; `inherit` and `initial` force those two behaviours." -/
def behaviour (T : Table) (n : Node) (p : Nat) : Behaviour :=
  match declOf n p with
  | some .inherit => .useParent
  | some .initial => .useInitial
  | some (.value v) => .useDeclared v
  | none => if T.inherited p then .useParent else .useInitial

/-- the context of a position: the computed values of the parent (none for the root element) and
    the root element's computed font size (the initial font size on the root element itself) -/
def ctxOf (T : Table) : List Node → Ctx
  | [] => rootCtx T
  | m :: rest => { par := some (computed T (m :: rest)),
                   rootFS := computed T [rootOf m rest] T.pFontSize }

/-- the initial value in computed form: `compute p (initial p)`; the implementation keeps a list
    (InitialNotComputed) of the initial values that are not already in computed form -/
def initialComputed (T : Table) (c : Ctx) (n : Node) (p : Nat) : Val :=
  if T.initNotComputed p then computePure T c n p (T.initVal p) else T.initVal p

/-- **Defaulting.** What the computed value of `p` must be at the position `n :: rest` for an
    element, pseudo-element or page context. -/
def specValue (T : Table) (n : Node) (rest : List Node) (p : Nat) : Val :=
  match behaviour T n p with
  | .useDeclared v => computePure T (ctxOf T rest) n p v
  | .useInitial => initialComputed T (ctxOf T rest) n p
  | .useParent =>
    match rest with
    | [] => initialComputed T (ctxOf T rest) n p      -- "the root inherits the initial values"
    | _ :: _ => computed T rest p

/-- anonymous boxes: inherited ⇒ the parent's computed value, otherwise the initial value
    (border widths: zero, since the border style is `none`) -/
def specAnon (T : Table) (rest : List Node) (p : Nat) : Val :=
  if T.anonSeed p then .dim 0 uNone
  else if T.inherited p then computed T rest p
  else T.initVal p

/-- exact CSS ratios (CSS Values 3 §5.2): the length of 1 unit in px -/
def specPx (u : Nat) : Option Rat :=
  if u = uPx then some 1
  else if u = uIn then some 96
  else if u = uPt then some (96 / 72)
  else if u = uPc then some (96 / 6)
  else if u = uCm then some (96 / (254/100))
  else if u = uMm then some (96 / (254/10))
  else if u = uQ then some (96 / (1016/10))
  else none

/-! ## the computed value of `display` (CSS 2.1 §9.7, CSS Display 3 §2.7) -/

/-- a display value as the validator stores it: (outer, inner, "list-item" or "") — the internal table
    types, `table-caption` and `none` are stored as (keyword, "", "") -/
abbrev Disp := String × String × String

def tableParts : List String :=
  ["table-caption", "table-row-group", "table-cell", "table-header-group", "table-footer-group",
   "table-row", "table-column-group", "table-column"]

/-- **§9.7**: on the root element, on floats (`float` ≠ none) and on absolutely positioned elements
    (`position` absolute / fixed) the display is blockified:
      inline-table → table, inline-flex → flex, inline-grid → grid (outer inline → block, inner kept),
      inline, inline-block → block (an inline flow-root box loses its flow-root nature, Display 3 §2.7),
      list items stay list items (inline list-item → block list-item),
      table-row-group, table-column, table-column-group, table-header-group, table-footer-group,
      table-row, table-cell, table-caption → block,
      everything else (block, table, flex, grid, flow-root, list-item, none) as specified. -/
def specDisplay (blockify : Bool) (d : Disp) : Disp :=
  if !blockify then d
  else if d.2.1 = "" ∧ d.2.2 = "" ∧ d.1 ∈ tableParts then ("block", "flow", "")
  else if d.1 = "inline" then
    if d.2.2 = "list-item" then ("block", "flow", "list-item")
    else ("block", if d.2.1 = "flow-root" then "flow" else d.2.1, "")
  else d

/-- every display value the validator can produce -/
def allDisplays : List Disp :=
  [("none", "", "")] ++ tableParts.map (fun t => (t, "", "")) ++
  (["block", "inline"].flatMap fun o => ["flow", "flow-root", "table", "flex", "grid"].map fun i => (o, i, "")) ++
  (["block", "inline"].flatMap fun o => ["flow", "flow-root"].map fun i => (o, i, "list-item"))

end WR.C04
