/-
  C07 — small total models of self-contained parsers of document-supplied text.  Every function
  is total by construction; what the Go code signals through an error value / nil / default is an
  explicit constructor here, and a Go run-time panic is the explicit outcome `panic`.

  * `atoi`, `integerAttribute`     strconv.Atoi as used by html/boxes/boxes_tree.go integerAttribute
                                   (colspan / rowspan / span) — strings are byte lists
  * `unescape`, `parseDataURL`     utils/urls.go percent-decoder and data: URI splitter
  * `parseNth`                     css/parser/nth.go ParseNth over the token kinds it inspects
  * `parsePAR`                     svg/parser.go parsePreserveAspectRatio
-/
namespace WR.C07

/-! ## integers in HTML attributes -/

def isDigit (c : Nat) : Bool := 48 ≤ c && c ≤ 57

/-- value of a digit string; `none` if empty or a non-digit occurs -/
def digitsVal : List Nat → Option Nat
  | [] => none
  | cs => cs.foldlM (fun acc c => if isDigit c then some (acc * 10 + (c - 48)) else none) 0

/-- strconv.Atoi (64-bit int): optional sign, at least one digit, nothing else; out of range is an error. -/
def atoi (s : List Nat) : Option Int :=
  match s with
  | 43 :: rest => (digitsVal rest).bind fun v => if v ≤ 9223372036854775807 then some (v : Int) else none
  | 45 :: rest => (digitsVal rest).bind fun v => if v ≤ 9223372036854775808 then some (-(v : Int)) else none
  | _ => (digitsVal s).bind fun v => if v ≤ 9223372036854775807 then some (v : Int) else none

/-- unicode.IsSpace restricted to what strings.TrimSpace strips in the Latin-1 range:
    \t \n \v \f \r, space, U+0085, U+00A0 (the harness sends code points). -/
def isSpace (c : Nat) : Bool := (9 ≤ c && c ≤ 13) || c = 32 || c = 0x85 || c = 0xA0

def trimLeft : List Nat → List Nat
  | [] => []
  | c :: cs => if isSpace c then trimLeft cs else c :: cs

def trimSpace (s : List Nat) : List Nat := (trimLeft (trimLeft s).reverse).reverse

/-- what the attribute reader tells its caller: the parsed (clamped) value, or "invalid" -/
inductive IntAttr where
  | value (v : Int)
  | invalid
  deriving DecidableEq, Repr

def readIntAttr (attr : List Nat) (minimum : Int) : IntAttr :=
  match atoi (trimSpace attr) with
  | none => .invalid
  | some v => .value (if v < minimum then minimum else v)

/-- boxes_tree.go integerAttribute: the HTML default 1 is applied to invalid input by the caller side -/
def integerAttribute (attr : List Nat) (minimum : Int) : Int :=
  match readIntAttr attr minimum with
  | .invalid => 1
  | .value v => v

/-! ## percent decoding and data: URIs (bytes) -/

def isHex (c : Nat) : Bool := (97 ≤ c && c ≤ 102) || (65 ≤ c && c ≤ 70) || (48 ≤ c && c ≤ 57)

def unhex (c : Nat) : Nat :=
  if 48 ≤ c && c ≤ 57 then c - 48
  else if 97 ≤ c && c ≤ 102 then c - 97 + 10
  else if 65 ≤ c && c ≤ 70 then c - 65 + 10
  else 0

inductive UnescErr where
  | nonAscii | truncated | badHex
  deriving DecidableEq, Repr

/-- utils/urls.go unescape.  (The Go code reads runes; a byte ≥ 0x80 either starts a multi-byte rune or
    is an invalid byte decoded as U+FFFD of size 1, which the Go code then writes as byte 0xFD — the
    model covers ASCII input and valid UTF-8, where every byte ≥ 0x80 yields the non-ASCII error.) -/
def unescape : List Nat → Except UnescErr (List Nat)
  | [] => .ok []
  | c :: rest =>
    if c = 37 then
      match rest with
      | [] => .error .truncated
      | h1 :: [] => if isHex h1 then .error .truncated else .error .badHex
      | h1 :: h0 :: rest' =>
        if !isHex h1 then .error .badHex
        else if !isHex h0 then .error .badHex
        else match unescape rest' with
          | .ok out => .ok ((unhex h0 + unhex h1 * 16) % 256 :: out)
          | .error e => .error e
    else if c ≥ 128 then .error .nonAscii
    else match unescape rest with
      | .ok out => .ok (c :: out)
      | .error e => .error e

/-- split at the first `sep` -/
def splitFirst (sep : Nat) : List Nat → Option (List Nat × List Nat)
  | [] => none
  | c :: cs => if c = sep then some ([], cs) else (splitFirst sep cs).map fun (a, b) => (c :: a, b)

def splitAll (sep : Nat) (s : List Nat) : List (List Nat) :=
  go s []
where
  go : List Nat → List Nat → List (List Nat)
    | [], cur => [cur.reverse]
    | c :: cs, cur => if c = sep then cur.reverse :: go cs [] else go cs (c :: cur)

structure DataURI where
  mime : List Nat
  base64 : Bool
  charset : Option (List Nat)
  payload : List Nat
  deriving DecidableEq, Repr

def base64Tag : List Nat := [98, 97, 115, 101, 54, 52]
def charsetKey : List Nat := [99, 104, 97, 114, 115, 101, 116]
def textPlain : List Nat := [116, 101, 120, 116, 47, 112, 108, 97, 105, 110]
def usAscii : List Nat := [85, 83, 45, 65, 83, 67, 73, 73]

/-- utils/urls.go parseDataURL on what follows `data:`: `none` = "data not found in Data URI". -/
def parseDataURL (afterPrefix : List Nat) : Option DataURI :=
  match splitFirst 44 afterPrefix with
  | none => none
  | some (props, payload) =>
    match splitAll 59 props with
    | [] => none  -- unreachable: splitAll never returns []
    | first :: more =>
      let (mime, cs0) := if first.contains 47 then (first, none) else (textPlain, some usAscii)
      let step (acc : Bool × Option (List Nat)) (p : List Nat) : Bool × Option (List Nat) :=
        if p = base64Tag then (true, acc.2)
        else match splitFirst 61 p with
          | some (k, v) => if k = charsetKey then (acc.1, some v) else acc
          | none => acc
      let (b64, cs) := more.foldl step (false, cs0)
      some { mime := mime, base64 := b64, charset := cs, payload := payload }

/-! ## An+B -/

/-- the token shapes ParseNth looks at (whitespace and comments are removed by `NextSignificant`,
    except directly after an initial `+`) -/
inductive Tok where
  | ws
  | number (isInt : Bool) (v : Int) (signed : Bool)   -- `signed`: the source starts with + or -
  | dimension (isInt : Bool) (v : Int) (unit : String) -- unit already ASCII-lowercased
  | ident (s : String)                                 -- already ASCII-lowercased
  | plus
  | minus
  | other
  deriving DecidableEq, Repr

def skipWs : List Tok → List Tok
  | .ws :: ts => skipWs ts
  | ts => ts

/-- regexp `^n(-[0-9]+)$` + Atoi of the group -/
def matchInt (s : String) : Option Int :=
  match s.toList with
  | 'n' :: '-' :: ds =>
    match digitsVal (ds.map Char.toNat) with
    | some v => if v ≤ 9223372036854775808 then some (-(v : Int)) else none
    | none => none
  | _ => none

def parseEnd (ts : List Tok) (a b : Int) : Option (Int × Int) :=
  match skipWs ts with
  | [] => some (a, b)
  | _ => none

def parseSignlessB (ts : List Tok) (a bSign : Int) : Option (Int × Int) :=
  match skipWs ts with
  | .number true v false :: rest => parseEnd rest a (bSign * v)
  | _ => none

def parseB (ts : List Tok) (a : Int) : Option (Int × Int) :=
  match skipWs ts with
  | [] => some (a, 0)
  | .plus :: rest => parseSignlessB rest a 1
  | .minus :: rest => parseSignlessB rest a (-1)
  | .number true v true :: rest => parseEnd rest a v
  | _ => none

def parseNth (ts : List Tok) : Option (Int × Int) :=
  match skipWs ts with
  | .number true v _ :: rest => parseEnd rest 0 v
  | .dimension true v unit :: rest =>
    if unit = "n" then parseB rest v
    else if unit = "n-" then parseSignlessB rest v (-1)
    else match matchInt unit with
      | some b => parseEnd rest v b
      | none => none
  | .ident s :: rest =>
    if s = "even" then parseEnd rest 2 0
    else if s = "odd" then parseEnd rest 2 1
    else if s = "n" then parseB rest 1
    else if s = "-n" then parseB rest (-1)
    else if s = "n-" then parseSignlessB rest 1 (-1)
    else if s = "-n-" then parseSignlessB rest (-1) (-1)
    else match s.toList with
      | '-' :: tl => match matchInt (String.ofList tl) with
        | some b => parseEnd rest (-1) b
        | none => none
      | _ => match matchInt s with
        | some b => parseEnd rest 1 b
        | none => none
  | .plus :: .ident s :: rest =>   -- no whitespace allowed after the initial "+"
    if s = "n" then parseB rest 1
    else if s = "n-" then parseSignlessB rest 1 (-1)
    else match matchInt s with
      | some b => parseEnd rest 1 b
      | none => none
  | _ => none

/-! ## preserveAspectRatio -/

structure PAR where
  x : String
  y : String
  none_ : Bool
  slice : Bool
  deriving DecidableEq, Repr

inductive Outcome (α : Type) where
  | ok (a : α)
  | panic            -- Go run-time panic (slice bounds out of range)
  deriving Repr

def asciiLower (s : List Char) : List Char :=
  s.map fun c => if 'A' ≤ c ∧ c ≤ 'Z' then Char.ofNat (c.toNat + 32) else c

/-- strings.Split(s, " ") on characters (never returns the empty list) -/
def splitSpaces (s : List Char) : List (List Char) :=
  go s []
where
  go : List Char → List Char → List (List Char)
    | [], cur => [cur.reverse]
    | c :: cs, cur => if c = ' ' then cur.reverse :: go cs [] else go cs (c :: cur)

def firstWord (s : List Char) : List Char := (splitSpaces s).headD []

def secondIsSlice (s : List Char) : Bool :=
  match splitSpaces s with
  | _ :: w :: _ => w = "slice".toList
  | _ => false

/-- svg/parser.go parsePreserveAspectRatio (since commit 0871e31; bytes = chars: ASCII input):
    `if align != "none" && len(align) == 8 { x = lower(align[1:4]); y = lower(align[5:]) }` -/
def parsePAR (s : List Char) : Outcome PAR :=
  let align := firstWord s
  let isNone := align = "none".toList
  if !isNone && align.length = 8 then
    .ok { x := String.ofList (asciiLower ((align.drop 1).take 3)), y := String.ofList (asciiLower (align.drop 5)), none_ := isNone, slice := secondIsSlice s }
  else .ok { x := "min", y := "min", none_ := isNone, slice := secondIsSlice s }

/-- the code before 0871e31, kept for the record:
    `if align != "none" || len(align) >= 5 { x = lower(align[1:4]); y = lower(align[5:]) }` -/
def parsePARBefore (s : List Char) : Outcome PAR :=
  let align := firstWord s
  let isNone := align = "none".toList
  if !isNone || align.length ≥ 5 then
    if align.length < 5 then .panic   -- align[1:4] needs len ≥ 4, align[5:] needs len ≥ 5
    else .ok { x := String.ofList (asciiLower ((align.drop 1).take 3)), y := String.ofList (asciiLower (align.drop 5)), none_ := isNone, slice := secondIsSlice s }
  else .ok { x := "min", y := "min", none_ := isNone, slice := secondIsSlice s }

end WR.C07
