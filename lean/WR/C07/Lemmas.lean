/- C07 — helper lemmas for WR/Props/C07.lean -/
import WR.C07.Spec
namespace WR.C07

theorem wellEscaped_cons_ne (c : Nat) (cs : List Nat) (h : c ≠ 37) :
    wellEscaped (c :: cs) = (decide (c < 128) && wellEscaped cs) := by
  rcases cs with _ | ⟨a, _ | ⟨b, r⟩⟩ <;> simp [wellEscaped, h]

theorem unescape_ok_iff (s : List Nat) : (∃ out, unescape s = .ok out) ↔ wellEscaped s = true := by
  fun_induction unescape s <;> simp_all [wellEscaped, wellEscaped_cons_ne] <;> omega


theorem foldlM_digits_none (cs : List Nat) (acc : Nat) (h : cs.all isDigit = false) :
    cs.foldlM (fun acc c => if isDigit c then some (acc * 10 + (c - 48)) else none) acc = none := by
  induction cs generalizing acc with
  | nil => simp at h
  | cons c cs ih =>
    simp only [List.foldlM_cons]
    cases hc : isDigit c with
    | false => simp
    | true =>
      simp only [if_true, Option.bind_eq_bind, Option.bind_some]
      have h' : cs.all isDigit = false := by simpa [List.all_cons, hc] using h
      exact ih _ h'

theorem foldlM_digits_some (cs : List Nat) (acc : Nat) (h : cs.all isDigit = true) :
    ∃ v, cs.foldlM (fun acc c => if isDigit c then some (acc * 10 + (c - 48)) else none) acc = some v := by
  induction cs generalizing acc with
  | nil => exact ⟨acc, rfl⟩
  | cons c cs ih =>
    simp only [List.all_cons, Bool.and_eq_true] at h
    simp only [List.foldlM_cons, h.1, if_true, Option.bind_eq_bind, Option.bind_some]
    exact ih _ h.2

theorem digitsVal_none_iff (s : List Nat) : digitsVal s = none ↔ allDigits s = false := by
  cases s with
  | nil => simp [digitsVal, allDigits]
  | cons c cs =>
    simp only [digitsVal, allDigits, List.isEmpty_cons, Bool.not_false, Bool.true_and]
    constructor
    · intro h
      cases hd : (c :: cs).all isDigit with
      | false => rfl
      | true => obtain ⟨v, hv⟩ := foldlM_digits_some (c :: cs) 0 hd; rw [hv] at h; cases h
    · intro h; exact foldlM_digits_none _ _ h

theorem atoi_error_signalled' (s : List Nat) (h : wellFormedInt s = false) : atoi s = none := by
  unfold atoi
  unfold wellFormedInt at h
  split <;> simp_all [(digitsVal_none_iff _).2]


theorem splitFirst_none_iff (sep : Nat) (s : List Nat) : splitFirst sep s = none ↔ sep ∉ s := by
  induction s with
  | nil => simp [splitFirst]
  | cons c cs ih =>
    simp only [splitFirst]
    by_cases h : c = sep
    · simp [h]
    · have h' : ¬ sep = c := fun e => h e.symm
      simp [h, h', ih]

theorem splitFirst_some (sep : Nat) (s a b : List Nat) (h : splitFirst sep s = some (a, b)) :
    s = a ++ sep :: b ∧ sep ∉ a := by
  induction s generalizing a with
  | nil => simp [splitFirst] at h
  | cons c cs ih =>
    simp only [splitFirst] at h
    by_cases hc : c = sep
    · simp [hc] at h; obtain ⟨ha, hb⟩ := h; subst ha hb; simp [hc]
    · simp only [hc, if_false, Option.map_eq_some_iff] at h
      obtain ⟨⟨a', b'⟩, h1, h2⟩ := h
      simp only [Prod.mk.injEq] at h2
      obtain ⟨ha, hb⟩ := h2
      subst ha hb
      obtain ⟨hs, hn⟩ := ih a' h1
      have hc' : ¬ sep = c := fun e => hc e.symm
      exact ⟨by simp [← hs], by simp [hn, hc']⟩

theorem splitAll_go_ne_nil (sep : Nat) (s cur : List Nat) : splitAll.go sep s cur ≠ [] := by
  induction s generalizing cur with
  | nil => simp [splitAll.go]
  | cons c cs ih => simp only [splitAll.go]; split <;> simp [ih]

theorem parseDataURL_none_iff (s : List Nat) : parseDataURL s = none ↔ 44 ∉ s := by
  unfold parseDataURL
  cases h : splitFirst 44 s with
  | none => simp [(splitFirst_none_iff 44 s).1 h]
  | some p =>
    obtain ⟨props, payload⟩ := p
    have hin : 44 ∈ s := by rw [(splitFirst_some 44 s props payload h).1]; simp
    simp only [hin, not_true_eq_false, iff_false]
    have := splitAll_go_ne_nil 59 props []
    unfold splitAll
    split
    · contradiction
    · simp

theorem parsePARBefore_panic_iff (s : List Char) :
    (match parsePARBefore s with | .panic => True | .ok _ => False) ↔
      firstWord s ≠ "none".toList ∧ (firstWord s).length < 5 := by
  simp only [parsePARBefore]
  generalize firstWord s = align
  by_cases hn : align = "none".toList
  · subst hn; simp
  · have hn' : ¬ align = ['n', 'o', 'n', 'e'] := hn
    by_cases hl : align.length < 5
    · simp [hn', hl]
    · have : 5 ≤ align.length := by omega
      simp [hn', hl, this]

theorem parsePAR_ok (s : List Char) : ∃ r, parsePAR s = .ok r := by
  simp only [parsePAR]; split <;> exact ⟨_, rfl⟩


theorem mem_skipWs (ts : List Tok) (h : Tok.other ∈ ts) : Tok.other ∈ skipWs ts := by
  induction ts with
  | nil => simp at h
  | cons t ts ih =>
    cases t <;> simp_all [skipWs]

theorem parseEnd_other (ts : List Tok) (a b : Int) (h : Tok.other ∈ ts) : parseEnd ts a b = none := by
  have := mem_skipWs ts h
  unfold parseEnd
  split
  · simp_all
  · rfl

theorem parseSignlessB_other (ts : List Tok) (a s : Int) (h : Tok.other ∈ ts) : parseSignlessB ts a s = none := by
  have := mem_skipWs ts h
  unfold parseSignlessB
  split
  · rename_i heq; rw [heq] at this; simp at this; exact parseEnd_other _ _ _ this
  · rfl

theorem parseB_other (ts : List Tok) (a : Int) (h : Tok.other ∈ ts) : parseB ts a = none := by
  have := mem_skipWs ts h
  unfold parseB
  split
  · simp_all
  · rename_i heq; rw [heq] at this; simp at this; exact parseSignlessB_other _ _ _ this
  · rename_i heq; rw [heq] at this; simp at this; exact parseSignlessB_other _ _ _ this
  · rename_i heq; rw [heq] at this; simp at this; exact parseEnd_other _ _ _ this
  · rfl

theorem parseNth_other (ts : List Tok) (h : Tok.other ∈ ts) : parseNth ts = none := by
  have := mem_skipWs ts h
  unfold parseNth
  split
  · rename_i heq; rw [heq] at this; simp at this; exact parseEnd_other _ _ _ this
  · rename_i heq; rw [heq] at this; simp at this
    split
    · exact parseB_other _ _ this
    · split
      · exact parseSignlessB_other _ _ _ this
      · split
        · exact parseEnd_other _ _ _ this
        · rfl
  · rename_i heq; rw [heq] at this; simp at this
    repeat' split
    all_goals first | rfl | exact parseEnd_other _ _ _ this | exact parseB_other _ _ this | exact parseSignlessB_other _ _ _ this
  · rename_i heq; rw [heq] at this; simp at this
    repeat' split
    all_goals first | rfl | exact parseEnd_other _ _ _ this | exact parseB_other _ _ this | exact parseSignlessB_other _ _ _ this
  · rfl

theorem parseNth_nil : parseNth [] = none := by decide


end WR.C07
