/-
  C07 — accepted languages (specs) of the modelled parsers, written as decidable predicates.
-/
import WR.C07.Model
namespace WR.C07

/-- percent-encoded ASCII: every `%` is followed by two hex digits, every other byte is < 0x80 -/
def wellEscaped : List Nat → Bool
  | [] => true
  | c :: rest =>
    if c = 37 then
      match rest with
      | h1 :: h0 :: rest' => isHex h1 && isHex h0 && wellEscaped rest'
      | _ => false
    else c < 128 && wellEscaped rest

/-- a non-empty list of ASCII digits -/
def allDigits (s : List Nat) : Bool := !s.isEmpty && s.all isDigit

/-- the accepted language of `atoi`: optional sign then digits -/
def wellFormedInt (s : List Nat) : Bool :=
  match s with
  | 43 :: rest => allDigits rest
  | 45 :: rest => allDigits rest
  | _ => allDigits s

end WR.C07
