/-
  C02 / C01 — progress lemmas: with `pageIsEmpty` a box is never cancelled, for every oracle.
-/
import WR.C02.Model
namespace WR.C02

variable {γ : Type}

theorem layLines_pie_no_abort (O : Oracle γ) (st : St) :
    ∀ (rest : List Nat) (j : Nat) (new : List FLine) (g : γ), (layLines O st true rest j new g).abort = false
  | [], _, _, _ => by simp [layLines]
  | l :: rest, j, new, g => by
    unfold layLines
    dsimp only
    split
    · simp
    · exact layLines_pie_no_abort O st rest (j+1) _ _

theorem finishBlock_pie (O : Oracle γ) (st : St) (gE : γ) (fs : Frags) (r : Option RS) (g' : γ) (eb : EB Frags)
    (nb nb' : NextPage) : finishBlock O st gE true fs r g' eb nb ≠ .abort nb' := by
  unfold finishBlock
  simp

theorem failOut_some (pb : Brk) (p : Box) (index : Nat) (g : γ) (pgc : Nat) (nbF : NextPage) (pg : Nat) :
    failOut pb (some p) index g pgc nbF ≠ KOut.abort pg := by
  unfold failOut
  by_cases h : pb.isAvoid = true <;> simp [h]

mutual
theorem layBox_pie_ok (O : Oracle γ) : ∀ (b : Box) (s : RS) (g : γ) (nb : NextPage),
    layBox O b s g true ≠ .abort nb
  | .para st ls, s, g, nb => by
    rw [layBox]
    dsimp only
    have h := layLines_pie_no_abort O st (ls.drop (lineOf s)) (lineOf s) [] (O.enter st true s.isStart true g)
    simp only [h, Bool.false_eq_true, if_false, Bool.not_true, Bool.and_false]
    split <;> simp
  | .block st ks, s, g, nb => by
    rw [layBox]
    have hk := layKids_pie_ok O ks 0 (startIdx s) (startSub s) none (O.enter st false s.isStart true g) {}
    cases hr : layKids O ks 0 (startIdx s) (startSub s) none (O.enter st false s.isStart true g) true {} with
    | abort pg => exact absurd hr (hk pg)
    | need fs fail g' nbF pgc =>
      simp only [Bool.not_true, Bool.false_eq_true, if_false]
      exact finishBlock_pie O st g fs _ g' none nbF nb
    | ok fs r g' eb nb2 => exact finishBlock_pie O st g fs r g' eb nb2 nb
theorem layKids_pie_ok (O : Oracle γ) : ∀ (ks : Boxes) (index i0 : Nat) (sub : RS) (prev : Option Box) (g : γ)
    (nb : NextPage) (pg : Nat), layKids O ks index i0 sub prev g true nb ≠ .abort pg
  | .nil, _, _, _, _, _, _, _ => by simp [layKids]
  | .cons c ks, index, i0, sub, prev, g, nb, pg => by
    unfold layKids
    by_cases hlt : index < i0
    · rw [if_pos hlt]
      exact layKids_pie_ok O ks (index+1) i0 sub prev g nb pg
    · rw [if_neg hlt]
      dsimp only
      split
      · simp
      · -- the attempt
        cases prev with
        | some p =>
          split
          · exact failOut_some _ p index g _ _ pg
          · split
            · simp
            · have ih := layKids_pie_ok O ks (index+1) i0 sub (some c)
              split
              · rename_i h; exact absurd h (ih _ _ _)
              · simp
              · split <;> simp
        | none =>
          -- pie' = true: the child is never cancelled, the overflow tests are disabled
          simp only [Option.isNone_none, Bool.and_true]
          have hc := layBox_pie_ok O c (if index = i0 then sub else RS.start) g
          have hatt : ∀ nbA, attempt O (fun g' => layBox O c (if index = i0 then sub else RS.start) g' true) g true
              ≠ .abort nbA := by
            intro nbA
            unfold attempt
            dsimp only
            cases hl : layBox O c (if index = i0 then sub else RS.start) g true with
            | abort nb0 => exact absurd hl (hc nb0)
            | ok br =>
              dsimp only
              split
              · simp
              · simp
          split
          · rename_i h; exact absurd h (hatt _)
          · split
            · simp
            · have ih := layKids_pie_ok O ks (index+1) i0 sub (some c)
              split
              · rename_i h; exact absurd h (ih _ _ _)
              · simp
              · split <;> simp
end

/-- the page loop never reaches the branch where Go panics with "expected non nil box for the root element" -/
theorem pagesLoop_no_root_abort (P : PageInfo → Oracle γ × γ) (root : Box) (info : PageInfo) (s : RS) (nb : NextPage) :
    layBox (P info).1 root s (P info).2 true ≠ .abort nb :=
  layBox_pie_ok _ root s _ nb

/-- one step of the page loop, case by case -/
theorem pagesLoop_cases (P : PageInfo → Oracle γ × γ) (ltr : Bool) (root : Box) (fuel index : Nat) (s : PState) :
    ((pageInfo ltr index s).blank = true ∧
      (pagesLoop P ltr root (fuel+1) index s).pages = { info := pageInfo ltr index s, frag := none } ::
        (pagesLoop P ltr root fuel (index+1) { s with right := !s.right }).pages) ∨
    ((pageInfo ltr index s).blank = false ∧ (pagesLoop P ltr root (fuel+1) index s).pages = []) ∨
    ((pageInfo ltr index s).blank = false ∧ ∃ f, (pagesLoop P ltr root (fuel+1) index s).pages =
        [{ info := pageInfo ltr index s, frag := some f }]) ∨
    ((pageInfo ltr index s).blank = false ∧ ∃ f r' nb, (pagesLoop P ltr root (fuel+1) index s).pages =
        { info := pageInfo ltr index s, frag := some f } ::
          (pagesLoop P ltr root fuel (index+1) { resume := r', nb := nb, right := !s.right }).pages) := by
  rw [pagesLoop]
  dsimp only
  by_cases hb : (pageInfo ltr index s).blank = true
  · left; simp [hb]
  · have hb' : (pageInfo ltr index s).blank = false := by simpa using hb
    right
    rw [if_neg hb]
    cases hl : layBox (P (pageInfo ltr index s)).1 root s.resume (P (pageInfo ltr index s)).2 true with
    | abort nb => left; simp [hb']
    | ok br =>
      right
      dsimp only
      cases hr : br.resume with
      | none => left; exact ⟨hb', br.frag, rfl⟩
      | some r' => right; exact ⟨hb', br.frag, r', br.nb, rfl⟩

theorem first_page_info (P : PageInfo → Oracle γ × γ) (ltr : Bool) (root : Box) (fuel index : Nat) (s : PState) :
    match (pagesLoop P ltr root fuel index s).pages with
    | [] => True
    | p :: _ => p.info = pageInfo ltr index s := by
  cases fuel with
  | zero => simp [pagesLoop]
  | succ fuel =>
    rcases pagesLoop_cases P ltr root fuel index s with ⟨hb, h⟩ | ⟨hb, h⟩ | ⟨hb, f, h⟩ | ⟨hb, f, r', nb, h⟩ <;>
      rw [h] <;> simp

/-- no two consecutive blank pages -/
def NoBB : List Page → Prop
  | p :: q :: rest => ¬ (p.info.blank = true ∧ q.info.blank = true) ∧ NoBB (q :: rest)
  | _ => True

theorem blank_then_not_blank (ltr : Bool) (index : Nat) (s : PState) (hb : (pageInfo ltr index s).blank = true) :
    (pageInfo ltr (index+1) { s with right := !s.right }).blank = false := by
  unfold pageInfo at hb ⊢
  dsimp only at hb ⊢
  cases hs : sideOf ltr s.nb.brk with
  | none => simp [hs] at hb
  | some w =>
    rw [hs] at hb
    dsimp only at hb ⊢
    cases w <;> cases hr : s.right <;> simp [hr] at hb ⊢

theorem pagesLoop_noBB (P : PageInfo → Oracle γ × γ) (ltr : Bool) (root : Box) :
    ∀ (fuel index : Nat) (s : PState), NoBB (pagesLoop P ltr root fuel index s).pages
  | 0, _, _ => by simp [pagesLoop, NoBB]
  | fuel+1, index, s => by
    rcases pagesLoop_cases P ltr root fuel index s with ⟨hb, h⟩ | ⟨hb, h⟩ | ⟨hb, f, h⟩ | ⟨hb, f, r', nb, h⟩
    · rw [h]
      have ih := pagesLoop_noBB P ltr root fuel (index+1) { s with right := !s.right }
      have hf := first_page_info P ltr root fuel (index+1) { s with right := !s.right }
      revert ih hf
      cases (pagesLoop P ltr root fuel (index+1) { s with right := !s.right }).pages with
      | nil => intro _ _; simp [NoBB]
      | cons q rest =>
        intro ih hf
        dsimp only at hf
        refine ⟨?_, ih⟩
        rw [hf, blank_then_not_blank ltr index s hb]
        simp
    · rw [h]; simp [NoBB]
    · rw [h]; simp [NoBB]
    · rw [h]
      have ih := pagesLoop_noBB P ltr root fuel (index+1) { resume := r', nb := nb, right := !s.right }
      revert ih
      cases (pagesLoop P ltr root fuel (index+1) { resume := r', nb := nb, right := !s.right }).pages with
      | nil => intro _; simp [NoBB]
      | cons q rest =>
        intro ih
        exact ⟨by simp [hb], ih⟩

end WR.C02
