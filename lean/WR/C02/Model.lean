/-
  C02 / C12 — pagination model for class F (nested in-flow block boxes of automatic height whose
  leaves are paragraphs of fixed-height lines).  Mirrors html/layout/blocks.go
  (blockLevelLayout, blockContainerLayout, lineBoxLayout, breakLine, inFlowLayout,
  blockLevelPageBreak, blockLevelPageName, findEarlierPageBreak) and the page loop of pages.go
  (remakePage / makeAllPages) for that class.

  Every geometric decision (does this line / this child overflow the page, where is a line put,
  how do margins collapse) is taken by an `Oracle γ` over an abstract geometry state `γ`; the
  conservation and progress theorems (WR/Props/C02.lean) hold for EVERY oracle.  The concrete
  geometry of the Go code (margins with collapsing, padding, borders, bottom space, page bottom) is
  one instance: `WR/C02/Geo.lean`; the driver executes `layBox (geo …)`, i.e. the very functions the
  theorems are about.

  `findEarlierPageBreak` searches the fragments already built; here every complete layout result
  carries its best earlier-break candidate (`eb`), computed while unwinding — extensionally the same
  search in the same preference order.
-/
namespace WR.C02

/-- values of break-before / break-after / break-inside that matter for page breaks
    (`avoid-page` is sent as `avoid`) -/
inductive Brk | auto | avoid | page | left | right | recto | verso
  deriving DecidableEq, Repr, Inhabited

/-- avoidPageBreak (not in a column) -/
def Brk.isAvoid : Brk → Bool
  | .avoid => true
  | _ => false

/-- forcePageBreak (not in a column) -/
def Brk.isForce : Brk → Bool
  | .page | .left | .right | .recto | .verso => true
  | _ => false

/-- style of a block-level box.  The geometry fields are opaque to the generic model: only the
    oracle reads them.  Lengths are integers in an arbitrary common unit (the harness uses 1/4 px). -/
structure St where
  bi : Brk := .auto      -- break-inside
  bb : Brk := .auto      -- break-before
  ba : Brk := .auto      -- break-after
  orph : Nat := 2
  wid : Nat := 2
  pg : Nat := 0          -- used value of `page` (0 = "")
  root : Bool := false   -- IsForRootElement
  mT : Int := 0          -- margin-top
  mB : Int := 0
  pT : Int := 0          -- padding-top
  pB : Int := 0
  bT : Int := 0          -- border-top-width
  bB : Int := 0
deriving Repr, Inhabited

mutual
inductive Box
  | para (st : St) (lines : List Nat)
  | block (st : St) (kids : Boxes)
inductive Boxes
  | nil
  | cons (b : Box) (bs : Boxes)
end

instance : Inhabited Box := ⟨.para {} []⟩

/-- Go's single-key `ResumeStack`: `start` = nil, `at i sub` = `{i: sub}` -/
inductive RS | start | at (i : Nat) (sub : RS)
deriving Repr, DecidableEq, Inhabited

def RS.isStart : RS → Bool
  | .start => true
  | _ => false

def Box.st : Box → St
  | .para st _ => st
  | .block st _ => st

def Boxes.ofList : List Box → Boxes
  | [] => .nil
  | b :: bs => .cons b (Boxes.ofList bs)

/-! ### break / page-name classification between siblings -/

mutual
/-- break-after values of the box and its chain of last descendants, outermost first -/
def Box.afterVals : Box → List Brk
  | .para st _ => [st.ba]
  | .block st ks => st.ba :: ks.lastAfterVals
def Boxes.lastAfterVals : Boxes → List Brk
  | .nil => []
  | .cons b bs =>
    match bs with
    | .nil => b.afterVals
    | .cons _ _ => bs.lastAfterVals
end

mutual
/-- break-before values of the box and its chain of first descendants, outermost first -/
def Box.beforeVals : Box → List Brk
  | .para st _ => [st.bb]
  | .block st ks => st.bb :: ks.firstBeforeVals
def Boxes.firstBeforeVals : Boxes → List Brk
  | .nil => []
  | .cons b _ => b.beforeVals
end

/-- one step of the fold in `blockLevelPageBreak` (page contexts: column values do not occur) -/
def pickBrk (result v : Brk) : Brk :=
  match v with
  | .left | .right | .recto | .verso => v
  | .page => if result = .auto ∨ result = .avoid then v else result
  | .avoid => if result = .auto then v else result
  | .auto => result

/-- `blockLevelPageBreak(siblingBefore, siblingAfter)` -/
def between (a b : Box) : Brk :=
  (a.afterVals.reverse ++ b.beforeVals).foldl pickBrk .auto

mutual
/-- first component of `PageValues()` -/
def Box.pgStart : Box → Nat
  | .para st _ => st.pg
  | .block st ks => let s := ks.firstPgStart; if s ≠ 0 then s else st.pg
def Boxes.firstPgStart : Boxes → Nat
  | .nil => 0
  | .cons b _ => b.pgStart
end

mutual
/-- second component of `PageValues()` -/
def Box.pgEnd : Box → Nat
  | .para st _ => st.pg
  | .block st ks => let s := ks.lastPgEnd; if s ≠ 0 then s else st.pg
def Boxes.lastPgEnd : Boxes → Nat
  | .nil => 0
  | .cons b bs =>
    match bs with
    | .nil => b.pgEnd
    | .cons _ _ => bs.lastPgEnd
end

/-- second result of `blockLevelPageName(before, after)`: the page names differ (the new one may be
    the unnamed page) -/
def nameStop (a b : Box) : Bool := a.pgEnd != b.pgStart

/-! ### fragments -/

/-- a laid-out line: its token, the resume index stored on it (index of the next line of the
    paragraph, `none` for the last line) and the y it was put at -/
structure FLine where
  tok : Nat
  res : Option Nat
  pos : Int
deriving Repr, Inhabited, DecidableEq

mutual
inductive Frag
  | para (st : St) (lines : List FLine)
  | block (st : St) (kids : Frags)
inductive Frags
  | nil
  | cons (idx : Nat) (src : Box) (f : Frag) (fs : Frags)
end

instance : Inhabited Frag := ⟨.para {} []⟩

def Frag.st : Frag → St
  | .para st _ => st
  | .block st _ => st

def Frags.isEmpty : Frags → Bool
  | .nil => true
  | _ => false

def Frags.headIdxSrc : Frags → Option (Nat × Box)
  | .nil => none
  | .cons i src _ _ => some (i, src)

mutual
/-- second component of `PageValues()` of a laid-out fragment -/
def Frag.pgEnd : Frag → Nat
  | .para st _ => st.pg
  | .block st ks => let s := ks.lastPgEnd; if s ≠ 0 then s else st.pg
def Frags.lastPgEnd : Frags → Nat
  | .nil => 0
  | .cons _ _ f fs =>
    match fs with
    | .nil => f.pgEnd
    | .cons _ _ _ _ => fs.lastPgEnd
end

/-- `tree.PageBreak`: `brk = none` is "any" -/
structure NextPage where
  brk : Option Brk := none
  pg : Nat := 0
  changed : Bool := false   -- PageChanged: `pg` was set by a change of named page (0 = the unnamed page then)
deriving Repr, DecidableEq, Inhabited

/-! ### the oracle -/

/-- everything geometric.  `γ` is the geometry state threaded through the layout of one page. -/
structure Oracle (γ : Type) where
  /-- blockLevelLayout's margin truncation + blockContainerLayout's prologue -/
  enter : St → (isPara isStart pie : Bool) → γ → γ
  /-- lineBoxLayout: does the line about to be placed overflow (`isLast`: it is the paragraph's last line) -/
  lineOver : γ → (isLast : Bool) → Bool
  /-- place one line: new state and the line's y -/
  place : γ → (pie isLast : Bool) → γ × Int
  /-- after the line loop -/
  linesDone : (stopped : Bool) → γ → γ
  /-- the child just laid out (its exit state) is collapsing through -/
  collThrough : γ → Bool
  /-- inFlowLayout: the child's content box overflows (state before the child, child's exit state) -/
  overC : γ → γ → Bool
  /-- inFlowLayout: the child's border box overflows -/
  overB : γ → γ → Bool
  /-- state for the second layout of the child with a larger bottom space -/
  bump : γ → γ → γ
  /-- the parent's state after the child has been accepted -/
  afterKid : γ → γ → γ
  /-- after the child loop -/
  kidsDone : (stopped : Bool) → γ → γ
  /-- blockContainerLayout's epilogue (height, bottom margins); `gEntry` is the state the box was entered with -/
  exit : St → (gEntry : γ) → (fragmented hasInFlow : Bool) → γ → γ

/-! ### lines -/

structure LRes (γ : Type) where
  abort : Bool
  stop : Bool
  new : List FLine
  g : γ

/-- line index addressed by the part of a resume stack below the paragraph -/
def lineOf : RS → Nat
  | .start => 0
  | .at _ .start => 0
  | .at _ (.at j _) => j

/-- `lineBoxLayout` + `breakLine` over the remaining lines `rest` (the first of which has index `j`) -/
def layLines {γ : Type} (O : Oracle γ) (st : St) (pie : Bool) :
    (rest : List Nat) → (j : Nat) → (new : List FLine) → γ → LRes γ
  | [], _, new, g => { abort := false, stop := false, new, g }
  | l :: rest, j, new, g =>
    let res : Option Nat := if rest.isEmpty then none else some (j+1)
    if (!new.isEmpty || !pie) && O.lineOver g rest.isEmpty then
      -- breakLine
      if new.length < st.orph && !pie then { abort := true, stop := false, new, g }
      else
        let needed := (st.wid - 1) - min (st.wid - 1) rest.length
        if new.length < needed + st.orph && !pie then { abort := true, stop := false, new, g }
        else
          let new' := if needed ≠ 0 ∧ needed + st.orph ≤ new.length then new.take (new.length - needed) else new
          { abort := false, stop := true, new := new', g }
    else
      let p := O.place g pie rest.isEmpty
      layLines O st pie rest (j+1) (new ++ [{ tok := l, res, pos := p.2 }]) p.1

def startIdx : RS → Nat
  | .start => 0
  | .at i _ => i
def startSub : RS → RS
  | .start => .start
  | .at _ s => s

def lastResume (new : List FLine) (dflt : RS) : RS :=
  match new.getLast? with
  | some ⟨_, some j, _⟩ => .at 0 (.at j .start)
  | some ⟨_, none, _⟩ => .at 0 .start
  | none => dflt

/-! ### blocks -/

/-- candidate earlier break: truncated fragment(s) and the resume position -/
abbrev EB (α : Type) := Option (α × RS)

structure BRes (γ : Type) where
  frag : Frag
  resume : Option RS
  g : γ
  eb : EB Frag          -- only meaningful when `resume = none`
  nb : NextPage

/-- result of laying out one box: Go's `nil` box is `abort` -/
inductive BOut (γ : Type)
  | ok (br : BRes γ)
  | abort (nb : NextPage)

inductive KOut (γ : Type)
  | ok (fs : Frags) (resume : Option RS) (g : γ) (eb : EB Frags) (nb : NextPage)
  | abort (pg : Nat)
  | need (fs : Frags) (fail : Nat) (g : γ) (nb : NextPage) (pgc : Nat)
      -- kid `fail` could not be placed, the break before it should be avoided; `fs` = kids placed from here on

def ebInside (index : Nat) (c : Box) (cf : Frag) (cfEb : EB Frag) : EB Frags :=
  if !cf.st.bi.isAvoid then
    match cfEb with
    | some (cf', r) => some (.cons index c cf' .nil, .at index r)
    | none => none
  else none

def ebHere (index : Nat) (c : Box) (cf : Frag) (cfEb : EB Frag) (fs : Frags) : EB Frags :=
  match fs.headIdxSrc with
  | some (i2, c2) =>
    if !(between c c2).isAvoid then some (.cons index c cf .nil, .at i2 .start) else ebInside index c cf cfEb
  | none => ebInside index c cf cfEb

/-- earlier-break candidate for `cons index cf fs` given the candidate of `fs` (Go: `findEarlierPageBreak`) -/
def ebCons (index : Nat) (c : Box) (cf : Frag) (cfEb : EB Frag) (fs : Frags) (fsEb : EB Frags) : EB Frags :=
  match fsEb with
  | some (fs', rs) => some (.cons index c cf fs', rs)
  | none => ebHere index c cf cfEb fs

/-- `findEarlierPageBreak` on the lines of a complete paragraph -/
def paraEb (st : St) (lines : List FLine) : EB Frag :=
  if st.wid + st.orph ≤ lines.length ∧ 0 < st.wid ∧ st.wid < lines.length then
    let kept := lines.take (lines.length - st.wid)
    some (.para st kept, lastResume kept (.at 0 .start))
  else none

/-- epilogue of `blockContainerLayout` for a block whose child loop has ended -/
def finishBlock {γ : Type} (O : Oracle γ) (st : St) (gEntry : γ) (pie : Bool)
    (fs : Frags) (r : Option RS) (g' : γ) (eb : EB Frags) (nb : NextPage) : BOut γ :=
  if r.isSome && st.bi.isAvoid && !pie then .abort {}
  else
    let g3 := O.exit st gEntry r.isSome (!fs.isEmpty) (O.kidsDone r.isSome g')
    let frag := Frag.block st fs
    let nb' : NextPage := if nb.pg = 0 && !nb.changed then { nb with pg := frag.pgEnd } else nb
    let eb' : EB Frag := match eb with
      | some (fs', rs) => some (.block st fs', rs)
      | none => none
    .ok { frag, resume := r, g := g3, eb := eb', nb := nb' }

/-- `blockLevelPageBreak(lastInFlowChild, child)`, "auto" when there is no in-flow child yet -/
def pbOf (prev : Option Box) (c : Box) : Brk :=
  match prev with
  | none => .auto
  | some p => between p c

/-- `blockLevelPageName(lastInFlowChild, child)`: the page name changes -/
def nsOf (prev : Option Box) (c : Box) : Bool :=
  match prev with
  | none => false
  | some p => nameStop p c

/-- inFlowLayout when the child could not be placed (`newChild == nil`): search an earlier break
    (`need`), stop before the child, or abort the parent -/
def failOut {γ : Type} (pb : Brk) (prev : Option Box) (index : Nat) (g : γ) (pgc : Nat) (nbF : NextPage) : KOut γ :=
  if pb.isAvoid then (if prev.isNone then .abort pgc else .need .nil index g nbF pgc)
  else if prev.isSome then .ok .nil (some (.at index .start)) g none nbF else .abort pgc

/-- inFlowLayout: layout of the child (`lay`), the two overflow tests, second layout with a larger
    bottom space -/
def attempt {γ : Type} (O : Oracle γ) (lay : γ → BOut γ) (g : γ) (pie' : Bool) : BOut γ :=
  match lay g with
  | .abort nbA => .abort nbA
  | .ok br =>
    if O.collThrough br.g then .ok br
    else if !pie' && O.overC g br.g then .abort br.nb
    else if !pie' && O.overB g br.g then lay (O.bump g br.g)
    else .ok br

mutual
/-- `blockLevelLayout` of `box` resumed at `skip`; `pie` = pageIsEmpty -/
def layBox {γ : Type} (O : Oracle γ) : Box → RS → γ → Bool → BOut γ
  | .para st ls, skip, g, pie =>
    let j0 := lineOf skip
    let r := layLines O st pie (ls.drop j0) j0 [] (O.enter st true skip.isStart pie g)
    if r.abort then .abort { pg := st.pg }
    else if r.stop && st.bi.isAvoid && !pie then .abort {}
    else
      let g3 := O.exit st g r.stop (!r.new.isEmpty) (O.linesDone r.stop r.g)
      if r.stop then
        .ok { frag := .para st r.new, resume := some (lastResume r.new (.at 0 (.at j0 .start))), g := g3,
              eb := none, nb := { pg := st.pg } }
      else
        .ok { frag := .para st r.new, resume := none, g := g3, eb := paraEb st r.new, nb := { pg := st.pg } }
  | .block st ks, skip, g, pie =>
    match layKids O ks 0 (startIdx skip) (startSub skip) none (O.enter st false skip.isStart pie g) pie {} with
    | .abort pg => .abort { pg }
    | .need fs fail g' nbF pgc =>
      -- nobody found an earlier break
      if !pie then .abort { pg := pgc }
      else finishBlock O st g pie fs (some (.at fail .start)) g' none nbF
    | .ok fs r g' eb nb => finishBlock O st g pie fs r g' eb nb
/-- the child loop of `blockContainerLayout` + `inFlowLayout`; `index` = absolute index of the head of
    the list, `(i0, sub)` = unpacked skip stack, `prev` = source of the last in-flow child placed,
    `nb` = current value of `nextPage` -/
def layKids {γ : Type} (O : Oracle γ) :
    Boxes → (index i0 : Nat) → (sub : RS) → (prev : Option Box) → γ → (pie : Bool) → (nb : NextPage) → KOut γ
  | .nil, _, _, _, _, g, _, nb => .ok .nil none g none nb
  | .cons c ks, index, i0, sub, prev, g, pie, nb =>
    if index < i0 then layKids O ks (index+1) i0 sub prev g pie nb
    else
      let pb := pbOf prev c
      if prev.isSome && (pb.isForce || nsOf prev c) then
        .ok .nil (some (.at index .start)) g none { brk := some pb, pg := c.pgStart, changed := nsOf prev c }
      else
        let pie' := pie && prev.isNone
        let skip := if index = i0 then sub else RS.start
        let fail := failOut pb prev index g c.pgStart
        match attempt O (fun g' => layBox O c skip g' pie') g pie' with
        | .abort nbA => fail nbA
        | .ok br =>
          match br.resume with
          | some r' => .ok (.cons index c br.frag .nil) (some (.at index r')) (O.afterKid g br.g) none br.nb
          | none =>
            match layKids O ks (index+1) i0 sub (some c) (O.afterKid g br.g) pie br.nb with
            | .abort pg => .abort pg
            | .ok fs r2 g2 eb nb2 => .ok (.cons index c br.frag fs) r2 g2 (ebCons index c br.frag br.eb fs eb) nb2
            | .need fs fl g2 nbF pgc =>
              match ebCons index c br.frag br.eb fs none with
              | some (fs', rs) => .ok fs' (some rs) g2 none nbF
              | none => .need (.cons index c br.frag fs) fl g2 nbF pgc
end

/-! ### the page loop (initializePageMaker / remakePage / makeAllPages) -/

structure PageInfo where
  index : Nat          -- 0-based; `first` = (index = 0)
  right : Bool
  blank : Bool
  name : Nat
  forced : Bool        -- context.forcedBreak
deriving Repr, DecidableEq, Inhabited

/-- state carried from page to page (`tree.PageMaker`) -/
structure PState where
  resume : RS
  nb : NextPage
  right : Bool
deriving Repr, Inhabited

/-- side requested by a break value: `some true` = right -/
def sideOf (ltr : Bool) : Option Brk → Option Bool
  | some .left => some false
  | some .right => some true
  | some .recto => some ltr
  | some .verso => some (!ltr)
  | _ => none

def pageInfo (ltr : Bool) (index : Nat) (s : PState) : PageInfo :=
  let blank := match sideOf ltr s.nb.brk with
    | some wantRight => wantRight != s.right
    | none => false
  { index, right := s.right, blank, name := if blank then 0 else s.nb.pg,
    forced := s.nb.brk.isSome || s.nb.pg != 0 || s.nb.changed }

/-- `initializePageMaker` -/
def initState (ltr : Bool) (root : Box) : PState :=
  let right := match root.st.bb with
    | .right => true
    | .left => false
    | .recto => ltr
    | .verso => !ltr
    | _ => ltr
  { resume := .start, nb := { brk := none, pg := root.pgStart }, right }

structure Page where
  info : PageInfo
  frag : Option Frag      -- none on a blank page
deriving Inhabited

structure PagesRes where
  pages : List Page
  done : Bool             -- the loop ended because the resume position became nil

/-- `makeAllPages`.  `P` gives the oracle and the initial geometry state of a page from its type. -/
def pagesLoop {γ : Type} (P : PageInfo → Oracle γ × γ) (ltr : Bool) (root : Box) :
    (fuel : Nat) → (index : Nat) → PState → PagesRes
  | 0, _, _ => { pages := [], done := false }
  | fuel+1, index, s =>
    let info := pageInfo ltr index s
    if info.blank then
      let r := pagesLoop P ltr root fuel (index+1) { s with right := !s.right }
      { r with pages := { info, frag := none } :: r.pages }
    else
      match layBox (P info).1 root s.resume (P info).2 true with
      | .abort _ => { pages := [], done := false }      -- Go: panic("expected non nil box for the root element")
      | .ok br =>
        match br.resume with
        | none => { pages := [{ info, frag := some br.frag }], done := true }
        | some r' =>
          let r := pagesLoop P ltr root fuel (index+1) { resume := r', nb := br.nb, right := !s.right }
          { r with pages := { info, frag := some br.frag } :: r.pages }

def paginate {γ : Type} (P : PageInfo → Oracle γ × γ) (ltr : Bool) (root : Box) (fuel : Nat) : PagesRes :=
  pagesLoop P ltr root fuel 0 (initState ltr root)

end WR.C02
