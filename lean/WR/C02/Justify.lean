/-
  C02 / C12 — why a page ends where it ends (class-F model, every oracle):
  * a paragraph's fragment ends only because the oracle says the next line does not fit, and lines are
    taken back only as `widows` requires; it is cancelled only on a non-empty page, for orphans / widows;
  * the child loop stops before a child only at a forced break / change of page name or because the
    attempt to place the child failed; the attempt fails only if the child is cancelled, its content
    overflows, or the second layout (more bottom space for its padding / border) is cancelled;
  * the earlier-break candidate every complete result carries IS `findEarlierPageBreak` on the fragments
    built so far, and the loop gives up on an `avoid` only when that search finds nothing.
-/
import WR.C02.Lemmas
namespace WR.C02

variable {γ : Type}

/-- a candidate built by `ebCons` is never the empty fragment list -/
theorem ebCons_ok_nonnil (index : Nat) (c : Box) (cf : Frag) (cfEb : EB Frag) (fs : Frags) (fsEb : EB Frags)
    (fs' : Frags) (rs : RS) (h : ebCons index c cf cfEb fs fsEb = some (fs', rs)) : fs' ≠ .nil := by
  have inside : ∀ fs' rs, ebInside index c cf cfEb = some (fs', rs) → fs' ≠ .nil := by
    intro fs' rs hin
    unfold ebInside at hin
    split at hin
    · cases cfEb with
      | none => simp at hin
      | some q => simp only [Option.some.injEq, Prod.mk.injEq] at hin; rw [← hin.1]; simp
    · simp at hin
  unfold ebCons at h
  cases fsEb with
  | some q => simp only [Option.some.injEq, Prod.mk.injEq] at h; rw [← h.1]; simp
  | none =>
    dsimp only at h
    unfold ebHere at h
    cases hh : fs.headIdxSrc with
    | none => rw [hh] at h; exact inside fs' rs h
    | some q =>
      rw [hh] at h
      dsimp only at h
      split at h
      · simp only [Option.some.injEq, Prod.mk.injEq] at h; rw [← h.1]; simp
      · exact inside fs' rs h

/-! ### lines -/

/-- the lines placed and the state reached after the first `k` lines of `rest` have been placed -/
def placeN (O : Oracle γ) (pie : Bool) : (rest : List Nat) → (j k : Nat) → List FLine → γ → List FLine × γ
  | _, _, 0, new, g => (new, g)
  | [], _, _+1, new, g => (new, g)
  | l :: rest, j, k+1, new, g =>
    placeN O pie rest (j+1) k
      (new ++ [{ tok := l, res := if rest.isEmpty then none else some (j+1), pos := (O.place g pie rest.isEmpty).2 }])
      (O.place g pie rest.isEmpty).1

/-- lines `breakLine` takes back for the widows of the rest of the paragraph -/
def widowsNeeded (st : St) (remainingAfterCurrent : Nat) : Nat :=
  (st.wid - 1) - min (st.wid - 1) remainingAfterCurrent

def afterWidows (st : St) (placed : List FLine) (remainingAfterCurrent : Nat) : List FLine :=
  let needed := widowsNeeded st remainingAfterCurrent
  if needed ≠ 0 ∧ needed + st.orph ≤ placed.length then placed.take (placed.length - needed) else placed

/-- what the line loop did: it placed `k` lines, then the oracle said the next line `l` does not fit
    (and something was already on the page or the page was not empty) -/
structure LineStop (O : Oracle γ) (st : St) (pie : Bool) (rest : List Nat) (j : Nat) (new : List FLine) (g : γ)
    (k : Nat) (l : Nat) (rest' : List Nat) : Prop where
  split : rest.drop k = l :: rest'
  guard : ((placeN O pie rest j k new g).1 ≠ [] ∨ pie = false)
  over : O.lineOver (placeN O pie rest j k new g).2 rest'.isEmpty = true

theorem layLines_justified (O : Oracle γ) (st : St) (pie : Bool) :
    ∀ (rest : List Nat) (j : Nat) (new : List FLine) (g : γ),
      let r := layLines O st pie rest j new g
      -- complete: every line placed
      (r.abort = false → r.stop = false → r.new = (placeN O pie rest j rest.length new g).1) ∧
      -- stopped: the next line does not fit; lines are taken back only for widows
      (r.stop = true → ∃ k l rest', LineStop O st pie rest j new g k l rest' ∧
          r.new = afterWidows st (placeN O pie rest j k new g).1 rest'.length) ∧
      -- cancelled: the next line does not fit, the page is not empty, orphans / widows cannot be met
      (r.abort = true → ∃ k l rest', LineStop O st pie rest j new g k l rest' ∧ pie = false ∧
          ((placeN O pie rest j k new g).1.length < st.orph ∨
           (placeN O pie rest j k new g).1.length < widowsNeeded st rest'.length + st.orph))
  | [], j, new, g => by simp [layLines, placeN]
  | l :: rest, j, new, g => by
    by_cases hov : ((!new.isEmpty || !pie) && O.lineOver g rest.isEmpty) = true
    · -- the oracle says `l` does not fit
      have hstop : LineStop O st pie (l :: rest) j new g 0 l rest := by
        refine ⟨rfl, ?_, ?_⟩
        · simp only [placeN]
          simp only [Bool.and_eq_true, Bool.or_eq_true, Bool.not_eq_true'] at hov
          rcases hov.1 with h | h
          · left; intro hn; simp [hn] at h
          · right; exact h
        · simp only [placeN]
          simp only [Bool.and_eq_true] at hov
          exact hov.2
      by_cases h1 : (decide (new.length < st.orph) && !pie) = true
      · simp only [layLines, hov, h1, if_true]
        refine ⟨by simp, by simp, fun _ => ⟨0, l, rest, hstop, ?_, ?_⟩⟩
        · simp only [Bool.and_eq_true, Bool.not_eq_true'] at h1; exact h1.2
        · left
          simp only [Bool.and_eq_true, decide_eq_true_eq] at h1
          simpa [placeN] using h1.1
      · by_cases h2 : (decide (new.length < (st.wid - 1) - min (st.wid - 1) rest.length + st.orph) && !pie) = true
        · simp only [layLines, hov, h1, h2, if_true, Bool.false_eq_true, if_false]
          refine ⟨by simp, by simp, fun _ => ⟨0, l, rest, hstop, ?_, ?_⟩⟩
          · simp only [Bool.and_eq_true, Bool.not_eq_true'] at h2; exact h2.2
          · right
            simp only [Bool.and_eq_true, decide_eq_true_eq] at h2
            simpa [placeN, widowsNeeded] using h2.1
        · simp only [layLines, hov, h1, h2, if_true, Bool.false_eq_true, if_false]
          refine ⟨by simp, fun _ => ⟨0, l, rest, hstop, ?_⟩, by simp⟩
          simp only [afterWidows, widowsNeeded, placeN, ne_eq]
          by_cases hc : ¬st.wid - 1 - min (st.wid - 1) rest.length = 0 ∧
              st.wid - 1 - min (st.wid - 1) rest.length + st.orph ≤ new.length
          · simp [hc]
          · simp [hc]
    · -- `l` is placed
      have hov' : ((!new.isEmpty || !pie) && O.lineOver g rest.isEmpty) = false := by simpa using hov
      have key : layLines O st pie (l :: rest) j new g =
          layLines O st pie rest (j+1)
            (new ++ [{ tok := l, res := if rest.isEmpty then none else some (j+1), pos := (O.place g pie rest.isEmpty).2 }])
            (O.place g pie rest.isEmpty).1 := by
        simp [layLines, hov']
      have ih := layLines_justified O st pie rest (j+1)
        (new ++ [{ tok := l, res := if rest.isEmpty then none else some (j+1), pos := (O.place g pie rest.isEmpty).2 }])
        (O.place g pie rest.isEmpty).1
      dsimp only at ih ⊢
      rw [key]
      obtain ⟨ih1, ih2, ih3⟩ := ih
      have shift : ∀ k l' rest', LineStop O st pie rest (j+1)
          (new ++ [{ tok := l, res := if rest.isEmpty then none else some (j+1), pos := (O.place g pie rest.isEmpty).2 }])
          (O.place g pie rest.isEmpty).1 k l' rest' → LineStop O st pie (l :: rest) j new g (k+1) l' rest' := by
        intro k l' rest' ⟨a, b, c⟩
        exact ⟨by simpa using a, by simpa [placeN] using b, by simpa [placeN] using c⟩
      refine ⟨?_, ?_, ?_⟩
      · intro ha hs
        simpa [placeN] using ih1 ha hs
      · intro hs
        obtain ⟨k, l', rest', hst, hnew⟩ := ih2 hs
        exact ⟨k+1, l', rest', shift k l' rest' hst, by simpa [placeN] using hnew⟩
      · intro ha
        obtain ⟨k, l', rest', hst, hp, hor⟩ := ih3 ha
        exact ⟨k+1, l', rest', shift k l' rest' hst, hp, by simpa [placeN] using hor⟩

/-! ### children -/

/-- the attempt to place a child fails exactly when the child is cancelled, or (something being on the page
    already) its content box overflows, or its padding / border overflows and the second layout with the
    bottom space they need is cancelled -/
theorem attempt_abort_iff (O : Oracle γ) (lay : γ → BOut γ) (g : γ) (pie' : Bool) (nb : NextPage) :
    attempt O lay g pie' = .abort nb ↔
      lay g = .abort nb ∨
      (∃ br, lay g = .ok br ∧ O.collThrough br.g = false ∧ pie' = false ∧ O.overC g br.g = true ∧ nb = br.nb) ∨
      (∃ br, lay g = .ok br ∧ O.collThrough br.g = false ∧ pie' = false ∧ O.overC g br.g = false ∧
          O.overB g br.g = true ∧ lay (O.bump g br.g) = .abort nb) := by
  unfold attempt
  cases hl : lay g with
  | abort nbA => simp
  | ok br =>
    dsimp only
    by_cases hct : O.collThrough br.g = true
    · simp [hct]
    · have hct' : O.collThrough br.g = false := by simpa using hct
      simp only [hct', Bool.false_eq_true, if_false]
      cases pie' with
      | true => simp
      | false =>
        simp only [Bool.not_false, Bool.true_and, true_and]
        by_cases hc : O.overC g br.g = true
        · rw [if_pos hc]
          constructor
          · intro h
            simp only [BOut.abort.injEq] at h
            exact Or.inr (Or.inl ⟨br, rfl, hct', hc, h.symm⟩)
          · rintro (h | ⟨br', hbr, _, _, hnb⟩ | ⟨br', hbr, _, hc2, _⟩)
            · simp at h
            · simp only [BOut.ok.injEq] at hbr; subst hbr; rw [hnb]
            · simp only [BOut.ok.injEq] at hbr; subst hbr; rw [hc] at hc2; simp at hc2
        · have hc' : O.overC g br.g = false := by simpa using hc
          rw [if_neg hc]
          by_cases hb : O.overB g br.g = true
          · rw [if_pos hb]
            constructor
            · intro h
              exact Or.inr (Or.inr ⟨br, rfl, hct', hc', hb, h⟩)
            · rintro (h | ⟨br', hbr, _, hc2, _⟩ | ⟨br', hbr, _, _, _, h⟩)
              · simp at h
              · simp only [BOut.ok.injEq] at hbr; subst hbr; rw [hc'] at hc2; simp at hc2
              · simp only [BOut.ok.injEq] at hbr; subst hbr; exact h
          · have hb' : O.overB g br.g = false := by simpa using hb
            rw [if_neg hb]
            constructor
            · intro h; simp at h
            · rintro (h | ⟨br', hbr, _, hc2, _⟩ | ⟨br', hbr, _, _, hb2, _⟩)
              · simp at h
              · simp only [BOut.ok.injEq] at hbr; subst hbr; rw [hc'] at hc2; simp at hc2
              · simp only [BOut.ok.injEq] at hbr; subst hbr; rw [hb'] at hb2; simp at hb2

/-- the child loop stops right before a child (nothing of it placed, nothing placed after it) only at a
    forced break / change of page name, or because the attempt to place the child failed and the break
    before it is not to be avoided -/
theorem stop_before_kid_justified (O : Oracle γ) (c p : Box) (ks : Boxes) (index i0 : Nat) (sub : RS) (g g' : γ)
    (pie : Bool) (nb nb' : NextPage) (hi : ¬ index < i0)
    (h : layKids O (.cons c ks) index i0 sub (some p) g pie nb = .ok .nil (some (.at index .start)) g' none nb') :
    ((between p c).isForce = true ∨ nameStop p c = true) ∨
    ((between p c).isAvoid = false ∧
      ∃ nbA, attempt O (fun g'' => layBox O c (if index = i0 then sub else RS.start) g'' false) g false = .abort nbA) := by
  rw [layKids] at h
  simp only [hi, if_false, pbOf, nsOf, Option.isSome_some, Bool.true_and, Option.isNone_some, Bool.and_false] at h
  by_cases hf : ((between p c).isForce || nameStop p c) = true
  · left; simpa using hf
  · right
    rw [if_neg hf] at h
    cases ha : attempt O (fun g'' => layBox O c (if index = i0 then sub else RS.start) g'' false) g false with
    | abort nbA =>
      rw [ha] at h
      dsimp only at h
      unfold failOut at h
      by_cases hav : (between p c).isAvoid = true
      · simp [hav] at h
      · exact ⟨by simpa using hav, nbA, rfl⟩
    | ok br =>
      rw [ha] at h
      dsimp only at h
      cases hr : br.resume with
      | some r' => rw [hr] at h; simp at h
      | none =>
        rw [hr] at h
        dsimp only at h
        cases hk : layKids O ks (index+1) i0 sub (some c) (O.afterKid g br.g) pie br.nb with
        | abort pg => rw [hk] at h; simp at h
        | ok fs r2 g2 eb nb2 => rw [hk] at h; simp at h
        | need fs fl g2 nbF pgc =>
          rw [hk] at h
          dsimp only at h
          cases he : ebCons index c br.frag br.eb fs none with
          | none => rw [he] at h; simp at h
          | some q =>
            obtain ⟨fs', rs⟩ := q
            rw [he] at h
            simp only [KOut.ok.injEq] at h
            -- a candidate of `ebCons` always keeps a fragment of the child
            exact absurd h.1 (ebCons_ok_nonnil index c br.frag br.eb fs none fs' rs he)

/-! ### avoid is best effort: the earlier-break search -/

mutual
/-- `findEarlierPageBreak` on built fragments (Go searches the children already laid out on the page,
    last child first; the candidate kept is the last possible break) -/
def Frag.findEB : Frag → EB Frag
  | .para st lines => paraEb st lines
  | .block st kids =>
    match kids.findEB with
    | some (fs', rs) => some (.block st fs', rs)
    | none => none
def Frags.findEB : Frags → EB Frags
  | .nil => none
  | .cons i c f fs => ebCons i c f f.findEB fs fs.findEB
end

mutual
/-- a conforming break exists inside the fragment: between two lines of a paragraph leaving `orphans`
    lines before and `widows` after, or (recursively) … -/
def Frag.hasBreak : Frag → Bool
  | .para st lines => decide (st.wid + st.orph ≤ lines.length ∧ 0 < st.wid ∧ st.wid < lines.length)
  | .block _ kids => kids.hasBreak
/-- … between two sibling fragments whose combined break-after / break-before is not `avoid`, or inside a
    fragment whose `break-inside` is not `avoid` -/
def Frags.hasBreak : Frags → Bool
  | .nil => false
  | .cons _ c f fs =>
    fs.hasBreak ||
    (match fs.headIdxSrc with
     | some (_, c2) => !(between c c2).isAvoid
     | none => false) ||
    (!f.st.bi.isAvoid && f.hasBreak)
end

theorem ebCons_isSome (i : Nat) (c : Box) (f : Frag) (fEb : EB Frag) (fs : Frags) (fsEb : EB Frags) :
    (ebCons i c f fEb fs fsEb).isSome =
      (fsEb.isSome ||
       (match fs.headIdxSrc with
        | some (_, c2) => !(between c c2).isAvoid
        | none => false) ||
       (!f.st.bi.isAvoid && fEb.isSome)) := by
  have hin : (ebInside i c f fEb).isSome = (!f.st.bi.isAvoid && fEb.isSome) := by
    unfold ebInside
    by_cases hb : (!f.st.bi.isAvoid) = true
    · rw [if_pos hb, hb]; cases fEb <;> simp
    · rw [if_neg hb]; simp at hb; simp [hb]
  unfold ebCons
  cases fsEb with
  | some q => simp
  | none =>
    simp only [Option.isSome_none, Bool.false_or]
    unfold ebHere
    cases hh : fs.headIdxSrc with
    | none => simp [hin]
    | some q =>
      obtain ⟨i2, c2⟩ := q
      dsimp only
      by_cases hb : (!(between c c2).isAvoid) = true
      · rw [if_pos hb]; simp [hb]
      · rw [if_neg hb, hin]; simp at hb; simp [hb]

mutual
theorem Frag.findEB_isSome : ∀ (f : Frag), f.findEB.isSome = f.hasBreak
  | .para st lines => by
    simp only [Frag.findEB, Frag.hasBreak, paraEb]
    by_cases h : st.wid + st.orph ≤ lines.length ∧ 0 < st.wid ∧ st.wid < lines.length
    · rw [if_pos h]; simp [h]
    · rw [if_neg h]; simp [h]
  | .block st kids => by
    have := Frags.findEB_isSome kids
    simp only [Frag.findEB, Frag.hasBreak]
    rw [← this]
    cases kids.findEB with
    | none => rfl
    | some q => rfl
theorem Frags.findEB_isSome : ∀ (fs : Frags), fs.findEB.isSome = fs.hasBreak
  | .nil => rfl
  | .cons i c f fs => by
    simp only [Frags.findEB, Frags.hasBreak, ebCons_isSome, Frag.findEB_isSome f, Frags.findEB_isSome fs]
end

/-- what the child loop guarantees about its candidate / its `need` -/
def KEb : KOut γ → Prop
  | .abort _ => True
  | .ok fs r _ eb _ => r = none → eb = fs.findEB
  | .need fs _ _ _ _ => fs.findEB = none

theorem finishBlock_eb (O : Oracle γ) (st : St) (gE : γ) (pie : Bool) (fs : Frags) (r : Option RS) (g' : γ)
    (eb : EB Frags) (nb : NextPage) (br : BRes γ) (he : r = none → eb = fs.findEB)
    (h : finishBlock O st gE pie fs r g' eb nb = .ok br) (hres : br.resume = none) : br.eb = br.frag.findEB := by
  unfold finishBlock at h
  split at h
  · simp at h
  · simp only [BOut.ok.injEq] at h
    subst h
    simp only at hres
    simp only [Frag.findEB, he hres]
    cases fs.findEB with
    | none => rfl
    | some q => rfl

mutual
/-- the candidate a complete result carries is `findEarlierPageBreak` on its fragment -/
theorem layBox_eb (O : Oracle γ) : ∀ (b : Box) (s : RS) (g : γ) (pie : Bool) (br : BRes γ),
    layBox O b s g pie = .ok br → br.resume = none → br.eb = br.frag.findEB
  | .para st ls, s, g, pie, br, h, hres => by
    simp only [layBox] at h
    generalize layLines O st pie (ls.drop (lineOf s)) (lineOf s) [] (O.enter st true s.isStart pie g) = r at h
    split at h
    · simp at h
    · split at h
      · simp at h
      · split at h
        · simp only [BOut.ok.injEq] at h; subst h; simp at hres
        · simp only [BOut.ok.injEq] at h; subst h; simp [Frag.findEB]
  | .block st ks, s, g, pie, br, h, hres => by
    have hk := layKids_eb O ks 0 (startIdx s) (startSub s) none (O.enter st false s.isStart pie g) pie {}
    rw [layBox] at h
    cases hr : layKids O ks 0 (startIdx s) (startSub s) none (O.enter st false s.isStart pie g) pie {} with
    | abort pg => rw [hr] at h; simp at h
    | need fs fail g' nbF pgc =>
      rw [hr] at h
      dsimp only at h
      split at h
      · simp at h
      · exact finishBlock_eb O st g pie fs _ g' none nbF br (by simp) h hres
    | ok fs r g' eb nb =>
      rw [hr] at h hk
      exact finishBlock_eb O st g pie fs r g' eb nb br hk h hres
theorem layKids_eb (O : Oracle γ) : ∀ (ks : Boxes) (index i0 : Nat) (sub : RS) (prev : Option Box) (g : γ)
    (pie : Bool) (nb : NextPage), KEb (layKids O ks index i0 sub prev g pie nb)
  | .nil, _, _, _, _, _, _, _ => by simp [layKids, KEb, Frags.findEB]
  | .cons c ks, index, i0, sub, prev, g, pie, nb => by
    unfold layKids
    by_cases hlt : index < i0
    · rw [if_pos hlt]; exact layKids_eb O ks (index+1) i0 sub prev g pie nb
    · rw [if_neg hlt]
      dsimp only
      split
      · simp [KEb]
      · generalize hatt : attempt O (fun g' => layBox O c (if index = i0 then sub else RS.start) g' (pie && prev.isNone)) g
          (pie && prev.isNone) = att
        cases att with
        | abort nbA =>
          dsimp only
          unfold failOut
          split
          · split <;> simp [KEb, Frags.findEB]
          · split <;> simp [KEb]
        | ok br =>
          obtain ⟨g', hg'⟩ := attempt_ok O _ g _ br hatt
          have hbe := layBox_eb O c _ g' _ br hg'
          dsimp only
          cases hres : br.resume with
          | some r' => simp [KEb]
          | none =>
            dsimp only
            have ih := layKids_eb O ks (index+1) i0 sub (some c) (O.afterKid g br.g) pie br.nb
            cases hr : layKids O ks (index+1) i0 sub (some c) (O.afterKid g br.g) pie br.nb with
            | abort pg => trivial
            | ok fs r2 g2 eb nb2 =>
              rw [hr] at ih
              intro hr2
              simp only [Frags.findEB, hbe hres, ih hr2]
            | need fs fl g2 nbF pgc =>
              rw [hr] at ih
              dsimp only
              cases hebc : ebCons index c br.frag br.eb fs none with
              | some q => simp [KEb]
              | none =>
                show Frags.findEB (.cons index c br.frag fs) = none
                simp only [Frags.findEB, ← hbe hres]
                have : fs.findEB = none := ih
                rw [this]; exact hebc
end

end WR.C02
