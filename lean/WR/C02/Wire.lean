/-
  C02 / C12 — wire format (s-expressions) of box trees, styles, pages and verdicts; used by the drivers.
-/
import WR.Base.Sexp
import WR.C02.Geo
import WR.C02.Spec
open WR WR.Sexp WR.C02

namespace WR.C02.Wire

def getBrk : Sexp → Option Brk
  | .atom "auto" => some .auto
  | .atom "avoid" => some .avoid
  | .atom "avoid-page" => some .avoid
  | .atom "page" => some .page
  | .atom "left" => some .left
  | .atom "right" => some .right
  | .atom "recto" => some .recto
  | .atom "verso" => some .verso
  | _ => none

def putBrk : Brk → Sexp
  | .auto => .atom "auto"
  | .avoid => .atom "avoid"
  | .page => .atom "page"
  | .left => .atom "left"
  | .right => .atom "right"
  | .recto => .atom "recto"
  | .verso => .atom "verso"

/-- `(bi bb ba orph wid pg root mT mB pT pB bT bB)` -/
def getSt : Sexp → Option St
  | .list [bi, bb, ba, orph, wid, pg, root, mT, mB, pT, pB, bT, bB] => do
    some { bi := ← getBrk bi, bb := ← getBrk bb, ba := ← getBrk ba, orph := ← orph.asNat?, wid := ← wid.asNat?,
           pg := ← pg.asNat?, root := ← root.asBool?, mT := ← mT.asInt?, mB := ← mB.asInt?, pT := ← pT.asInt?,
           pB := ← pB.asInt?, bT := ← bT.asInt?, bB := ← bB.asInt? }
  | _ => none

/-- `(p st tok…)` | `(b st kid…)`; `fuel` bounds the nesting depth -/
def getBox : Nat → Sexp → Option Box
  | 0, _ => none
  | _+1, .list (.atom "p" :: st :: toks) => do
    some (.para (← getSt st) (← toks.mapM Sexp.asNat?))
  | fuel+1, .list (.atom "b" :: st :: kids) => do
    let ks ← kids.mapM (getBox fuel)
    some (.block (← getSt st) (Boxes.ofList ks))
  | _, _ => none

def ok (xs : List Sexp) : Sexp := .list (.atom "ok" :: xs)

def putRS : RS → Sexp
  | .start => .atom "nil"
  | .at i sub => .list [ofNat i, putRS sub]

def putPage (p : Page) : Sexp :=
  let ls : List Sexp := match p.frag with
    | some f => f.placed.map (fun (t : Nat × Int) => Sexp.list [ofNat t.1, ofInt t.2])
    | none => []
  .list ([.atom "pg", ofNat p.info.index, ofBool p.info.right, ofBool p.info.blank, ofNat p.info.name,
          ofBool p.info.forced] ++ ls)

def getToks : Sexp → Option (List Nat)
  | .list xs => xs.mapM Sexp.asNat?
  | _ => none

def putVerdict : Verdict → Sexp
  | .ok => ok []
  | .lost ts => .list (.atom "lost" :: ts.map ofNat)
  | .dup ts => .list (.atom "dup" :: ts.map ofNat)
  | .reordered => .list [.atom "reordered"]


end WR.C02.Wire
