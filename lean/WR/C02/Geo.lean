/-
  C02 / C12 — the concrete geometry of html/layout/blocks.go for class F as an instance of
  `Oracle`: margins with collapsing (`collapseMargin`, adjoining-margin lists), padding, borders,
  the bottom-space re-layout, the page-overflow test `y > pageBottom − bottomSpace`
  (`overflowsPage`; its `1+1e-9` factor is 1 in float32), margin truncation at unforced breaks,
  the line iterator's own running position and the height clamp (DESIGN.md, Appendix B).

  Lengths are integers in one common unit (the harness uses 1/4 px: every length it generates is a
  multiple of that, and the code only adds, subtracts, compares and takes maxima of them).
-/
import WR.C02.Model
namespace WR.C02

/-- `collapseMargin` -/
def collapse (ms : List Int) : Int :=
  let r := ms.foldl (fun (acc : Int × Int) m =>
    if m > acc.1 then (m, acc.2) else if m < acc.2 then (acc.1, m) else acc) (0, 0)
  r.1 + r.2

/-- the mutable geometry of one box during its layout -/
structure Frame where
  y : Int := 0            -- PositionY (top of the margin box)
  mt : Int := 0
  pt : Int := 0
  bt : Int := 0
  mb : Int := 0
  pb : Int := 0
  bb : Int := 0
  root : Bool := false    -- IsForRootElement
  cwc : Bool := false     -- collapsingWithChildren
  thisAdj : List Int := []
  height : Int := 0
  collThrough : Bool := false
deriving Repr, Inhabited

def Frame.contentY (f : Frame) : Int := f.y + f.mt + f.bt + f.pt
def Frame.borderBoxY (f : Frame) : Int := f.y + f.mt
def Frame.borderHeight (f : Frame) : Int := f.bt + f.pt + f.height + f.pb + f.bb
def Frame.marginHeight (f : Frame) : Int := f.mt + f.borderHeight + f.mb

structure G where
  y : Int                 -- positionY inside the current box
  yIter : Int             -- the line iterator's own running position
  adj : List Int          -- adjoiningMargins
  bs : Int                -- bottomSpace
  cur : Frame             -- the box being laid out
  last : Frame            -- the box whose layout ended most recently
  first : Bool := true    -- no in-flow child of the current box has been placed yet
deriving Repr, Inhabited

/-- per-page constants -/
structure PageCtx where
  pageNo : Nat            -- context.currentPage, 1-based
  top : Int               -- page.ContentBoxY()
  bottom : Int            -- context.pageBottom
  forced : Bool           -- context.forcedBreak
  lineH : Int
deriving Repr, Inhabited

/-- `overflowsPage(bottomSpace, y)` -/
def PageCtx.over (c : PageCtx) (bs y : Int) : Bool := y > c.bottom - bs

def geoEnter (c : PageCtx) (st : St) (isPara isStart pie : Bool) (g : G) : G :=
  -- blockLevelLayout: margins adjoining an unforced break are truncated
  let mt0 : Int := if c.pageNo > 1 && pie && (g.cur.root || !g.adj.isEmpty) && !c.forced then 0 else st.mT
  -- blockContainerLayout: RemoveDecoration(start)
  let f : Frame :=
    if isStart then { y := g.y, mt := mt0, pt := st.pT, bt := st.bT, mb := st.mB, pb := st.pB, bb := st.bB, root := st.root }
    else { y := g.y, mt := 0, pt := 0, bt := 0, mb := st.mB, pb := st.pB, bb := st.bB, root := st.root }
  let adj := g.adj ++ [f.mt]
  let cwc := !(f.bt != 0 || f.pt != 0 || st.root)
  let f := { f with cwc, thisAdj := adj }
  let (f, adj, y) :=
    if cwc then (f, adj, f.y)
    else
      let f := { f with y := f.y + collapse adj - f.mt }
      (f, [], f.contentY)
  if isPara then
    -- lineBoxLayout: the lines start below the collapsed adjoining margins
    let y := y + collapse adj
    { g with y, yIter := y, adj := [], cur := f, first := true }
  else
    { g with y, yIter := y, adj, cur := f, first := true }

def geoLineOver (c : PageCtx) (g : G) (isLast : Bool) : Bool :=
  let newY := g.yIter + c.lineH
  let off := if isLast then g.cur.bb + g.cur.pb else 0
  c.over g.bs (newY + off)

def geoPlace (c : PageCtx) (g : G) (pie _isLast : Bool) : G × Int :=
  let ly := g.yIter
  let newY := ly + c.lineH
  if pie && c.over g.bs newY then
    -- the first line of an empty page overflows: the box's top margin is dropped, the LINE is
    -- moved up, the iterator is not
    ({ g with y := newY - g.cur.mt, yIter := ly + c.lineH, cur := { g.cur with mt := 0 } }, ly - g.cur.mt)
  else
    ({ g with y := newY, yIter := ly + c.lineH }, ly)

def geoExit (c : PageCtx) (_st : St) (gEntry : G) (fragmented hasInFlow : Bool) (g : G) : G :=
  let f := g.cur
  let f := if f.cwc then { f with y := f.y + collapse f.thisAdj - f.mt } else f
  let (y, adj, ct) :=
    if !hasInFlow then
      if f.bt == 0 && f.pt == 0 && f.bb == 0 && f.pb == 0 then (g.y, g.adj, true)
      else (g.y + collapse g.adj, [], false)
    else (g.y, g.adj, false)
  let (y, adj) := if f.bb != 0 || f.pb != 0 || f.root then (y + collapse adj, []) else (y, adj)
  -- RemoveDecoration(end)
  let f := if fragmented then { f with mb := 0, pb := 0, bb := 0 } else f
  let h := y - f.contentY
  let h := if !fragmented && h < 0 then 0 else h         -- max(min(h, max-height), min-height)
  let f := { f with height := h }
  let h :=
    if fragmented then
      let nh := c.bottom - gEntry.bs - f.y - (f.marginHeight - h)
      if nh > h then nh else h
    else h
  let f := { f with height := h, collThrough := ct }
  { y, yIter := y, adj, bs := gEntry.bs, cur := gEntry.cur, last := f, first := gEntry.first }

/-- the oracle of one page -/
def geo (c : PageCtx) : Oracle G where
  enter := geoEnter c
  lineOver := geoLineOver c
  place := geoPlace c
  linesDone := fun stopped g => if stopped then { g with adj := [] } else g
  collThrough := fun gc => gc.last.collThrough
  overC := fun g gc => c.over g.bs (gc.last.contentY + gc.last.height)
  overB := fun g gc => c.over g.bs (gc.last.borderBoxY + gc.last.borderHeight)
  -- the second layout starts from the PositionY the first layout left on the (shared) source box
  bump := fun g gc => { g with bs := g.bs + gc.last.pb + gc.last.bb, y := gc.last.y, yIter := gc.last.y }
  afterKid := fun g gc =>
    let y := if gc.last.collThrough then g.y else gc.last.borderBoxY + gc.last.borderHeight
    -- `thisBoxAdjoiningMargins` is a pointer to the slice the first child appends its own top margins to
    let cur := if g.first && g.cur.cwc then { g.cur with thisAdj := gc.last.thisAdj } else g.cur
    { g with y, yIter := y, adj := gc.adj ++ [gc.last.mb], cur, first := false }
  kidsDone := fun stopped g => if stopped then { g with adj := [] } else g
  exit := geoExit c

/-- initial state of a page: the root box is put at the top of the page's content box -/
def geoInit (c : PageCtx) : G :=
  { y := c.top, yIter := c.top, adj := [], bs := 0, cur := {}, last := {} }

/-- oracle and initial state of a page from its type; `dims` = (content-box top, content-box height)
    selected by the @page rules for that page type -/
def geoPages (lineH : Int) (dims : PageInfo → Int × Int) (info : PageInfo) : Oracle G × G :=
  let d := dims info
  let c : PageCtx := { pageNo := info.index + 1, top := d.1, bottom := d.1 + d.2, forced := info.forced, lineH }
  (geo c, geoInit c)

end WR.C02
