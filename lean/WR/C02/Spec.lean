/-
  C02 — specification side: the text (leaf sequence) of a box tree, of the part of a box tree that
  lies after a resume position, of a laid-out fragment, and the conservation judges.
  Written from the property text: "every character … is laid out exactly once: breaking content into
  lines and pages never loses, duplicates or reorders it within a flow".
-/
import WR.C02.Model
namespace WR.C02

mutual
/-- the lines (tokens) of a box in document order -/
def Box.leaves : Box → List Nat
  | .para _ ls => ls
  | .block _ ks => ks.leaves
def Boxes.leaves : Boxes → List Nat
  | .nil => []
  | .cons b bs => b.leaves ++ bs.leaves
end

mutual
/-- leaves of `b` from resume position `s` to the end -/
def Box.from : Box → RS → List Nat
  | .para _ ls, s => ls.drop (lineOf s)
  | .block _ ks, .start => ks.leaves
  | .block _ ks, .at i sub => ks.fromAt i sub
def Boxes.fromAt : Boxes → Nat → RS → List Nat
  | .nil, _, _ => []
  | .cons b bs, 0, sub => b.from sub ++ bs.leaves
  | .cons _ bs, i+1, sub => bs.fromAt i sub
end

/-- `none` = finished -/
def fromOpt (b : Box) : Option RS → List Nat
  | none => []
  | some s => b.from s

mutual
/-- the lines (tokens) of a laid-out fragment in order -/
def Frag.leaves : Frag → List Nat
  | .para _ ls => ls.map (·.tok)
  | .block _ ks => ks.leaves
def Frags.leaves : Frags → List Nat
  | .nil => []
  | .cons _ _ f fs => f.leaves ++ fs.leaves
end

mutual
/-- the placed lines of a fragment with their positions -/
def Frag.placed : Frag → List (Nat × Int)
  | .para _ ls => ls.map (fun l => (l.tok, l.pos))
  | .block _ ks => ks.placed
def Frags.placed : Frags → List (Nat × Int)
  | .nil => []
  | .cons _ _ f fs => f.placed ++ fs.placed
end

def Page.leaves (p : Page) : List Nat :=
  match p.frag with
  | some f => f.leaves
  | none => []

/-- text of all pages, in page order -/
def pagesLeaves (ps : List Page) : List Nat := (ps.map Page.leaves).flatten

/-! ### judges (decidable statements evaluated on implementation output) -/

/-- fragment conservation for one (resume-in, fragment, resume-out) triple -/
def fragmentOK (b : Box) (sIn : RS) (fragLeaves : List Nat) (sOut : Option RS) : Bool :=
  fragLeaves ++ fromOpt b sOut == b.from sIn

/-- the C02 statement for one flow: the pages' token sequences, concatenated, are the document's
    token sequence — nothing lost, duplicated or reordered -/
def conserves (doc : List Nat) (pages : List (List Nat)) : Bool :=
  pages.flatten == doc

/-- diagnosis for the judge: tokens lost, tokens duplicated, or (same multiset) reordered -/
inductive Verdict | ok | lost (toks : List Nat) | dup (toks : List Nat) | reordered
  deriving Repr, DecidableEq

def judgeFlow (doc : List Nat) (pages : List (List Nat)) : Verdict :=
  let got := pages.flatten
  if got == doc then .ok
  else
    let lost := doc.filter (fun t => !got.contains t)
    let dup := (got.filter (fun t => got.count t > doc.count t)).eraseDups
    if !lost.isEmpty then .lost lost
    else if !dup.isEmpty then .dup dup
    else .reordered

end WR.C02
