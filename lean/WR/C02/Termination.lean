/-
  C02 / C01 — progress of the page loop: on an empty page a well-formed box resumed at a proper position
  places at least one line and returns a proper position (for every oracle), hence `pagesLoop` ends
  within 2·#lines+1 pages.
-/
import WR.C02.Lemmas
import WR.C02.Progress
namespace WR.C02

variable {γ : Type}

def Boxes.isNil : Boxes → Bool
  | .nil => true
  | _ => false

mutual
/-- class F proper: every paragraph has a line, every block a child, orphans ≥ 1 -/
def Box.wf : Box → Bool
  | .para st ls => decide (1 ≤ st.orph) && !ls.isEmpty
  | .block _ ks => !ks.isNil && ks.wf
def Boxes.wf : Boxes → Bool
  | .nil => true
  | .cons b bs => b.wf && bs.wf
end

mutual
/-- the resume position addresses an existing line -/
def proper : Box → RS → Bool
  | .para _ ls, s => decide (lineOf s < ls.length)
  | .block _ _, .start => true
  | .block _ ks, .at i sub => ks.properAt i sub
def Boxes.properAt : Boxes → Nat → RS → Bool
  | .nil, _, _ => false
  | .cons b _, 0, sub => proper b sub
  | .cons _ bs, i+1, sub => bs.properAt i sub
end

theorem proper_start (b : Box) (h : b.wf = true) : proper b .start = true := by
  cases b with
  | para st ls =>
    simp only [Box.wf, Bool.and_eq_true, decide_eq_true_eq, Bool.not_eq_true'] at h
    cases ls with
    | nil => simp at h
    | cons l ls => simp [proper, lineOf]
  | block st ks => simp [proper]

mutual
theorem Box.leaves_ne (b : Box) (h : b.wf = true) : b.leaves ≠ [] := by
  cases b with
  | para st ls =>
    simp only [Box.wf, Bool.and_eq_true, decide_eq_true_eq, Bool.not_eq_true'] at h
    cases ls with
    | nil => simp at h
    | cons l ls => simp [Box.leaves]
  | block st ks =>
    simp only [Box.wf, Bool.and_eq_true, Bool.not_eq_true'] at h
    cases ks with
    | nil => simp [Boxes.isNil] at h
    | cons c ks =>
      simp only [Boxes.wf, Bool.and_eq_true] at h
      have := Box.leaves_ne c h.2.1
      simp [Box.leaves, Boxes.leaves, this]
end

mutual
theorem from_ne : ∀ (b : Box) (s : RS), b.wf = true → proper b s = true → b.from s ≠ []
  | .para st ls, s, _, hp => by
    simp only [proper, decide_eq_true_eq] at hp
    simp only [Box.from]
    intro h
    have := congrArg List.length h
    simp at this
    omega
  | .block st ks, .start, hw, _ => by
    have := Box.leaves_ne (.block st ks) hw
    simpa [Box.from, Box.leaves] using this
  | .block st ks, .at i sub, hw, hp => by
    simp only [Box.wf, Bool.and_eq_true] at hw
    simp only [proper] at hp
    simpa [Box.from] using fromAt_ne ks i sub hw.2 hp
theorem fromAt_ne : ∀ (ks : Boxes) (i : Nat) (sub : RS), ks.wf = true → ks.properAt i sub = true → ks.fromAt i sub ≠ []
  | .nil, _, _, _, hp => by simp [Boxes.properAt] at hp
  | .cons c ks, 0, sub, hw, hp => by
    simp only [Boxes.wf, Bool.and_eq_true] at hw
    simp only [Boxes.properAt] at hp
    have := from_ne c sub hw.1 hp
    simp [Boxes.fromAt, this]
  | .cons c ks, i+1, sub, hw, hp => by
    simp only [Boxes.wf, Bool.and_eq_true] at hw
    simp only [Boxes.properAt] at hp
    simpa [Boxes.fromAt] using fromAt_ne ks i sub hw.2 hp
end

/-! ### lines -/

/-- when the line loop stops (and does not abort) at least one line has been placed, given orphans ≥ 1 -/
theorem layLines_stop_pos (O : Oracle γ) (st : St) (pie : Bool) (ho : 1 ≤ st.orph) :
    ∀ (rest : List Nat) (j : Nat) (new : List FLine) (g : γ),
      (pie = true → new = [] → True) →
      (layLines O st pie rest j new g).abort = false → (layLines O st pie rest j new g).stop = true →
      1 ≤ (layLines O st pie rest j new g).new.length
  | [], _, _, _, _, _, hs => by simp [layLines] at hs
  | l :: rest, j, new, g, _, hab, hs => by
    unfold layLines at hab hs ⊢
    dsimp only at hab hs ⊢
    by_cases hov : ((!new.isEmpty || !pie) && O.lineOver g rest.isEmpty) = true
    · rw [if_pos hov] at hab hs ⊢
      have hne : pie = true → new ≠ [] := by
        intro hp hn
        simp [hp, hn] at hov
      by_cases h1 : (decide (new.length < st.orph) && !pie) = true
      · rw [if_pos h1] at hab; simp at hab
      · rw [if_neg h1] at hab hs ⊢
        by_cases h2 : (decide (new.length < (st.wid - 1) - min (st.wid - 1) rest.length + st.orph) && !pie) = true
        · rw [if_pos h2] at hab; simp at hab
        · rw [if_neg h2]
          dsimp only
          have hlen : 1 ≤ new.length := by
            cases hp : pie with
            | true =>
              have := hne hp
              cases new with
              | nil => exact absurd rfl this
              | cons _ _ => simp
            | false =>
              simp only [hp, Bool.not_false, Bool.and_true, decide_eq_true_eq] at h1
              omega
          split
          · rename_i h3
            rw [List.length_take]
            omega
          · exact hlen
    · rw [if_neg hov] at hab hs ⊢
      exact layLines_stop_pos O st pie ho rest (j+1) _ _ (fun _ _ => trivial) hab hs

/-- what `layBox … = ok br` gives besides conservation: returned positions are proper, earlier-break
    candidates are proper and not empty -/
def BProp (b : Box) (br : BRes γ) : Prop :=
  (∀ r, br.resume = some r → proper b r = true) ∧
  (br.resume = none → ∀ f' r', br.eb = some (f', r') → proper b r' = true ∧ f'.leaves ≠ [])

theorem para_prop (O : Oracle γ) (st : St) (ls : List Nat) (s : RS) (g : γ) (pie : Bool) (br : BRes γ)
    (hw : (Box.para st ls).wf = true) (h : layBox O (.para st ls) s g pie = .ok br) :
    BProp (.para st ls) br ∧ (pie = true → proper (.para st ls) s = true → br.frag.leaves ≠ []) := by
  simp only [Box.wf, Bool.and_eq_true, decide_eq_true_eq] at hw
  have ho := hw.1
  simp only [layBox] at h
  have spec := layLines_spec O st pie (ls.drop (lineOf s)) (lineOf s) [] (O.enter st true s.isStart pie g)
    (tagFrom (ls.drop (lineOf s)) (lineOf s)) (by simp [tagOf])
  have pos := layLines_stop_pos O st pie ho (ls.drop (lineOf s)) (lineOf s) [] (O.enter st true s.isStart pie g)
    (fun _ _ => trivial)
  generalize hr : layLines O st pie (ls.drop (lineOf s)) (lineOf s) [] (O.enter st true s.isStart pie g) = r at h spec pos
  by_cases hab : r.abort = true
  · simp [hab] at h
  · have hab' : r.abort = false := by simpa using hab
    obtain ⟨hns, hst⟩ := spec hab'
    by_cases hstop : r.stop = true
    · obtain ⟨k, hk, hnew⟩ := hst hstop
      have hpos := pos hab' hstop
      simp only [hab', hstop, Bool.false_eq_true, if_false, Bool.true_and, if_true] at h
      split at h
      · simp at h
      · simp only [BOut.ok.injEq] at h
        subst h
        rw [tagFrom_length] at hk
        have hk1 : 1 ≤ k := by
          have := congrArg List.length hnew
          rw [tagOf_length, List.length_take, tagFrom_length] at this
          omega
        refine ⟨⟨?_, by simp⟩, fun _ _ => ?_⟩
        · intro r' hr'
          simp only [Option.some.injEq] at hr'
          subst hr'
          simp only [proper, decide_eq_true_eq, lastResume_tag, hnew]
          rw [lineOf_lastResume_take ls (lineOf s) k _ (by intro h0; omega) hk]
          simp at hk; omega
        · simp only [Frag.leaves]
          intro hnil
          rw [List.map_eq_nil_iff] at hnil
          simp [hnil] at hpos
    · have hstop' : r.stop = false := by simpa using hstop
      have hnew := hns hstop'
      simp only [hab', hstop', Bool.false_eq_true, if_false, Bool.false_and, BOut.ok.injEq] at h
      subst h
      have hl : r.new.length = (ls.drop (lineOf s)).length := by
        rw [← tagOf_length, hnew, tagFrom_length]
      have hd : (ls.drop (lineOf s)).length = ls.length - lineOf s := List.length_drop
      refine ⟨⟨by simp, ?_⟩, fun _ hp => ?_⟩
      · intro _ f' r' heb
        simp only [paraEb] at heb
        split at heb
        · rename_i hc
          simp only [Option.some.injEq, Prod.mk.injEq] at heb
          obtain ⟨rfl, rfl⟩ := heb
          refine ⟨?_, ?_⟩
          · simp only [proper, decide_eq_true_eq, lastResume_tag, tagOf_take, hnew, hl]
            rw [lineOf_lastResume_take ls (lineOf s) _ _ (by intro h0; omega) (by omega)]
            omega
          · simp only [Frag.leaves]
            intro hnil
            rw [List.map_eq_nil_iff, List.take_eq_nil_iff] at hnil
            rcases hnil with h0 | h0
            · omega
            · simp [h0] at hc
        · simp at heb
      · simp only [proper, decide_eq_true_eq] at hp
        simp only [Frag.leaves]
        intro hnil
        rw [List.map_eq_nil_iff] at hnil
        rw [hnil] at hl
        simp at hl
        omega

/-! ### blocks: returned positions are proper -/

/-- a resume position produced at absolute kid index ≥ `index` addresses an existing line of `ks` -/
def PR (ks : Boxes) (index : Nat) : Option RS → Prop
  | none => True
  | some .start => False
  | some (.at i s) => index ≤ i ∧ ks.properAt (i - index) s = true

theorem PR_cons (c : Box) (ks : Boxes) (index : Nat) (r : Option RS) (h : PR ks (index+1) r) :
    PR (.cons c ks) index r := by
  match r, h with
  | none, _ => trivial
  | some (.at i s), ⟨h1, h2⟩ =>
    have : i - index = (i - (index+1)) + 1 := by omega
    exact ⟨by omega, by rw [this, Boxes.properAt]; exact h2⟩

theorem PR_here (c : Box) (ks : Boxes) (index : Nat) (r : RS) (h : proper c r = true) :
    PR (.cons c ks) index (some (.at index r)) := by
  refine ⟨Nat.le_refl _, ?_⟩
  rw [Nat.sub_self, Boxes.properAt]; exact h

def KProp (ks : Boxes) (index : Nat) : KOut γ → Prop
  | .abort _ => True
  | .ok fs r _ eb _ =>
    PR ks index r ∧ (∀ i c2, fs.headIdxSrc = some (i, c2) → PR ks index (some (.at i .start))) ∧
    (r = none → ∀ fs' rs, eb = some (fs', rs) → PR ks index (some rs) ∧ fs'.leaves ≠ [])
  | .need fs fl _ _ _ =>
    PR ks index (some (.at fl .start)) ∧ (∀ i c2, fs.headIdxSrc = some (i, c2) → PR ks index (some (.at i .start)))

/-- the candidate built by `ebCons` is proper and not empty -/
theorem ebCons_prop (c : Box) (ks : Boxes) (index : Nat) (br : BRes γ) (fs : Frags) (fsEb : EB Frags)
    (hcf : br.frag.leaves ≠ []) (hres : br.resume = none) (hbp : BProp c br)
    (hhead : ∀ i c2, fs.headIdxSrc = some (i, c2) → PR ks (index+1) (some (.at i .start)))
    (hEb : ∀ fs' rs, fsEb = some (fs', rs) → PR ks (index+1) (some rs))
    (fs' : Frags) (rs : RS) (h : ebCons index c br.frag br.eb fs fsEb = some (fs', rs)) :
    PR (.cons c ks) index (some rs) ∧ fs'.leaves ≠ [] := by
  have inside_ok : ∀ fs' rs, ebInside index c br.frag br.eb = some (fs', rs) →
      PR (.cons c ks) index (some rs) ∧ fs'.leaves ≠ [] := by
    intro fs' rs hin
    unfold ebInside at hin
    by_cases hbi : (!br.frag.st.bi.isAvoid) = true
    · rw [if_pos hbi] at hin
      cases heb : br.eb with
      | none => rw [heb] at hin; simp at hin
      | some p =>
        obtain ⟨cf', r⟩ := p
        rw [heb] at hin
        simp only [Option.some.injEq, Prod.mk.injEq] at hin
        obtain ⟨rfl, rfl⟩ := hin
        obtain ⟨h1, h2⟩ := hbp.2 hres cf' r heb
        exact ⟨PR_here c ks index r h1, by simp [Frags.leaves, h2]⟩
    · rw [if_neg hbi] at hin; simp at hin
  have here_ok : ∀ fs' rs, ebHere index c br.frag br.eb fs = some (fs', rs) →
      PR (.cons c ks) index (some rs) ∧ fs'.leaves ≠ [] := by
    intro fs' rs hh
    unfold ebHere at hh
    cases hhd : fs.headIdxSrc with
    | none => rw [hhd] at hh; exact inside_ok fs' rs hh
    | some p =>
      obtain ⟨i2, c2⟩ := p
      rw [hhd] at hh
      dsimp only at hh
      by_cases hbt : (!(between c c2).isAvoid) = true
      · rw [if_pos hbt] at hh
        simp only [Option.some.injEq, Prod.mk.injEq] at hh
        obtain ⟨rfl, rfl⟩ := hh
        exact ⟨PR_cons c ks index _ (hhead i2 c2 hhd), by simp [Frags.leaves, hcf]⟩
      · rw [if_neg hbt] at hh
        exact inside_ok fs' rs hh
  unfold ebCons at h
  cases hfe : fsEb with
  | none => rw [hfe] at h; exact here_ok fs' rs h
  | some p =>
    obtain ⟨fs2, rs2⟩ := p
    rw [hfe] at h
    simp only [Option.some.injEq, Prod.mk.injEq] at h
    obtain ⟨rfl, rfl⟩ := h
    exact ⟨PR_cons c ks index _ (hEb fs2 rs2 hfe), by simp [Frags.leaves, hcf]⟩

theorem KProp_fail (c : Box) (ks : Boxes) (index : Nat) (prev : Option Box) (g : γ) (pb : Brk)
    (pgc : Nat) (nbF : NextPage) (hc : c.wf = true) :
    KProp (γ := γ) (.cons c ks) index (failOut pb prev index g pgc nbF) := by
  have hs : PR (.cons c ks) index (some (.at index .start)) := PR_here c ks index .start (proper_start c hc)
  unfold failOut
  by_cases hpb : pb.isAvoid = true <;> cases prev <;> simp [hpb, KProp, hs, Frags.headIdxSrc]

theorem finishBlock_prop (O : Oracle γ) (st : St) (ks : Boxes) (gE : γ) (pie : Bool)
    (fs : Frags) (r : Option RS) (g' : γ) (eb : EB Frags) (nb : NextPage) (br : BRes γ)
    (h2 : PR ks 0 r)
    (h4 : r = none → ∀ fs' rs, eb = some (fs', rs) → PR ks 0 (some rs) ∧ fs'.leaves ≠ [])
    (h : finishBlock O st gE pie fs r g' eb nb = .ok br) : BProp (.block st ks) br ∧ br.frag.leaves = fs.leaves := by
  have conv : ∀ rs, PR ks 0 (some rs) → proper (.block st ks) rs = true := by
    intro rs hp
    match rs, hp with
    | .at i s, ⟨_, hp⟩ => simpa [proper] using hp
  unfold finishBlock at h
  split at h
  · simp at h
  · simp only [BOut.ok.injEq] at h
    subst h
    refine ⟨⟨?_, ?_⟩, by simp [Frag.leaves]⟩
    · intro r' hr'
      simp only at hr'
      subst hr'
      exact conv r' h2
    · intro hres f' r' heb
      simp only at hres heb
      cases hebv : eb with
      | none => rw [hebv] at heb; simp at heb
      | some p =>
        obtain ⟨fs', rs⟩ := p
        rw [hebv] at heb
        simp only [Option.some.injEq, Prod.mk.injEq] at heb
        obtain ⟨rfl, rfl⟩ := heb
        obtain ⟨h5, h6⟩ := h4 hres fs' rs hebv
        exact ⟨conv rs h5, by simpa [Frag.leaves] using h6⟩

mutual
theorem layBox_prop (O : Oracle γ) : ∀ (b : Box) (s : RS) (g : γ) (pie : Bool) (br : BRes γ),
    b.wf = true → proper b s = true → layBox O b s g pie = .ok br → BProp b br
  | .para st ls, s, g, pie, br, hw, _, h => (para_prop O st ls s g pie br hw h).1
  | .block st ks, s, g, pie, br, hw, hp, h => by
    have hw' : ks.wf = true := by simp only [Box.wf, Bool.and_eq_true] at hw; exact hw.2
    have hpos : 0 ≤ startIdx s → s ≠ .start → ks.properAt (startIdx s - 0) (startSub s) = true := by
      intro _ hs
      cases s with
      | start => exact absurd rfl hs
      | «at» i sub => simpa [proper, startIdx, startSub] using hp
    have hk := layKids_prop O ks 0 (startIdx s) (startSub s) none (O.enter st false s.isStart pie g) pie {} hw'
      (by
        cases s with
        | start => exact Or.inl ⟨rfl, rfl⟩
        | «at» i sub => exact Or.inr (by simpa [proper, startIdx, startSub] using hp))
      (by simp)
    rw [layBox] at h
    cases hr : layKids O ks 0 (startIdx s) (startSub s) none (O.enter st false s.isStart pie g) pie {} with
    | abort pg => rw [hr] at h; simp at h
    | need fs fail g' nbF pgc =>
      rw [hr] at h hk
      by_cases hpie : pie = true
      · simp only [hpie, Bool.not_true, Bool.false_eq_true, if_false] at h
        exact (finishBlock_prop O st ks g true fs _ g' none nbF br hk.1 (by simp) h).1
      · simp [hpie] at h
    | ok fs r g' eb nb =>
      rw [hr] at h hk
      exact (finishBlock_prop O st ks g pie fs r g' eb nb br hk.1 hk.2.2 h).1
/-- `(i0, sub)` is the start (`i0 = 0`, `sub = start`) or addresses an existing line at or after the head -/
theorem layKids_prop (O : Oracle γ) : ∀ (ks : Boxes) (index i0 : Nat) (sub : RS) (prev : Option Box) (g : γ)
    (pie : Bool) (nb : NextPage), ks.wf = true →
    ((i0 = 0 ∧ sub = .start) ∨ (index ≤ i0 → ks.properAt (i0 - index) sub = true)) →
    (prev.isSome → i0 < index) → KProp ks index (layKids O ks index i0 sub prev g pie nb)
  | .nil, index, i0, sub, prev, g, pie, nb, _, _, _ => by
    simp [layKids, KProp, PR, Frags.headIdxSrc]
  | .cons c ks, index, i0, sub, prev, g, pie, nb, hw, hpos, hprev => by
    simp only [Boxes.wf, Bool.and_eq_true] at hw
    obtain ⟨hwc, hwk⟩ := hw
    unfold layKids
    by_cases hlt : index < i0
    · rw [if_pos hlt]
      have ih := layKids_prop O ks (index+1) i0 sub prev g pie nb hwk
        (by
          rcases hpos with ⟨h0, _⟩ | hpos
          · omega
          · right
            intro hle
            have := hpos (by omega)
            have e : i0 - index = (i0 - (index+1)) + 1 := by omega
            rw [e, Boxes.properAt] at this
            exact this)
        (fun hp => by have := hprev hp; omega)
      cases hr : layKids O ks (index+1) i0 sub prev g pie nb with
      | abort pg => trivial
      | need fs fl g' nbF pgc =>
        rw [hr] at ih
        exact ⟨PR_cons c ks index _ ih.1, fun i c2 hh => PR_cons c ks index _ (ih.2 i c2 hh)⟩
      | ok fs r g' eb nb' =>
        rw [hr] at ih
        obtain ⟨h1, h2, h3⟩ := ih
        refine ⟨PR_cons c ks index _ h1, fun i c2 hh => PR_cons c ks index _ (h2 i c2 hh), ?_⟩
        intro hres fs' rs hebv
        obtain ⟨h5, h6⟩ := h3 hres fs' rs hebv
        exact ⟨PR_cons c ks index _ h5, h6⟩
    · rw [if_neg hlt]
      have hstart : PR (.cons c ks) index (some (.at index .start)) := PR_here c ks index .start (proper_start c hwc)
      -- the position the child is laid out from is proper
      have hskip : proper c (if index = i0 then sub else RS.start) = true := by
        by_cases he : index = i0
        · rw [if_pos he]
          rcases hpos with ⟨h0, hs⟩ | hpos
          · rw [hs]; exact proper_start c hwc
          · have := hpos (by omega)
            rw [he, Nat.sub_self, Boxes.properAt] at this
            exact this
        · rw [if_neg he]; exact proper_start c hwc
      generalize hpb : pbOf prev c = pb
      by_cases hforce : (prev.isSome && (pb.isForce || nsOf prev c)) = true
      · simp only [hforce, if_true]
        exact ⟨hstart, by simp [Frags.headIdxSrc], by simp⟩
      · simp only [hforce, Bool.false_eq_true, if_false]
        generalize hatt : attempt O (fun g' => layBox O c (if index = i0 then sub else RS.start) g' (pie && prev.isNone)) g
          (pie && prev.isNone) = att
        cases hb : att with
        | abort nbA => exact KProp_fail c ks index prev g pb c.pgStart nbA hwc
        | ok br =>
          rw [hb] at hatt
          obtain ⟨g', hg'⟩ := attempt_ok O _ g _ br hatt
          have hbp := layBox_prop O c _ g' _ br hwc hskip hg'
          have hgood := layBox_good O c _ g' _ br hg'
          dsimp only
          cases hres : br.resume with
          | some r' =>
            dsimp only
            exact ⟨PR_here c ks index r' (hbp.1 r' hres), fun i c2 hh => by
              simp only [Frags.headIdxSrc, Option.some.injEq, Prod.mk.injEq] at hh
              rw [← hh.1]; exact hstart, by simp⟩
          | none =>
            dsimp only
            have hcf : br.frag.leaves ≠ [] := by
              have := hgood.1
              rw [hres] at this
              simp only [fromOpt, List.append_nil] at this
              rw [this]
              exact from_ne c _ hwc hskip
            have ih := layKids_prop O ks (index+1) i0 sub (some c) (O.afterKid g br.g) pie br.nb hwk
              (Or.inr (fun hle => by omega)) (fun _ => by omega)
            have hhead : ∀ (f : Frags) i c2, (Frags.cons index c br.frag f).headIdxSrc = some (i, c2) →
                PR (.cons c ks) index (some (.at i .start)) := by
              intro f i c2 hh
              simp only [Frags.headIdxSrc, Option.some.injEq, Prod.mk.injEq] at hh
              rw [← hh.1]; exact hstart
            cases hr : layKids O ks (index+1) i0 sub (some c) (O.afterKid g br.g) pie br.nb with
            | abort pg => trivial
            | ok fs r2 g2 eb nb2 =>
              rw [hr] at ih
              obtain ⟨h1, h2, h3⟩ := ih
              dsimp only
              refine ⟨PR_cons c ks index _ h1, hhead fs, ?_⟩
              intro hr2 fs' rs hebv
              exact ebCons_prop c ks index br fs eb hcf hres hbp h2
                (fun fs' rs he => (h3 hr2 fs' rs he).1) fs' rs hebv
            | need fs fl g2 nbF pgc =>
              rw [hr] at ih
              obtain ⟨h1, h2⟩ := ih
              dsimp only
              cases hebc : ebCons index c br.frag br.eb fs none with
              | some p =>
                obtain ⟨fs', rs⟩ := p
                dsimp only
                have := ebCons_prop c ks index br fs none hcf hres hbp h2 (fun fs' rs he => by simp at he) fs' rs hebc
                refine ⟨this.1, ?_, by simp⟩
                intro i c2 hh
                have := ebCons_head index c br.frag br.eb fs none fs' rs hebc i c2 hh
                rw [this]; exact hstart
              | none =>
                dsimp only
                exact ⟨PR_cons c ks index _ h1, hhead fs⟩
end

/-! ### progress on an empty page -/

def KProg : KOut γ → Prop
  | .abort _ => True
  | .ok fs _ _ _ _ => fs.leaves ≠ []
  | .need fs _ _ _ _ => fs.leaves ≠ []

mutual
theorem layBox_prog (O : Oracle γ) : ∀ (b : Box) (s : RS) (g : γ) (br : BRes γ),
    b.wf = true → proper b s = true → layBox O b s g true = .ok br → br.frag.leaves ≠ []
  | .para st ls, s, g, br, hw, hp, h => (para_prop O st ls s g true br hw h).2 rfl hp
  | .block st ks, s, g, br, hw, hp, h => by
    simp only [Box.wf, Bool.and_eq_true, Bool.not_eq_true'] at hw
    have hpos : ks.properAt (startIdx s - 0) (startSub s) = true := by
      cases s with
      | start =>
        cases ks with
        | nil => simp [Boxes.isNil] at hw
        | cons c ks =>
          simp only [Boxes.wf, Bool.and_eq_true] at hw
          simpa [startIdx, startSub, Boxes.properAt] using proper_start c hw.2.1
      | «at» i sub => simpa [proper, startIdx, startSub] using hp
    have hk := layKids_prog O ks 0 (startIdx s) (startSub s) (O.enter st false s.isStart true g) {} hw.2
      (Nat.zero_le _) hpos
    have hkp := layKids_prop O ks 0 (startIdx s) (startSub s) none (O.enter st false s.isStart true g) true {} hw.2
      (Or.inr (fun _ => hpos)) (by simp)
    rw [layBox] at h
    cases hr : layKids O ks 0 (startIdx s) (startSub s) none (O.enter st false s.isStart true g) true {} with
    | abort pg => rw [hr] at h; simp at h
    | need fs fail g' nbF pgc =>
      rw [hr] at h hk hkp
      simp only [Bool.not_true, Bool.false_eq_true, if_false] at h
      rw [(finishBlock_prop O st ks g true fs _ g' none nbF br hkp.1 (by simp) h).2]
      exact hk
    | ok fs r g' eb nb =>
      rw [hr] at h hk hkp
      rw [(finishBlock_prop O st ks g true fs r g' eb nb br hkp.1 hkp.2.2 h).2]
      exact hk
theorem layKids_prog (O : Oracle γ) : ∀ (ks : Boxes) (index i0 : Nat) (sub : RS) (g : γ) (nb : NextPage),
    ks.wf = true → index ≤ i0 → ks.properAt (i0 - index) sub = true →
    KProg (layKids O ks index i0 sub none g true nb)
  | .nil, _, _, _, _, _, _, _, hp => by simp [Boxes.properAt] at hp
  | .cons c ks, index, i0, sub, g, nb, hw, hle, hp => by
    simp only [Boxes.wf, Bool.and_eq_true] at hw
    obtain ⟨hwc, hwk⟩ := hw
    unfold layKids
    by_cases hlt : index < i0
    · rw [if_pos hlt]
      have e : i0 - index = (i0 - (index+1)) + 1 := by omega
      rw [e, Boxes.properAt] at hp
      exact layKids_prog O ks (index+1) i0 sub g nb hwk (by omega) hp
    · rw [if_neg hlt]
      have he : index = i0 := by omega
      subst he
      rw [Nat.sub_self, Boxes.properAt] at hp
      simp only [Option.isSome_none, Bool.false_and, Bool.false_eq_true, if_false, if_true, Option.isNone_none,
        Bool.and_true]
      generalize hatt : attempt O (fun g' => layBox O c sub g' true) g true = att
      cases hb : att with
      | abort nbA => simp [failOut, pbOf, Brk.isAvoid, KProg]
      | ok br =>
        rw [hb] at hatt
        obtain ⟨g', hg'⟩ := attempt_ok O _ g _ br hatt
        have hne := layBox_prog O c sub g' br hwc hp hg'
        have hbp := layBox_prop O c sub g' true br hwc hp hg'
        dsimp only
        cases hres : br.resume with
        | some r' => simp [KProg, Frags.leaves, hne]
        | none =>
          dsimp only
          have ihp := layKids_prop O ks (index+1) index sub (some c) (O.afterKid g br.g) true br.nb hwk
            (Or.inr (fun hle => by omega)) (fun _ => by omega)
          cases hr : layKids O ks (index+1) index sub (some c) (O.afterKid g br.g) true br.nb with
          | abort pg => trivial
          | ok fs r2 g2 eb nb2 => simp [KProg, Frags.leaves, hne]
          | need fs fl g2 nbF pgc =>
            rw [hr] at ihp
            dsimp only
            cases hebc : ebCons index c br.frag br.eb fs none with
            | some p =>
              obtain ⟨fs', rs⟩ := p
              dsimp only
              exact (ebCons_prop c ks index br fs none hne hres hbp ihp.2 (fun fs' rs he => by simp at he) fs' rs hebc).2
            | none => simp [KProg, Frags.leaves, hne]
end

/-- **Progress**: on an empty page a well-formed box resumed at a proper position is never cancelled,
    places at least one line, and returns a proper position. -/
theorem layBox_progress (O : Oracle γ) (b : Box) (s : RS) (g : γ) (hw : b.wf = true) (hp : proper b s = true) :
    ∃ br, layBox O b s g true = .ok br ∧ br.frag.leaves ≠ [] ∧ (∀ r, br.resume = some r → proper b r = true) := by
  cases h : layBox O b s g true with
  | abort nb => exact absurd h (layBox_pie_ok O b s g nb)
  | ok br => exact ⟨br, rfl, layBox_prog O b s g br hw hp h, (layBox_prop O b s g true br hw hp h).1⟩

/-! ### the page loop terminates -/

theorem pagesLoop_done (P : PageInfo → Oracle γ × γ) (ltr : Bool) (root : Box) (hw : root.wf = true) :
    ∀ (fuel index : Nat) (s : PState), proper root s.resume = true →
      2 * (root.from s.resume).length ≤ fuel + (if (pageInfo ltr index s).blank then 0 else 1) →
      (pagesLoop P ltr root fuel index s).done = true
  | 0, index, s, hp, hf => by
    have hne := from_ne root s.resume hw hp
    have : 1 ≤ (root.from s.resume).length := by
      cases h : root.from s.resume with
      | nil => exact absurd h hne
      | cons _ _ => simp
    split at hf <;> omega
  | fuel+1, index, s, hp, hf => by
    rw [pagesLoop]
    dsimp only
    by_cases hb : (pageInfo ltr index s).blank = true
    · rw [if_pos hb]
      rw [if_pos hb] at hf
      dsimp only
      have hnb := blank_then_not_blank ltr index s hb
      exact pagesLoop_done P ltr root hw fuel (index+1) { s with right := !s.right } hp (by
        simp only [hnb, Bool.false_eq_true, if_false]; omega)
    · rw [if_neg hb]
      rw [if_neg hb] at hf
      obtain ⟨br, hbr, hne, hpr⟩ := layBox_progress (P (pageInfo ltr index s)).1 root s.resume
        (P (pageInfo ltr index s)).2 hw hp
      rw [hbr]
      dsimp only
      have hcons := (layBox_good _ root s.resume _ true br hbr).1
      cases hr : br.resume with
      | none => rfl
      | some r' =>
        dsimp only
        rw [hr] at hcons
        simp only [fromOpt] at hcons
        have hlen : (root.from s.resume).length = br.frag.leaves.length + (root.from r').length := by
          rw [← hcons, List.length_append]
        have h1 : 1 ≤ br.frag.leaves.length := by
          cases h : br.frag.leaves with
          | nil => exact absurd h hne
          | cons _ _ => simp
        exact pagesLoop_done P ltr root hw fuel (index+1) { resume := r', nb := br.nb, right := !s.right }
          (hpr r' hr) (by dsimp only; split <;> omega)

theorem paginate_done (P : PageInfo → Oracle γ × γ) (ltr : Bool) (root : Box) (hw : root.wf = true) :
    (paginate P ltr root (2 * root.leaves.length + 1)).done = true := by
  unfold paginate
  apply pagesLoop_done P ltr root hw
  · exact proper_start root hw
  · simp only [initState, Box.from_start]
    split <;> omega

end WR.C02
