/-
  C02 — helper lemmas for the conservation theorems (ported from the design prototype
  design-probes/pagination_conservation_proto.lean.txt and extended to the oracle/state-threading model).
-/
import WR.C02.Spec
namespace WR.C02

variable {γ : Type}

/-! ### specification helpers -/

/-- leaves of `ks` (whose head has absolute index `index`) from kid `i0` at sub-position `sub` to the end -/
def Boxes.fromAbs : Boxes → (index i0 : Nat) → RS → List Nat
  | .nil, _, _, _ => []
  | .cons c ks, index, i0, sub =>
    if index < i0 then ks.fromAbs (index+1) i0 sub
    else if index = i0 then c.from sub ++ ks.leaves
    else c.leaves ++ ks.leaves

def tailAbs (ks : Boxes) (index : Nat) : Option RS → List Nat
  | none => []
  | some .start => ks.leaves
  | some (.at i s) => ks.fromAbs index i s

/-- a resume position produced at absolute kid index ≥ n -/
def GE (r : Option RS) (n : Nat) : Prop :=
  match r with
  | none => True
  | some .start => False
  | some (.at i _) => n ≤ i

theorem Box.from_start (b : Box) : b.from .start = b.leaves := by
  cases b <;> simp [Box.from, Box.leaves, lineOf]

theorem fromAbs_gt (ks : Boxes) (index i0 : Nat) (sub : RS) (h : i0 < index) :
    ks.fromAbs index i0 sub = ks.leaves := by
  cases ks with
  | nil => simp [Boxes.fromAbs, Boxes.leaves]
  | cons c ks =>
    have h1 : ¬ index < i0 := by omega
    have h2 : ¬ index = i0 := by omega
    simp [Boxes.fromAbs, Boxes.leaves, h1, h2]

theorem fromAbs_eq_start (ks : Boxes) (index : Nat) : ks.fromAbs index index .start = ks.leaves := by
  cases ks with
  | nil => simp [Boxes.fromAbs, Boxes.leaves]
  | cons c ks => simp [Boxes.fromAbs, Boxes.leaves, Box.from_start]

theorem fromAbs_le (sub : RS) : ∀ (ks : Boxes) (index i : Nat), index ≤ i →
    ks.fromAbs index i sub = ks.fromAt (i - index) sub
  | .nil, _, _, _ => by simp [Boxes.fromAbs, Boxes.fromAt]
  | .cons c ks, index, i, hle => by
    by_cases h : index < i
    · have : i - index = (i - (index+1)) + 1 := by omega
      rw [Boxes.fromAbs, if_pos h, this, Boxes.fromAt]
      exact fromAbs_le sub ks (index+1) i (by omega)
    · have : index = i := by omega
      subst this
      simp [Boxes.fromAbs, Boxes.fromAt]

theorem fromAbs_zero (ks : Boxes) (i : Nat) (sub : RS) : ks.fromAbs 0 i sub = ks.fromAt i sub := by
  simpa using fromAbs_le sub ks 0 i (Nat.zero_le _)

/-! ### lines: conservation -/

/-- what is compared of a line: token and stored resume index (positions are the oracle's business) -/
def tagOf (new : List FLine) : List (Nat × Option Nat) := new.map (fun l => (l.tok, l.res))

def tagFrom : List Nat → Nat → List (Nat × Option Nat)
  | [], _ => []
  | l :: rest, j => (l, if rest.isEmpty then none else some (j+1)) :: tagFrom rest (j+1)

def lastResumeT (new : List (Nat × Option Nat)) (dflt : RS) : RS :=
  match new.getLast? with
  | some (_, some j) => .at 0 (.at j .start)
  | some (_, none) => .at 0 .start
  | none => dflt

theorem lastResume_tag (new : List FLine) (dflt : RS) : lastResume new dflt = lastResumeT (tagOf new) dflt := by
  unfold lastResume lastResumeT tagOf
  rw [List.getLast?_map]
  cases h : new.getLast? with
  | none => simp
  | some l =>
    obtain ⟨t, r, p⟩ := l
    cases r <;> simp

theorem tagOf_take (new : List FLine) (k : Nat) : tagOf (new.take k) = (tagOf new).take k := by
  simp [tagOf, List.map_take]

theorem tagOf_leaves (new : List FLine) : new.map (·.tok) = (tagOf new).map (·.1) := by
  simp [tagOf]

theorem tagOf_length (new : List FLine) : (tagOf new).length = new.length := by
  simp [tagOf]

theorem tagFrom_length (rest : List Nat) (j : Nat) : (tagFrom rest j).length = rest.length := by
  induction rest generalizing j with
  | nil => rfl
  | cons l rest ih => simp [tagFrom, ih]

theorem tagFrom_map_fst (rest : List Nat) (j : Nat) : (tagFrom rest j).map (·.1) = rest := by
  induction rest generalizing j with
  | nil => rfl
  | cons l rest ih => simp [tagFrom, ih]

theorem layLines_spec (O : Oracle γ) (st : St) (pie : Bool) :
    ∀ (rest : List Nat) (j : Nat) (new : List FLine) (g : γ) (T : List (Nat × Option Nat)),
      tagOf new ++ tagFrom rest j = T →
      (layLines O st pie rest j new g).abort = false →
      ((layLines O st pie rest j new g).stop = false → tagOf (layLines O st pie rest j new g).new = T) ∧
      ((layLines O st pie rest j new g).stop = true →
          ∃ k, k < T.length ∧ tagOf (layLines O st pie rest j new g).new = T.take k) := by
  intro rest
  induction rest with
  | nil =>
    intro j new g T hT hab
    simp [tagFrom] at hT
    subst hT
    simp [layLines]
  | cons l rest ih =>
    intro j new g T hT hab
    have hlen : new.length < T.length := by
      rw [← hT]; simp [tagFrom, tagOf_length]
    have hpre : ∀ k, k ≤ new.length → tagOf (new.take k) = T.take k := by
      intro k hk
      rw [← hT, tagOf_take, List.take_append_of_le_length (by rw [tagOf_length]; exact hk)]
    by_cases hov : ((!new.isEmpty || !pie) && O.lineOver g rest.isEmpty) = true
    · by_cases h1 : (decide (new.length < st.orph) && !pie) = true
      · simp [layLines, hov, h1] at hab
      · by_cases h2 : (decide (new.length < (st.wid - 1) - min (st.wid - 1) rest.length + st.orph) && !pie) = true
        · simp [layLines, hov, h1, h2] at hab
        · simp only [layLines, hov, h1, h2, if_true, Bool.false_eq_true, if_false]
          refine ⟨by simp, fun _ => ?_⟩
          split
          · rename_i h3
            exact ⟨new.length - ((st.wid - 1) - min (st.wid - 1) rest.length), by omega, hpre _ (Nat.sub_le _ _)⟩
          · exact ⟨new.length, hlen, by simpa using hpre new.length (Nat.le_refl _)⟩
    · have hov' : ((!new.isEmpty || !pie) && O.lineOver g rest.isEmpty) = false := by simpa using hov
      have key : layLines O st pie (l :: rest) j new g =
          layLines O st pie rest (j+1)
            (new ++ [{ tok := l, res := if rest.isEmpty then none else some (j+1), pos := (O.place g pie rest.isEmpty).2 }])
            (O.place g pie rest.isEmpty).1 := by
        simp [layLines, hov']
      rw [key] at hab ⊢
      apply ih (j+1) _ _ T
      · rw [← hT]; simp [tagFrom, tagOf]
      · exact hab

theorem take_tagFrom_last : ∀ (rest : List Nat) (j k : Nat), 0 < k → k < rest.length →
    ∃ x, ((tagFrom rest j).take k).getLast? = some (x, some (j + k))
  | [], _, _, _, h => by simp at h
  | l :: rest, j, k, hk, hlt => by
    cases k with
    | zero => omega
    | succ k =>
      cases k with
      | zero =>
        have : rest.isEmpty = false := by
          cases rest with
          | nil => simp at hlt
          | cons _ _ => rfl
        exact ⟨l, by simp [tagFrom, this]⟩
      | succ k =>
        have hlt' : k + 1 < rest.length := by simp only [List.length_cons] at hlt; omega
        obtain ⟨x, hx⟩ := take_tagFrom_last rest (j+1) (k+1) (by omega) hlt'
        refine ⟨x, ?_⟩
        have hne : (tagFrom rest (j+1)).take (k+1) ≠ [] := by
          intro h
          rw [h] at hx; simp at hx
        simp only [tagFrom, List.take_succ_cons]
        rw [List.getLast?_cons_of_ne_nil hne, hx]
        have : j + 1 + (k + 1) = j + (k + 1 + 1) := by omega
        rw [this]

theorem lineOf_lastResume_take (ls : List Nat) (j0 k : Nat) (dflt : RS) (hd : k = 0 → lineOf dflt = j0)
    (hk : k < (ls.drop j0).length) :
    lineOf (lastResumeT ((tagFrom (ls.drop j0) j0).take k) dflt) = j0 + k := by
  cases k with
  | zero => simp [lastResumeT, hd rfl]
  | succ k =>
    obtain ⟨x, hx⟩ := take_tagFrom_last (ls.drop j0) j0 (k+1) (by omega) hk
    simp [lastResumeT, hx, lineOf]

theorem tag_take_conserve (ls : List Nat) (j0 k : Nat) (dflt : RS) (hd : k = 0 → lineOf dflt = j0)
    (hk : k < (ls.drop j0).length) :
    ((tagFrom (ls.drop j0) j0).take k).map (·.1)
      ++ ls.drop (lineOf (lastResumeT ((tagFrom (ls.drop j0) j0).take k) dflt)) = ls.drop j0 := by
  rw [lineOf_lastResume_take ls j0 k dflt hd hk, List.map_take, tagFrom_map_fst]
  rw [← List.drop_drop]
  exact List.take_append_drop k (ls.drop j0)

/-- what `layBox … = ok br` must satisfy: the fragment's leaves followed by the leaves from the returned
    resume position are the leaves from the incoming position; same for the earlier-break candidate -/
def BGood (b : Box) (s : RS) (br : BRes γ) : Prop :=
  br.frag.leaves ++ fromOpt b br.resume = b.from s ∧
  (br.resume = none → ∀ f' r', br.eb = some (f', r') → f'.leaves ++ b.from r' = b.from s)

theorem para_conserves (O : Oracle γ) (st : St) (ls : List Nat) (s : RS) (g : γ) (pie : Bool) (br : BRes γ)
    (h : layBox O (.para st ls) s g pie = .ok br) : BGood (.para st ls) s br := by
  simp only [layBox] at h
  have spec := layLines_spec O st pie (ls.drop (lineOf s)) (lineOf s) [] (O.enter st true s.isStart pie g)
    (tagFrom (ls.drop (lineOf s)) (lineOf s)) (by simp [tagOf])
  generalize hr : layLines O st pie (ls.drop (lineOf s)) (lineOf s) [] (O.enter st true s.isStart pie g) = r at h spec
  by_cases hab : r.abort = true
  · simp [hab] at h
  · have hab' : r.abort = false := by simpa using hab
    obtain ⟨hns, hst⟩ := spec hab'
    by_cases hstop : r.stop = true
    · obtain ⟨k, hk, hnew⟩ := hst hstop
      simp only [hab', hstop, Bool.false_eq_true, if_false, Bool.true_and, if_true] at h
      split at h
      · simp at h
      · simp only [BOut.ok.injEq] at h
        subst h
        rw [tagFrom_length] at hk
        refine ⟨?_, by simp⟩
        simp only [Frag.leaves, fromOpt, Box.from, tagOf_leaves, lastResume_tag, hnew]
        exact tag_take_conserve ls (lineOf s) k _ (by intro; simp [lineOf]) hk
    · have hstop' : r.stop = false := by simpa using hstop
      have hnew := hns hstop'
      simp only [hab', hstop', Bool.false_eq_true, if_false, Bool.false_and, BOut.ok.injEq] at h
      subst h
      refine ⟨by simp [Frag.leaves, fromOpt, Box.from, tagOf_leaves, hnew, tagFrom_map_fst], ?_⟩
      intro _ f' r' heb
      simp only [paraEb] at heb
      split at heb
      · rename_i hc
        simp only [Option.some.injEq, Prod.mk.injEq] at heb
        obtain ⟨rfl, rfl⟩ := heb
        have hl : r.new.length = (ls.drop (lineOf s)).length := by
          rw [← tagOf_length, hnew, tagFrom_length]
        simp only [Frag.leaves, Box.from, tagOf_leaves, lastResume_tag, tagOf_take, hnew, hl]
        exact tag_take_conserve ls (lineOf s) _ _ (by intro h0; omega) (by omega)
      · simp at heb

/-! ### blocks: conservation -/

def HeadOK (fs : Frags) (index : Nat) : Prop :=
  ∀ i c, fs.headIdxSrc = some (i, c) → i = index

def KGood (ks : Boxes) (index i0 : Nat) (sub : RS) : KOut γ → Prop
  | .abort _ => True
  | .ok fs r _ eb _ =>
    fs.leaves ++ tailAbs ks index r = ks.fromAbs index i0 sub ∧ GE r index ∧ (i0 ≤ index → HeadOK fs index) ∧
    (r = none → ∀ fs' rs, eb = some (fs', rs) →
        fs'.leaves ++ tailAbs ks index (some rs) = ks.fromAbs index i0 sub ∧ GE (some rs) index)
  | .need fs fl _ _ _ =>
    fs.leaves ++ tailAbs ks index (some (.at fl .start)) = ks.fromAbs index i0 sub ∧ index ≤ fl ∧
    (i0 ≤ index → HeadOK fs index)

theorem tailAbs_cons (c : Box) (ks : Boxes) (index : Nat) (r : Option RS) (h : GE r (index+1)) :
    tailAbs (.cons c ks) index r = tailAbs ks (index+1) r := by
  match r, h with
  | none, _ => rfl
  | some (.at i s), h =>
    have : index < i := h
    simp [tailAbs, Boxes.fromAbs, this]

theorem GE_mono {r : Option RS} {n m : Nat} (h : GE r n) (hm : m ≤ n) : GE r m := by
  match r, h with
  | none, _ => trivial
  | some (.at i s), h => exact Nat.le_trans hm h

/-- conservation for the candidate built by `ebCons`, given the facts about the head fragment and the tail -/
theorem ebCons_ok (c : Box) (ks : Boxes) (index : Nat) (skip : RS) (br : BRes γ) (fs : Frags) (fsEb : EB Frags)
    (total : List Nat) (htotal : total = c.from skip ++ ks.leaves)
    (hbr : BGood c skip br) (hres : br.resume = none)
    (hhead : HeadOK fs (index+1))
    (hEb : ∀ fs' rs, fsEb = some (fs', rs) →
        fs'.leaves ++ tailAbs ks (index+1) (some rs) = ks.leaves ∧ GE (some rs) (index+1))
    (fs' : Frags) (rs : RS) (h : ebCons index c br.frag br.eb fs fsEb = some (fs', rs)) :
    fs'.leaves ++ tailAbs (.cons c ks) index (some rs) = total ∧ GE (some rs) index := by
  obtain ⟨hmain, hebr⟩ := hbr
  have hfrag : br.frag.leaves = c.from skip := by simpa [hres, fromOpt] using hmain
  have inside_ok : ∀ fs' rs, ebInside index c br.frag br.eb = some (fs', rs) →
      fs'.leaves ++ tailAbs (.cons c ks) index (some rs) = total ∧ GE (some rs) index := by
    intro fs' rs hin
    unfold ebInside at hin
    by_cases hbi : (!br.frag.st.bi.isAvoid) = true
    · rw [if_pos hbi] at hin
      cases heb : br.eb with
      | none => rw [heb] at hin; simp at hin
      | some p =>
        obtain ⟨cf', r⟩ := p
        rw [heb] at hin
        simp only [Option.some.injEq, Prod.mk.injEq] at hin
        obtain ⟨rfl, rfl⟩ := hin
        have := hebr hres cf' r heb
        refine ⟨?_, Nat.le_refl _⟩
        simp [Frags.leaves, tailAbs, Boxes.fromAbs, htotal, ← this]
    · rw [if_neg hbi] at hin; simp at hin
  have here_ok : ∀ fs' rs, ebHere index c br.frag br.eb fs = some (fs', rs) →
      fs'.leaves ++ tailAbs (.cons c ks) index (some rs) = total ∧ GE (some rs) index := by
    intro fs' rs hh
    unfold ebHere at hh
    cases hhd : fs.headIdxSrc with
    | none => rw [hhd] at hh; exact inside_ok fs' rs hh
    | some p =>
      obtain ⟨i2, c2⟩ := p
      rw [hhd] at hh
      dsimp only at hh
      by_cases hbt : (!(between c c2).isAvoid) = true
      · rw [if_pos hbt] at hh
        simp only [Option.some.injEq, Prod.mk.injEq] at hh
        obtain ⟨rfl, rfl⟩ := hh
        have hi2 : i2 = index + 1 := hhead i2 c2 hhd
        subst hi2
        refine ⟨?_, Nat.le_succ _⟩
        simp [Frags.leaves, tailAbs, Boxes.fromAbs, fromAbs_eq_start, hfrag, htotal]
      · rw [if_neg hbt] at hh
        exact inside_ok fs' rs hh
  unfold ebCons at h
  cases hfe : fsEb with
  | none => rw [hfe] at h; exact here_ok fs' rs h
  | some p =>
    obtain ⟨fs2, rs2⟩ := p
    rw [hfe] at h
    simp only [Option.some.injEq, Prod.mk.injEq] at h
    obtain ⟨rfl, rfl⟩ := h
    obtain ⟨h1, h2⟩ := hEb fs2 rs2 hfe
    refine ⟨?_, GE_mono h2 (Nat.le_succ _)⟩
    rw [tailAbs_cons c ks index (some rs2) h2]
    simp [Frags.leaves, hfrag, htotal, List.append_assoc, h1]

theorem block_from (st : St) (ks : Boxes) (s : RS) :
    (Box.block st ks).from s = ks.fromAbs 0 (startIdx s) (startSub s) := by
  cases s with
  | start => simp [Box.from, startIdx, startSub, fromAbs_eq_start]
  | «at» i sub => simp [Box.from, startIdx, startSub, fromAbs_zero]

theorem block_fromOpt (st : St) (ks : Boxes) (r : Option RS) (h : GE r 0) :
    fromOpt (Box.block st ks) r = tailAbs ks 0 r := by
  match r, h with
  | none, _ => rfl
  | some (.at i sub), _ => simp [fromOpt, tailAbs, Box.from, fromAbs_zero]

theorem KGood_fail (c : Box) (ks : Boxes) (index i0 : Nat) (sub : RS) (prev : Option Box) (g : γ) (pb : Brk)
    (pgc : Nat) (nbF : NextPage) (hprev : prev.isSome → i0 < index) :
    KGood (γ := γ) (.cons c ks) index i0 sub (failOut pb prev index g pgc nbF) := by
  have key : prev.isSome → ([] : List Nat) ++ tailAbs (.cons c ks) index (some (.at index .start))
      = (Boxes.cons c ks).fromAbs index i0 sub := by
    intro hp
    have h1 := hprev hp
    have h2 : ¬ index < i0 := by omega
    have h3 : ¬ index = i0 := by omega
    simp [tailAbs, Boxes.fromAbs, h2, h3, Box.from_start]
  unfold failOut
  cases hp : prev with
  | none => by_cases hpb : pb.isAvoid = true <;> simp [hpb, KGood]
  | some p =>
    have hp' : prev.isSome := by simp [hp]
    by_cases hpb : pb.isAvoid = true
    · simp only [hpb, if_true, Option.isNone_some, Bool.false_eq_true, if_false, KGood]
      exact ⟨by simpa [Frags.leaves] using key hp', Nat.le_refl _, fun _ i st h => by simp [Frags.headIdxSrc] at h⟩
    · simp only [hpb, Option.isSome_some, if_true, KGood]
      exact ⟨by simpa [Frags.leaves] using key hp', Nat.le_refl _, fun _ i st h => by simp [Frags.headIdxSrc] at h, by simp⟩

theorem attempt_ok (O : Oracle γ) (lay : γ → BOut γ) (g : γ) (pie' : Bool) (br : BRes γ)
    (h : attempt O lay g pie' = .ok br) : ∃ g', lay g' = .ok br := by
  unfold attempt at h
  split at h
  · simp at h
  · rename_i br1 hb1
    split at h
    · simp only [BOut.ok.injEq] at h; subst h; exact ⟨g, hb1⟩
    · split at h
      · simp at h
      · split at h
        · exact ⟨_, h⟩
        · simp only [BOut.ok.injEq] at h; subst h; exact ⟨g, hb1⟩

theorem HeadOK_cons (index : Nat) (c : Box) (f : Frag) (fs : Frags) : HeadOK (.cons index c f fs) index := by
  intro i st h
  simp [Frags.headIdxSrc] at h
  exact h.1.symm

theorem ebCons_head (index : Nat) (c : Box) (cf : Frag) (cfEb : EB Frag) (fs : Frags) (fsEb : EB Frags)
    (fs' : Frags) (rs : RS) (h : ebCons index c cf cfEb fs fsEb = some (fs', rs)) : HeadOK fs' index := by
  have inside : ∀ fs' rs, ebInside index c cf cfEb = some (fs', rs) → HeadOK fs' index := by
    intro fs' rs hin
    unfold ebInside at hin
    by_cases hbi : (!cf.st.bi.isAvoid) = true
    · rw [if_pos hbi] at hin
      cases heb : cfEb with
      | none => rw [heb] at hin; simp at hin
      | some p =>
        obtain ⟨cf', r⟩ := p
        rw [heb] at hin
        simp only [Option.some.injEq, Prod.mk.injEq] at hin
        obtain ⟨rfl, rfl⟩ := hin
        exact HeadOK_cons _ _ _ _
    · rw [if_neg hbi] at hin; simp at hin
  unfold ebCons at h
  cases hfe : fsEb with
  | some p =>
    obtain ⟨fs2, rs2⟩ := p
    rw [hfe] at h
    simp only [Option.some.injEq, Prod.mk.injEq] at h
    obtain ⟨rfl, rfl⟩ := h
    exact HeadOK_cons _ _ _ _
  | none =>
    rw [hfe] at h
    dsimp only at h
    unfold ebHere at h
    cases hhd : fs.headIdxSrc with
    | none => rw [hhd] at h; exact inside fs' rs h
    | some p =>
      obtain ⟨i2, c2⟩ := p
      rw [hhd] at h
      dsimp only at h
      by_cases hbt : (!(between c c2).isAvoid) = true
      · rw [if_pos hbt] at h
        simp only [Option.some.injEq, Prod.mk.injEq] at h
        obtain ⟨rfl, rfl⟩ := h
        exact HeadOK_cons _ _ _ _
      · rw [if_neg hbt] at h
        exact inside fs' rs h

/-- `finishBlock` keeps what the child loop established -/
theorem finishBlock_good (O : Oracle γ) (st : St) (ks : Boxes) (s : RS) (gE : γ) (pie : Bool)
    (fs : Frags) (r : Option RS) (g' : γ) (eb : EB Frags) (nb : NextPage) (br : BRes γ)
    (h1 : fs.leaves ++ tailAbs ks 0 r = ks.fromAbs 0 (startIdx s) (startSub s)) (h2 : GE r 0)
    (h4 : r = none → ∀ fs' rs, eb = some (fs', rs) →
        fs'.leaves ++ tailAbs ks 0 (some rs) = ks.fromAbs 0 (startIdx s) (startSub s) ∧ GE (some rs) 0)
    (h : finishBlock O st gE pie fs r g' eb nb = .ok br) : BGood (.block st ks) s br := by
  unfold finishBlock at h
  split at h
  · simp at h
  · simp only [BOut.ok.injEq] at h
    subst h
    refine ⟨?_, ?_⟩
    · simp only [Frag.leaves, block_from]
      rw [block_fromOpt st ks r h2]
      exact h1
    · intro hres f' r' heb
      simp only at hres heb
      cases hebv : eb with
      | none => rw [hebv] at heb; simp at heb
      | some p =>
        obtain ⟨fs', rs⟩ := p
        rw [hebv] at heb
        simp only [Option.some.injEq, Prod.mk.injEq] at heb
        obtain ⟨rfl, rfl⟩ := heb
        obtain ⟨h5, h6⟩ := h4 hres fs' rs hebv
        simp only [Frag.leaves, block_from]
        have := block_fromOpt st ks (some rs) h6
        simp only [fromOpt, block_from] at this
        rw [this]; exact h5

mutual
theorem layBox_good (O : Oracle γ) : ∀ (b : Box) (s : RS) (g : γ) (pie : Bool) (br : BRes γ),
    layBox O b s g pie = .ok br → BGood b s br
  | .para st ls, s, g, pie, br, h => para_conserves O st ls s g pie br h
  | .block st ks, s, g, pie, br, h => by
    have hk := layKids_good O ks 0 (startIdx s) (startSub s) none (O.enter st false s.isStart pie g) pie {} (by simp)
    rw [layBox] at h
    cases hr : layKids O ks 0 (startIdx s) (startSub s) none (O.enter st false s.isStart pie g) pie {} with
    | abort pg => rw [hr] at h; simp at h
    | need fs fail g' nbF pgc =>
      rw [hr] at h hk
      obtain ⟨h1, _, _⟩ := hk
      by_cases hp : pie = true
      · simp only [hp, Bool.not_true, Bool.false_eq_true, if_false] at h
        exact finishBlock_good O st ks s g true fs _ g' none nbF br h1 (by simp [GE]) (by simp) h
      · simp [hp] at h
    | ok fs r g' eb nb =>
      rw [hr] at h hk
      obtain ⟨h1, h2, _, h4⟩ := hk
      exact finishBlock_good O st ks s g pie fs r g' eb nb br h1 (GE_mono h2 (Nat.zero_le _))
        (fun hres fs' rs he => by
          obtain ⟨a, b⟩ := h4 hres fs' rs he
          exact ⟨a, GE_mono b (Nat.zero_le _)⟩) h
theorem layKids_good (O : Oracle γ) : ∀ (ks : Boxes) (index i0 : Nat) (sub : RS) (prev : Option Box) (g : γ)
    (pie : Bool) (nb : NextPage),
    (prev.isSome → i0 < index) → KGood ks index i0 sub (layKids O ks index i0 sub prev g pie nb)
  | .nil, index, i0, sub, prev, g, pie, nb, _ => by
    simp [layKids, KGood, Frags.leaves, tailAbs, Boxes.fromAbs, GE, HeadOK, Frags.headIdxSrc]
  | .cons c ks, index, i0, sub, prev, g, pie, nb, hprev => by
    unfold layKids
    by_cases hlt : index < i0
    · -- skipped kid
      rw [if_pos hlt]
      have ih := layKids_good O ks (index+1) i0 sub prev g pie nb (fun hp => by have := hprev hp; omega)
      cases hr : layKids O ks (index+1) i0 sub prev g pie nb with
      | abort pg => trivial
      | need fs fl g' nbF pgc =>
        rw [hr] at ih
        obtain ⟨h1, h2, h3⟩ := ih
        refine ⟨?_, by omega, fun hi => by omega⟩
        rw [tailAbs_cons c ks index _ (by simpa [GE] using h2)]
        simpa [Boxes.fromAbs, hlt] using h1
      | ok fs r g' eb nb' =>
        rw [hr] at ih
        obtain ⟨h1, h2, h3, h4⟩ := ih
        refine ⟨?_, GE_mono h2 (Nat.le_succ _), fun hi => by omega, ?_⟩
        · rw [tailAbs_cons c ks index r h2]
          simpa [Boxes.fromAbs, hlt] using h1
        · intro hres fs' rs hebv
          obtain ⟨h5, h6⟩ := h4 hres fs' rs hebv
          refine ⟨?_, GE_mono h6 (Nat.le_succ _)⟩
          rw [tailAbs_cons c ks index (some rs) h6]
          simpa [Boxes.fromAbs, hlt] using h5
    · rw [if_neg hlt]
      -- abbreviations
      generalize hpb : pbOf prev c = pb
      have hfail := fun nbF => KGood_fail c ks index i0 sub prev g pb c.pgStart nbF hprev
      have key_stop : prev.isSome → ([] : List Nat) ++ tailAbs (.cons c ks) index (some (.at index .start))
          = (Boxes.cons c ks).fromAbs index i0 sub := by
        intro hp
        have h1 := hprev hp
        have h2 : ¬ index = i0 := by omega
        simp [tailAbs, Boxes.fromAbs, hlt, h2, Box.from_start]
      by_cases hforce : (prev.isSome && (pb.isForce || nsOf prev c)) = true
      · simp only [hforce, if_true]
        have hp : prev.isSome := by
          simp only [Bool.and_eq_true] at hforce; exact hforce.1
        exact ⟨by simpa [Frags.leaves] using key_stop hp, Nat.le_refl _,
          fun _ i st h => by simp [Frags.headIdxSrc] at h, by simp⟩
      · simp only [hforce, Bool.false_eq_true, if_false]
        -- the total we must conserve
        have htotal : (Boxes.cons c ks).fromAbs index i0 sub
            = c.from (if index = i0 then sub else RS.start) ++ ks.leaves := by
          by_cases he : index = i0
          · simp [Boxes.fromAbs, he]
          · simp [Boxes.fromAbs, hlt, he, Box.from_start]
        -- the attempt (first layout, overflow tests, second layout) is `abort` or a good result
        generalize hatt : attempt O (fun g' => layBox O c (if index = i0 then sub else RS.start) g' (pie && prev.isNone)) g
          (pie && prev.isNone) = att
        have hgood : ∀ br, att = .ok br → BGood c (if index = i0 then sub else RS.start) br := by
          intro br hbr
          rw [← hatt] at hbr
          obtain ⟨g', hg'⟩ := attempt_ok O _ g _ br hbr
          exact layBox_good O c _ g' _ br hg'
        cases hb : att with
        | abort nbA => exact hfail nbA
        | ok br =>
          have hbr := hgood br hb
          dsimp only
          cases hres : br.resume with
          | some r' =>
            dsimp only
            refine ⟨?_, Nat.le_refl _, fun _ => HeadOK_cons _ _ _ _, by simp⟩
            have := hbr.1
            rw [hres] at this
            simp only [fromOpt] at this
            rw [htotal, ← this]
            by_cases he : index = i0 <;> simp [Frags.leaves, tailAbs, Boxes.fromAbs, he]
          | none =>
            dsimp only
            have hfrag : br.frag.leaves = c.from (if index = i0 then sub else RS.start) := by
              have := hbr.1; rw [hres] at this; simpa [fromOpt] using this
            have ih := layKids_good O ks (index+1) i0 sub (some c) (O.afterKid g br.g) pie br.nb (fun _ => by omega)
            have hrest : ks.fromAbs (index+1) i0 sub = ks.leaves := fromAbs_gt ks (index+1) i0 sub (by omega)
            cases hr : layKids O ks (index+1) i0 sub (some c) (O.afterKid g br.g) pie br.nb with
            | abort pg => trivial
            | ok fs r2 g2 eb nb2 =>
              rw [hr] at ih
              obtain ⟨h1, h2, h3, h4⟩ := ih
              dsimp only
              refine ⟨?_, GE_mono h2 (Nat.le_succ _), fun _ => HeadOK_cons _ _ _ _, ?_⟩
              · rw [tailAbs_cons c ks index r2 h2, htotal]
                simp only [Frags.leaves, List.append_assoc, hfrag]
                rw [h1, hrest]
              · intro hr2 fs' rs hebv
                have := ebCons_ok c ks index _ br fs eb _ htotal hbr hres (h3 (by omega))
                  (fun fs' rs he => by
                    obtain ⟨a, b⟩ := h4 hr2 fs' rs he
                    exact ⟨by rw [a, hrest], b⟩) fs' rs hebv
                exact this
            | need fs fl g2 nbF pgc =>
              rw [hr] at ih
              obtain ⟨h1, h2, h3⟩ := ih
              dsimp only
              cases hebc : ebCons index c br.frag br.eb fs none with
              | some p =>
                obtain ⟨fs', rs⟩ := p
                dsimp only
                have := ebCons_ok c ks index _ br fs none _ htotal hbr hres (h3 (by omega))
                  (fun fs' rs he => by simp at he) fs' rs hebc
                exact ⟨this.1, this.2, fun _ => ebCons_head index c br.frag br.eb fs none fs' rs hebc, by simp⟩
              | none =>
                dsimp only
                refine ⟨?_, by omega, fun _ => HeadOK_cons _ _ _ _⟩
                rw [tailAbs_cons c ks index _ (by simpa [GE] using h2), htotal]
                simp only [Frags.leaves, List.append_assoc, hfrag]
                rw [h1, hrest]
end

/-! ### the page loop -/

theorem pagesLeaves_cons (p : Page) (ps : List Page) : pagesLeaves (p :: ps) = p.leaves ++ pagesLeaves ps := by
  simp [pagesLeaves]

theorem pagesLoop_conserve (P : PageInfo → Oracle γ × γ) (ltr : Bool) (root : Box) :
    ∀ (fuel index : Nat) (s : PState),
      pagesLeaves (pagesLoop P ltr root fuel index s).pages <+: root.from s.resume ∧
      ((pagesLoop P ltr root fuel index s).done = true →
        pagesLeaves (pagesLoop P ltr root fuel index s).pages = root.from s.resume)
  | 0, _, _ => by simp [pagesLoop, pagesLeaves]
  | fuel+1, index, s => by
    rw [pagesLoop]
    dsimp only
    split
    · -- blank page
      have ih := pagesLoop_conserve P ltr root fuel (index+1) { s with right := !s.right }
      simp only [pagesLeaves_cons, Page.leaves, List.nil_append]
      exact ih
    · cases hb : layBox (P (pageInfo ltr index s)).1 root s.resume (P (pageInfo ltr index s)).2 true with
      | abort nb => simp [pagesLeaves]
      | ok br =>
        have h := (layBox_good _ root s.resume _ true br hb).1
        dsimp only
        cases hr : br.resume with
        | none =>
          rw [hr] at h
          simp only [fromOpt, List.append_nil] at h
          simp [pagesLeaves, Page.leaves, h]
        | some r' =>
          rw [hr] at h
          have ih := pagesLoop_conserve P ltr root fuel (index+1) { resume := r', nb := br.nb, right := !s.right }
          simp only [fromOpt] at h
          dsimp only
          simp only [pagesLeaves_cons, Page.leaves]
          rw [← h]
          exact ⟨(List.prefix_append_right_inj _).mpr ih.1, fun hd => by rw [ih.2 hd]⟩

end WR.C02
