/-
  C09 — lemmas about FlexBoxes / GridBoxes: the children of flex and grid containers are blockified.
-/
import WR.C09.Shape
namespace WR.C09

/-- shape before the flex/grid passes: non-parent boxes have no children (the passes return them unchanged
    without looking below), and children of flex and grid containers are block-level or inline-level
    (the table pass has wrapped or dropped everything else) -/
def preFG (ty : Ty) (_ : Attrs) (kids : List Box) : Bool :=
  (isParent ty || kids.isEmpty) &&
  (!(isFlexContainer ty || isGridContainer ty) || kids.all (fun c => isBlockLevel c.ty || isInlineLevel c.ty))

/-- the flex/grid clause of `WF` at one box -/
def fgOK (ty : Ty) (_ : Attrs) (kids : List Box) : Bool := flexGridOK ty kids

/-- between the two passes: flex containers are already blockified, grid containers not yet -/
def midFG (ty : Ty) (_ : Attrs) (kids : List Box) : Bool :=
  (isParent ty || kids.isEmpty) &&
  (!isFlexContainer ty || kids.all (fun c => isBlockLevel c.ty)) &&
  (!isGridContainer ty || kids.all (fun c => isBlockLevel c.ty || isInlineLevel c.ty))

theorem setA_ty (b : Box) (a : Attrs) : (b.setA a).ty = b.ty := rfl

theorem flexKids_blockified (pa : Attrs) : ∀ ks : List Box,
    (∀ k ∈ ks, (isBlockLevel k.ty || isInlineLevel k.ty) = true) → ∀ c ∈ flexKids pa ks, isBlockLevel c.ty = true
  | [], _, c, hc => by simp [flexKids] at hc
  | k :: ks, h, c, hc => by
    have ih := flexKids_blockified pa ks (fun x hx => h x (List.mem_cons_of_mem _ hx))
    have hk := h k (List.mem_cons_self ..)
    unfold flexKids at hc
    simp only at hc
    split at hc
    · exact ih c hc
    · split at hc
      · rcases List.mem_cons.mp hc with rfl | hc
        · rfl
        · exact ih c hc
      · rename_i hnil
        rcases List.mem_cons.mp hc with rfl | hc
        · have : isInlineLevel k.ty = false := by simpa using hnil
          have hb : isBlockLevel k.ty = true := by simpa [this] using hk
          split <;> simpa [setA_ty] using hb
        · exact ih c hc

theorem gridKids_blockified : ∀ ks : List Box,
    (∀ k ∈ ks, (isBlockLevel k.ty || isInlineLevel k.ty) = true) → ∀ c ∈ gridKids ks, isBlockLevel c.ty = true
  | [], _, c, hc => by simp [gridKids] at hc
  | k :: ks, h, c, hc => by
    have ih := gridKids_blockified ks (fun x hx => h x (List.mem_cons_of_mem _ hx))
    have hk := h k (List.mem_cons_self ..)
    unfold gridKids at hc
    simp only at hc
    split at hc
    · exact ih c hc
    · split at hc
      · rcases List.mem_cons.mp hc with rfl | hc
        · rfl
        · exact ih c hc
      · rename_i hnil
        rcases List.mem_cons.mp hc with rfl | hc
        · have : isInlineLevel k.ty = false := by simpa using hnil
          have hb : isBlockLevel k.ty = true := by simpa [this] using hk
          split <;> simpa [setA_ty] using hb
        · exact ih c hc

/-- both passes preserve the type and the attributes of the root -/
theorem flexBoxes_ty : ∀ b : Box, (flexBoxes b).ty = b.ty ∧ (flexBoxes b).a = b.a
  | .mk ty a kids cols => by unfold flexBoxes; split <;> exact ⟨rfl, rfl⟩

theorem gridBoxes_ty : ∀ b : Box, (gridBoxes b).ty = b.ty ∧ (gridBoxes b).a = b.a
  | .mk ty a kids cols => by unfold gridBoxes; split <;> exact ⟨rfl, rfl⟩

theorem flexBoxesList_tys : ∀ (ks : List Box) (q : Ty → Bool), (∀ k ∈ ks, q k.ty = true) → ∀ k ∈ flexBoxesList ks, q k.ty = true
  | [], _, _, k, hk => by simp [flexBoxesList] at hk
  | x :: xs, q, h, k, hk => by
    unfold flexBoxesList at hk
    rcases List.mem_cons.mp hk with rfl | hk
    · rw [(flexBoxes_ty x).1]; exact h x (List.mem_cons_self ..)
    · exact flexBoxesList_tys xs q (fun y hy => h y (List.mem_cons_of_mem _ hy)) k hk

theorem gridBoxesList_tys : ∀ (ks : List Box) (q : Ty → Bool), (∀ k ∈ ks, q k.ty = true) → ∀ k ∈ gridBoxesList ks, q k.ty = true
  | [], _, _, k, hk => by simp [gridBoxesList] at hk
  | x :: xs, q, h, k, hk => by
    unfold gridBoxesList at hk
    rcases List.mem_cons.mp hk with rfl | hk
    · rw [(gridBoxes_ty x).1]; exact h x (List.mem_cons_self ..)
    · exact gridBoxesList_tys xs q (fun y hy => h y (List.mem_cons_of_mem _ hy)) k hk

theorem flex_not_grid (ty : Ty) : isFlexContainer ty = true → isGridContainer ty = false := by
  cases ty <;> simp [isCls]

/-! ### `allN` helpers (re-proved here under `fg_` names; `LemmasIIB` is not imported) -/

theorem fg_allN_mk (p : Ty → Attrs → List Box → Bool) (ty : Ty) (a : Attrs) (kids cols : List Box) :
    allN p (.mk ty a kids cols) = (a.running || (p ty a kids && allNList p kids)) := by
  rw [allN]

/-- changing attributes other than `running` does not change `allN p` when `p` ignores the attributes -/
theorem fg_allN_setA (p : Ty → Attrs → List Box → Bool) (hp : ∀ ty a a' ks, p ty a ks = p ty a' ks) :
    ∀ (k : Box) (a' : Attrs), a'.running = k.a.running → allN p (k.setA a') = allN p k
  | .mk ty a kids cols, a', h => by
    simp only [Box.setA, Box.ty, Box.kids, Box.cols, Box.a] at h ⊢
    rw [fg_allN_mk, fg_allN_mk, h, hp ty a' a kids]

/-- flexKids keeps `allN p` for every attribute-blind `p` that accepts an anonymous block with one child -/
theorem fg_flexKids_allN (p : Ty → Attrs → List Box → Bool) (hp : ∀ ty a a' ks, p ty a ks = p ty a' ks)
    (hb : ∀ a k, p .block a [k] = true) (pa : Attrs) :
    ∀ ks : List Box, allNList p ks = true → allNList p (flexKids pa ks) = true
  | [], _ => by simp [flexKids, allNList]
  | k :: ks, h => by
    rw [allNList, Bool.and_eq_true] at h
    have ih := fg_flexKids_allN p hp hb pa ks h.2
    have hc1 : allN p (if !k.a.absPos then k.setA { k.a with fi := true } else k) = true := by
      split
      · exact (fg_allN_setA p hp k _ (by rfl)).trans h.1
      · exact h.1
    unfold flexKids
    simp only
    split
    · exact ih
    · split
      · rw [allNList, fg_allN_mk, allNList, allNList, hb, hc1, ih]; simp [anonAttrs]
      · rw [allNList, hc1, ih]; rfl

/-- gridKids keeps `allN p` likewise (the wrapper copies `running` from the child — QUIRK — which only
    makes `allN p wrapper` true outright) -/
theorem fg_gridKids_allN (p : Ty → Attrs → List Box → Bool) (hp : ∀ ty a a' ks, p ty a ks = p ty a' ks)
    (hb : ∀ a k, p .block a [k] = true) :
    ∀ ks : List Box, allNList p ks = true → allNList p (gridKids ks) = true
  | [], _ => by simp [gridKids, allNList]
  | k :: ks, h => by
    rw [allNList, Bool.and_eq_true] at h
    have ih := fg_gridKids_allN p hp hb ks h.2
    have hc1 : allN p (if !k.a.absPos then k.setA { k.a with gi := true } else k) = true := by
      split
      · exact (fg_allN_setA p hp k _ (by rfl)).trans h.1
      · exact h.1
    have hc2 : allN p (k.setA { k.a with gi := false }) = true := by
      exact (fg_allN_setA p hp k _ (by rfl)).trans h.1
    unfold gridKids
    simp only
    split
    · exact ih
    · split
      · rw [allNList, fg_allN_mk, allNList, allNList, hb, hc2, ih]; simp
      · rw [allNList, hc1, ih]; rfl

theorem fg_all_of_mem {q : Box → Bool} {ks : List Box} (h : ∀ k ∈ ks, q k = true) : ks.all q = true := by
  simpa using h

theorem fg_mem_of_all {q : Box → Bool} {ks : List Box} (h : ks.all q = true) : ∀ k ∈ ks, q k = true := by
  simpa using h

theorem midFG_blind : ∀ (ty : Ty) (a a' : Attrs) (ks : List Box), midFG ty a ks = midFG ty a' ks := fun _ _ _ _ => rfl
theorem fgOK_blind : ∀ (ty : Ty) (a a' : Attrs) (ks : List Box), fgOK ty a ks = fgOK ty a' ks := fun _ _ _ _ => rfl
theorem midFG_block (a : Attrs) (k : Box) : midFG .block a [k] = true := by simp [midFG, isCls]
theorem fgOK_block (a : Attrs) (k : Box) : fgOK .block a [k] = true := by simp [fgOK, flexGridOK, isCls]

mutual
  theorem flexBoxes_mid : ∀ b : Box, allN preFG b = true → allN midFG (flexBoxes b) = true
    | .mk ty a kids cols, h => by
      rw [fg_allN_mk] at h
      unfold flexBoxes
      cases hr : a.running with
      | true => simp [fg_allN_mk, hr]
      | false =>
        simp only [hr, Bool.false_or, Bool.and_eq_true, preFG, Bool.or_eq_true] at h
        obtain ⟨⟨hpar, hfg⟩, hk⟩ := h
        cases hp : isParent ty with
        | false =>
          have hnil : kids = [] := by simpa [hp] using hpar
          subst hnil
          simp [fg_allN_mk, hr, midFG, allNList]
        | true =>
          have ihk := flexBoxesList_mid kids hk
          simp only [Bool.not_true, Bool.false_or, Bool.false_eq_true, if_false]
          rw [fg_allN_mk, hr, Bool.false_or, Bool.and_eq_true]
          cases hf : isFlexContainer ty with
          | true =>
            have hg := flex_not_grid ty hf
            have hbi : ∀ k ∈ flexBoxesList kids, (isBlockLevel k.ty || isInlineLevel k.ty) = true :=
              flexBoxesList_tys kids (fun t => isBlockLevel t || isInlineLevel t)
                (fg_mem_of_all (by simpa [hf] using hfg))
            constructor
            · simp only [midFG, hp, hf, hg, Bool.true_or, Bool.not_true, Bool.false_or, Bool.not_false,
                Bool.true_and, Bool.and_true, if_true]
              exact fg_all_of_mem (flexKids_blockified a _ hbi)
            · simp only [if_true]
              exact fg_flexKids_allN midFG midFG_blind midFG_block a _ ihk
          | false =>
            simp only [Bool.false_eq_true, if_false]
            refine ⟨?_, ihk⟩
            simp only [midFG, hp, hf, Bool.true_or, Bool.not_false, Bool.true_and]
            cases hg : isGridContainer ty with
            | false => rfl
            | true =>
              simp only [Bool.not_true, Bool.false_or]
              exact fg_all_of_mem (flexBoxesList_tys kids (fun t => isBlockLevel t || isInlineLevel t)
                (fg_mem_of_all (by simpa [hf, hg] using hfg)))
  theorem flexBoxesList_mid : ∀ ks : List Box, allNList preFG ks = true → allNList midFG (flexBoxesList ks) = true
    | [], _ => by simp [flexBoxesList, allNList]
    | k :: ks, h => by
      unfold allNList at h
      simp only [Bool.and_eq_true] at h
      unfold flexBoxesList allNList
      simp [flexBoxes_mid k h.1, flexBoxesList_mid ks h.2]
end

mutual
  theorem gridBoxes_fg : ∀ b : Box, allN midFG b = true → allN fgOK (gridBoxes b) = true
    | .mk ty a kids cols, h => by
      rw [fg_allN_mk] at h
      unfold gridBoxes
      cases hr : a.running with
      | true => simp [fg_allN_mk, hr]
      | false =>
        simp only [hr, Bool.false_or, Bool.and_eq_true, midFG, Bool.or_eq_true] at h
        obtain ⟨⟨⟨hpar, hfl⟩, hgr⟩, hk⟩ := h
        cases hp : isParent ty with
        | false =>
          have hnil : kids = [] := by simpa [hp] using hpar
          subst hnil
          simp [fg_allN_mk, hr, fgOK, flexGridOK, allNList]
        | true =>
          have ihk := gridBoxesList_fg kids hk
          simp only [Bool.not_true, Bool.false_or, Bool.false_eq_true, if_false]
          rw [fg_allN_mk, hr, Bool.false_or, Bool.and_eq_true]
          cases hg : isGridContainer ty with
          | true =>
            have hbi : ∀ k ∈ gridBoxesList kids, (isBlockLevel k.ty || isInlineLevel k.ty) = true :=
              gridBoxesList_tys kids (fun t => isBlockLevel t || isInlineLevel t)
                (fg_mem_of_all (by simpa [hg] using hgr))
            constructor
            · simp only [fgOK, flexGridOK, hg, Bool.or_true, Bool.not_true, Bool.false_or, if_true]
              exact fg_all_of_mem (gridKids_blockified _ hbi)
            · simp only [if_true]
              exact fg_gridKids_allN fgOK fgOK_blind fgOK_block _ ihk
          | false =>
            simp only [Bool.false_eq_true, if_false]
            refine ⟨?_, ihk⟩
            simp only [fgOK, flexGridOK, hg, Bool.or_false]
            cases hf : isFlexContainer ty with
            | false => rfl
            | true =>
              simp only [Bool.not_true, Bool.false_or]
              exact fg_all_of_mem (gridBoxesList_tys kids (fun t => isBlockLevel t)
                (fg_mem_of_all (by simpa [hf] using hfl)))
  theorem gridBoxesList_fg : ∀ ks : List Box, allNList midFG ks = true → allNList fgOK (gridBoxesList ks) = true
    | [], _ => by simp [gridBoxesList, allNList]
    | k :: ks, h => by
      unfold allNList at h
      simp only [Bool.and_eq_true] at h
      unfold gridBoxesList allNList
      simp [gridBoxes_fg k h.1, gridBoxesList_fg ks h.2]
end

/-- FlexBoxes then GridBoxes: below every non-running box, the children of flex and grid containers
    are block-level (the flex/grid clause of `WF`) -/
theorem flexGrid_wf (b : Box) (h : allN preFG b = true) : allN fgOK (gridBoxes (flexBoxes b)) = true :=
  gridBoxes_fg _ (flexBoxes_mid b h)

/-! ### non-vacuity: a flex container with a text, an inline and a block child -/

def fgExample : Box :=
  .mk .block {} [
    .mk .flex { el := 8 } [
      .mk .text { el := 8, text := "x" } [] [],
      .mk .inline { el := 16 } [.mk .text { el := 16, text := "y" } [] []] [],
      .mk .block { el := 24 } [] []
    ] []
  ] []

example : allN preFG fgExample = true := by decide

example : allN fgOK (gridBoxes (flexBoxes fgExample)) = true := flexGrid_wf _ (by decide)

/-- after the two passes the flex box has exactly three children, all of type `.block` -/
example : ((gridBoxes (flexBoxes fgExample)).kids.map (fun f => (f.ty, f.kids.map Box.ty))) =
    [(.flex, [.block, .block, .block])] := by decide

end WR.C09
