/-
  C09 — lemmas about the grid-slot assignment loop of wrapTable
  (`firstFree` / `cellsGo` / `rowsGo` / `groupGo` of WR/C09/Model.lean).  Core Lean only.

  1. `firstFree` returns the least free column ≥ the start (`firstFree_not_mem/_ge/_min`).
  2. one row (`cellsGo_*`): length and everything but GridX/Rowspan unchanged, GridX free and
     ≥ the start, cells sorted without overlap, rowspan clipped into the group, `following` keeps its length.
  3. `rowsGo_ok`, `groupGo_ok`, `groupsGo_ok`: no "index out of range".
  4. `grid_overlap_witness`: full disjointness (`gridOK`) is FALSE for the code (colspan-2 cell running
     into a rowspan-2 cell of the previous row) while `firstSlotsOK` holds.
  5. the occupancy invariant (`Cov`, `Down`): `rowsGo_firstSlotsOK` / `groupGo_firstSlotsOK` hold for
     every output (no hypothesis), `rowsGo_gridOK` / `groupGo_gridOK` hold when every visible cell has colspan 1.
-/
import WR.C09.Spec
namespace WR.C09
theorem firstFreeAux_spec : ∀ (fuel : Nat) (occ : List Nat) (gx : Nat), occ.length ≤ fuel →
    gx ≤ firstFreeAux fuel occ gx ∧ firstFreeAux fuel occ gx ∉ occ ∧
    ∀ j, gx ≤ j → j < firstFreeAux fuel occ gx → j ∈ occ := by
  intro fuel
  induction fuel with
  | zero =>
    intro occ gx h
    have : occ = [] := List.eq_nil_of_length_eq_zero (Nat.le_zero.mp h)
    subst this
    simp only [firstFreeAux]
    refine ⟨Nat.le_refl _, by simp, ?_⟩
    intro j h1 h2; omega
  | succ f ih =>
    intro occ gx h
    simp only [firstFreeAux]
    by_cases hc : occ.contains gx = true
    · rw [if_pos hc]
      have hm : gx ∈ occ := List.contains_iff_mem.mp hc
      have hl : (occ.erase gx).length ≤ f := by
        rw [List.length_erase_of_mem hm]; omega
      obtain ⟨h1, h2, h3⟩ := ih (occ.erase gx) (gx + 1) hl
      refine ⟨by omega, ?_, ?_⟩
      · intro hr
        have hne : firstFreeAux f (occ.erase gx) (gx + 1) ≠ gx := by omega
        exact h2 ((List.mem_erase_of_ne hne).mpr hr)
      · intro j hj1 hj2
        by_cases hj : j = gx
        · subst hj; exact hm
        · exact List.mem_of_mem_erase (h3 j (by omega) hj2)
    · rw [if_neg hc]
      refine ⟨Nat.le_refl _, ?_, ?_⟩
      · intro hm; exact hc (List.contains_iff_mem.mpr hm)
      · intro j h1 h2; omega

theorem firstFree_not_mem (occ : List Nat) (gx : Nat) : firstFree occ gx ∉ occ :=
  (firstFreeAux_spec occ.length occ gx (Nat.le_refl _)).2.1
theorem firstFree_ge (occ : List Nat) (gx : Nat) : gx ≤ firstFree occ gx :=
  (firstFreeAux_spec occ.length occ gx (Nat.le_refl _)).1
theorem firstFree_min (occ : List Nat) (gx j : Nat) : gx ≤ j → j < firstFree occ gx → j ∈ occ :=
  (firstFreeAux_spec occ.length occ gx (Nat.le_refl _)).2.2 j

theorem markFirst_length : ∀ (n : Nat) (fs : List (List Nat)) (s : List Nat),
    (markFirst n fs s).length = fs.length := by
  intro n
  induction n with
  | zero => intro fs s; cases fs <;> rfl
  | succ n ih =>
    intro fs s
    cases fs with
    | nil => rfl
    | cons f fs => simp only [markFirst, List.length_cons, ih]

theorem clipRowspan_bounds (rs n : Nat) : 1 ≤ clipRowspan rs n ∧ clipRowspan rs n ≤ n + 1 := by
  unfold clipRowspan
  by_cases h1 : rs = 1
  · simp [h1]
  · by_cases h0 : rs = 0
    · simp [h0]
    · have e1 : (rs == 1) = false := by simp [h1]
      have e0 : (rs == 0) = false := by simp [h0]
      simp only [e1, e0]
      simp only [Bool.false_eq_true, if_false]
      omega

/-- the occupancy of the following rows after a cell has been placed -/
def nextFollowing (c : Box) (occThis : List Nat) (following : List (List Nat)) (gx0 : Nat) : List (List Nat) :=
  if c.a.rowspan == 1 then following
  else markFirst (clipRowspan c.a.rowspan following.length - 1) following
        (List.range' (firstFree occThis gx0) c.a.colspan)

/-- the cell as stored by the loop -/
def placed (c : Box) (occThis : List Nat) (following : List (List Nat)) (gx0 : Nat) : Box :=
  c.setA { c.a with gridX := firstFree occThis gx0, rowspan := clipRowspan c.a.rowspan following.length }

theorem cellsGo_nil (occThis : List Nat) (following : List (List Nat)) (gx0 : Nat) :
    cellsGo [] occThis following gx0 = ([], following) := rfl

theorem cellsGo_cons (c : Box) (cs : List Box) (occThis : List Nat) (following : List (List Nat)) (gx0 : Nat) :
    cellsGo (c :: cs) occThis following gx0 =
      (placed c occThis following gx0 ::
        (cellsGo cs occThis (nextFollowing c occThis following gx0) (firstFree occThis gx0 + c.a.colspan)).1,
       (cellsGo cs occThis (nextFollowing c occThis following gx0) (firstFree occThis gx0 + c.a.colspan)).2) := rfl

theorem nextFollowing_length (c : Box) (occThis : List Nat) (following : List (List Nat)) (gx0 : Nat) :
    (nextFollowing c occThis following gx0).length = following.length := by
  unfold nextFollowing
  split
  · rfl
  · exact markFirst_length _ _ _

/-- everything the grid loop leaves alone -/
def cellKey (c : Box) : Ty × List Box × List Box × Attrs :=
  (c.ty, c.kids, c.cols, { c.a with gridX := 0, rowspan := 0 })

theorem placed_key (c : Box) (occThis : List Nat) (following : List (List Nat)) (gx0 : Nat) :
    cellKey (placed c occThis following gx0) = cellKey c := by
  cases c; rfl

theorem cellsGo_length (cells : List Box) (occThis : List Nat) (following : List (List Nat)) (gx0 : Nat) :
    (cellsGo cells occThis following gx0).1.length = cells.length := by
  induction cells generalizing following gx0 with
  | nil => rfl
  | cons c cs ih => rw [cellsGo_cons]; simp only [List.length_cons, ih]

theorem cellsGo_key (cells : List Box) (occThis : List Nat) (following : List (List Nat)) (gx0 : Nat) :
    (cellsGo cells occThis following gx0).1.map cellKey = cells.map cellKey := by
  induction cells generalizing following gx0 with
  | nil => rfl
  | cons c cs ih => rw [cellsGo_cons]; simp only [List.map_cons, ih, placed_key]

theorem cellsGo_unchanged (cells : List Box) (occThis : List Nat) (following : List (List Nat)) (gx0 : Nat) :
    (cellsGo cells occThis following gx0).1.map (fun c => (c.ty, c.kids, c.cols, c.a.colspan))
      = cells.map (fun c => (c.ty, c.kids, c.cols, c.a.colspan)) := by
  have h := congrArg (List.map (fun k : Ty × List Box × List Box × Attrs => (k.1, k.2.1, k.2.2.1, k.2.2.2.colspan)))
    (cellsGo_key cells occThis following gx0)
  simpa only [List.map_map, Function.comp_def, cellKey] using h

theorem cellsGo_following_length (cells : List Box) (occThis : List Nat) (following : List (List Nat)) (gx0 : Nat) :
    (cellsGo cells occThis following gx0).2.length = following.length := by
  induction cells generalizing following gx0 with
  | nil => rfl
  | cons c cs ih => rw [cellsGo_cons]; simp only [ih, nextFollowing_length]

theorem placed_gridX (c : Box) (occThis : List Nat) (following : List (List Nat)) (gx0 : Nat) :
    (placed c occThis following gx0).a.gridX = firstFree occThis gx0 := rfl
theorem placed_colspan (c : Box) (occThis : List Nat) (following : List (List Nat)) (gx0 : Nat) :
    (placed c occThis following gx0).a.colspan = c.a.colspan := rfl
theorem placed_rowspan (c : Box) (occThis : List Nat) (following : List (List Nat)) (gx0 : Nat) :
    (placed c occThis following gx0).a.rowspan = clipRowspan c.a.rowspan following.length := rfl

theorem cellsGo_gridX_free (cells : List Box) (occThis : List Nat) (following : List (List Nat)) (gx0 : Nat) :
    ∀ c ∈ (cellsGo cells occThis following gx0).1, gx0 ≤ c.a.gridX ∧ c.a.gridX ∉ occThis := by
  induction cells generalizing following gx0 with
  | nil => intro c hc; cases hc
  | cons c cs ih =>
    intro d hd
    rw [cellsGo_cons] at hd
    rcases List.mem_cons.mp hd with rfl | hd
    · exact ⟨firstFree_ge _ _, firstFree_not_mem _ _⟩
    · have := ih _ _ d hd
      have h2 := firstFree_ge occThis gx0
      exact ⟨by omega, this.2⟩

theorem cellsGo_sorted (cells : List Box) (occThis : List Nat) (following : List (List Nat)) (gx0 : Nat) :
    (cellsGo cells occThis following gx0).1.Pairwise (fun a b => a.a.gridX + a.a.colspan ≤ b.a.gridX) := by
  induction cells generalizing following gx0 with
  | nil => exact List.Pairwise.nil
  | cons c cs ih =>
    rw [cellsGo_cons]
    refine List.Pairwise.cons ?_ (ih _ _)
    intro d hd
    exact (cellsGo_gridX_free _ _ _ _ d hd).1

theorem cellsGo_rowspan (cells : List Box) (occThis : List Nat) (following : List (List Nat)) (gx0 : Nat) :
    ∀ c ∈ (cellsGo cells occThis following gx0).1, 1 ≤ c.a.rowspan ∧ c.a.rowspan ≤ following.length + 1 := by
  induction cells generalizing following gx0 with
  | nil => intro c hc; cases hc
  | cons c cs ih =>
    intro d hd
    rw [cellsGo_cons] at hd
    rcases List.mem_cons.mp hd with rfl | hd
    · exact clipRowspan_bounds _ _
    · have := ih _ _ d hd
      rwa [nextFollowing_length] at this

theorem rowsGo_nil (occs : List (List Nat)) : rowsGo [] occs = .ok [] := by
  cases occs <;> rfl

theorem rowsGo_cons (row : Box) (rows : List Box) (occThis : List Nat) (following : List (List Nat)) :
    rowsGo (row :: rows) (occThis :: following) =
      (rowsGo rows (cellsGo row.kids occThis following 0).2).bind
        (fun rest => .ok (row.setKids (cellsGo row.kids occThis following 0).1 :: rest)) := rfl

theorem rowsGo_ok (rows : List Box) (occs : List (List Nat)) :
    occs.length = rows.length → ∃ out, rowsGo rows occs = .ok out ∧ out.length = rows.length := by
  induction rows generalizing occs with
  | nil => intro _; exact ⟨[], rowsGo_nil occs, rfl⟩
  | cons row rows ih =>
    intro h
    cases occs with
    | nil => cases h
    | cons occThis following =>
      have hl : (cellsGo row.kids occThis following 0).2.length = rows.length := by
        rw [cellsGo_following_length]; simpa using h
      obtain ⟨rest, hr, hlen⟩ := ih _ hl
      refine ⟨row.setKids (cellsGo row.kids occThis following 0).1 :: rest, ?_, by simp [hlen]⟩
      rw [rowsGo_cons, hr]; rfl

theorem groupGo_eq (g : Box) :
    groupGo g = (rowsGo g.kids (List.replicate g.kids.length [])).bind (fun rows => .ok (g.setKids rows)) := rfl

theorem groupGo_ok (g : Box) : ∃ g', groupGo g = .ok g' ∧ g'.ty = g.ty ∧ g'.kids.length = g.kids.length := by
  obtain ⟨out, ho, hl⟩ := rowsGo_ok g.kids (List.replicate g.kids.length []) (by simp)
  refine ⟨g.setKids out, ?_, rfl, hl⟩
  rw [groupGo_eq, ho]; rfl

theorem groupsGo_ok (gs : List Box) : ∃ out, groupsGo gs = .ok out ∧ out.length = gs.length := by
  induction gs with
  | nil => exact ⟨[], rfl, rfl⟩
  | cons g gs ih =>
    obtain ⟨g', hg, _, _⟩ := groupGo_ok g
    obtain ⟨out, ho, hl⟩ := ih
    refine ⟨g' :: out, ?_, by simp [hl]⟩
    show (groupGo g).bind (fun g' => (groupsGo gs).bind (fun r => .ok (g' :: r))) = _
    rw [hg, ho]; rfl

/-- a colspan-2 cell whose first column is free runs into a rowspan-2 cell of the previous row -/
def witnessGroup : Box :=
  Box.mk .tableRowGroup {}
    [ Box.mk .tableRow {}
        [ Box.mk .tableCell { colspan := 1, rowspan := 1 } [] [],
          Box.mk .tableCell { colspan := 1, rowspan := 2 } [] [] ] [],
      Box.mk .tableRow {}
        [ Box.mk .tableCell { colspan := 2, rowspan := 1 } [] [] ] [] ] []

/-- what the loop makes of `witnessGroup`: both the rowspan-2 cell of row 0 (column 1) and the
    colspan-2 cell of row 1 (columns 0–1) hold slot (1, 1) -/
def witnessOut : Box :=
  Box.mk .tableRowGroup {}
    [ Box.mk .tableRow {}
        [ Box.mk .tableCell { colspan := 1, rowspan := 1, gridX := 0 } [] [],
          Box.mk .tableCell { colspan := 1, rowspan := 2, gridX := 1 } [] [] ] [],
      Box.mk .tableRow {}
        [ Box.mk .tableCell { colspan := 2, rowspan := 1, gridX := 0 } [] [] ] [] ] []

theorem witness_run : groupGo witnessGroup = .ok witnessOut := by rfl

theorem grid_overlap_witness :
    ∃ g', groupGo witnessGroup = .ok g' ∧ gridOK g'.ty g'.kids = false ∧ firstSlotsOK g'.kids = true :=
  ⟨witnessOut, witness_run, by decide, by decide⟩

/-! ## the occupancy invariant -/

theorem nodup_iff (l : List (Nat × Nat)) : nodup l = true ↔ l.Nodup := by
  induction l with
  | nil => simp [nodup]
  | cons x xs ih => simp [nodup, List.nodup_cons, ih]

theorem nodup_flatMap_of {α β : Type} (f : α → List β) (l : List α)
    (hp : l.Pairwise (fun a b => ∀ x ∈ f a, ∀ y ∈ f b, x ≠ y)) (hn : ∀ a ∈ l, (f a).Nodup) :
    (l.flatMap f).Nodup := by
  induction l with
  | nil => simp
  | cons a l ih =>
    rw [List.flatMap_cons, List.nodup_append]
    rw [List.pairwise_cons] at hp
    refine ⟨hn a (List.mem_cons_self), ih hp.2 (fun b hb => hn b (List.mem_cons_of_mem _ hb)), ?_⟩
    intro x hx y hy
    obtain ⟨b, hb, hyb⟩ := List.mem_flatMap.mp hy
    exact hp.1 b hb x hx y hyb

theorem nodup_map_pair_left (y : Nat) (s n : Nat) : ((List.range' s n).map fun x => (y, x)).Nodup := by
  unfold List.Nodup
  rw [List.pairwise_map]
  refine (List.pairwise_lt_range' (s := s) (n := n)).imp ?_
  intro a b h e
  injection e with _ e2
  omega

theorem mem_cellSlots (r : Nat) (c : Box) (y x : Nat) :
    (y, x) ∈ cellSlots r c ↔ (r ≤ y ∧ y < r + c.a.rowspan) ∧ (c.a.gridX ≤ x ∧ x < c.a.gridX + c.a.colspan) := by
  simp only [cellSlots, List.mem_flatMap, List.mem_map, List.mem_range'_1, Prod.mk.injEq]
  constructor
  · rintro ⟨y', hy, x', hx, rfl, rfl⟩; exact ⟨hy, hx⟩
  · rintro ⟨hy, hx⟩; exact ⟨y, hy, x, hx, rfl, rfl⟩

theorem nodup_cellSlots (r : Nat) (c : Box) : (cellSlots r c).Nodup := by
  unfold cellSlots
  apply nodup_flatMap_of
  · refine (List.pairwise_lt_range' (s := r) (n := c.a.rowspan)).imp ?_
    intro a b h p hp q hq e
    obtain ⟨x1, _, rfl⟩ := List.mem_map.mp hp
    obtain ⟨x2, _, rfl⟩ := List.mem_map.mp hq
    injection e with e1 _
    omega
  · intro y _; exact nodup_map_pair_left y _ _

theorem count_cellSlots (r : Nat) (c : Box) (y x : Nat) :
    List.count (y, x) (cellSlots r c) =
      if (r ≤ y ∧ y < r + c.a.rowspan) ∧ (c.a.gridX ≤ x ∧ x < c.a.gridX + c.a.colspan) then 1 else 0 := by
  rw [(nodup_cellSlots r c).count]
  simp only [mem_cellSlots]

theorem groupSlotsFrom_ge : ∀ (rows : List Box) (r : Nat) (s : Nat × Nat), s ∈ groupSlotsFrom r rows → r ≤ s.1 := by
  intro rows
  induction rows with
  | nil => intro r s h; cases h
  | cons row rows ih =>
    intro r s h
    simp only [groupSlotsFrom, List.mem_append] at h
    rcases h with h | h
    · obtain ⟨y, x⟩ := s
      simp only [rowSlots, List.mem_flatMap] at h
      obtain ⟨c, _, hc⟩ := h
      exact ((mem_cellSlots r c y x).mp hc).1.1
    · have := ih (r + 1) s h; omega

/-- cells ordered left to right without overlap (what `cellsGo_sorted` gives) -/
def Sorted (cells : List Box) : Prop :=
  cells.Pairwise (fun a b => a.a.gridX + a.a.colspan ≤ b.a.gridX)

/-- in a sorted row the first slot of a cell that spans at least one row and column is counted once -/
theorem count_row_first (r : Nat) (cells : List Box) (hs : Sorted cells) (c : Box) (hc : c ∈ cells)
    (h1 : 1 ≤ c.a.rowspan) (h2 : 1 ≤ c.a.colspan) :
    List.count (r, c.a.gridX) (cells.flatMap (cellSlots r)) = 1 := by
  induction cells with
  | nil => cases hc
  | cons d ds ih =>
    unfold Sorted at hs
    rw [List.pairwise_cons] at hs
    rw [List.flatMap_cons, List.count_append]
    rcases List.mem_cons.mp hc with rfl | hc'
    · have hz : List.count (r, c.a.gridX) (ds.flatMap (cellSlots r)) = 0 := by
        rw [List.count_eq_zero]
        intro hm
        obtain ⟨e, he, hme⟩ := List.mem_flatMap.mp hm
        have := hs.1 e he
        have := (mem_cellSlots r e r c.a.gridX).mp hme
        omega
      rw [hz, count_cellSlots, if_pos]
      omega
    · have hz : List.count (r, c.a.gridX) (cellSlots r d) = 0 := by
        rw [count_cellSlots, if_neg]
        have := hs.1 c hc'
        omega
      rw [hz, ih hs.2 hc']

theorem nodup_row_cols (r : Nat) (cells : List Box) (hs : Sorted cells) :
    (cells.flatMap fun c => (List.range' c.a.gridX c.a.colspan).map fun x => (r, x)).Nodup := by
  apply nodup_flatMap_of
  · refine List.Pairwise.imp ?_ hs
    intro a b h p hp q hq e
    obtain ⟨x1, h1, rfl⟩ := List.mem_map.mp hp
    obtain ⟨x2, h2, rfl⟩ := List.mem_map.mp hq
    injection e with _ e2
    rw [List.mem_range'_1] at h1 h2
    omega
  · intro c _; exact nodup_map_pair_left r _ _

/-! ### occupancy lists: growth and coverage -/

/-- pointwise inclusion of occupancy lists -/
def OccSub (f g : List (List Nat)) : Prop :=
  ∀ (k : Nat) (o : List Nat), f[k]? = some o → ∃ o', g[k]? = some o' ∧ ∀ x ∈ o, x ∈ o'

theorem OccSub.refl (f : List (List Nat)) : OccSub f f := fun _ o h => ⟨o, h, fun _ hx => hx⟩

theorem OccSub.trans {f g h : List (List Nat)} (a : OccSub f g) (b : OccSub g h) : OccSub f h := by
  intro k o ho
  obtain ⟨o1, h1, s1⟩ := a k o ho
  obtain ⟨o2, h2, s2⟩ := b k o1 h1
  exact ⟨o2, h2, fun x hx => s2 x (s1 x hx)⟩

theorem markFirst_get : ∀ (n : Nat) (fs : List (List Nat)) (s : List Nat) (k : Nat) (o : List Nat),
    fs[k]? = some o → (markFirst n fs s)[k]? = some (if k < n then o ++ s else o) := by
  intro n
  induction n with
  | zero => intro fs s k o h; cases fs <;> simp [markFirst] at h ⊢ <;> exact h
  | succ n ih =>
    intro fs s k o h
    cases fs with
    | nil => simp at h
    | cons f fs =>
      cases k with
      | zero =>
        simp only [List.getElem?_cons_zero, Option.some.injEq] at h
        subst h
        simp [markFirst]
      | succ k =>
        simp only [List.getElem?_cons_succ] at h
        simp only [markFirst, List.getElem?_cons_succ, ih fs s k o h, Nat.add_lt_add_iff_right]

theorem markFirst_sub (n : Nat) (fs : List (List Nat)) (s : List Nat) : OccSub fs (markFirst n fs s) := by
  intro k o h
  refine ⟨_, markFirst_get n fs s k o h, ?_⟩
  intro x hx
  split
  · exact List.mem_append_left _ hx
  · exact hx

theorem nextFollowing_sub (c : Box) (occThis : List Nat) (following : List (List Nat)) (gx0 : Nat) :
    OccSub following (nextFollowing c occThis following gx0) := by
  unfold nextFollowing
  split
  · exact OccSub.refl _
  · exact markFirst_sub _ _ _

theorem cellsGo_sub (cells : List Box) (occThis : List Nat) (following : List (List Nat)) (gx0 : Nat) :
    OccSub following (cellsGo cells occThis following gx0).2 := by
  induction cells generalizing following gx0 with
  | nil => exact OccSub.refl _
  | cons c cs ih =>
    rw [cellsGo_cons]
    exact (nextFollowing_sub c occThis following gx0).trans (ih _ _)

/-- the columns of a placed cell are entered in the occupancy of the rows it spans below its own -/
theorem nextFollowing_cover (c : Box) (occThis : List Nat) (following : List (List Nat)) (gx0 : Nat)
    (k : Nat) (hk : k + 1 < (placed c occThis following gx0).a.rowspan) :
    ∃ o, (nextFollowing c occThis following gx0)[k]? = some o ∧
      ∀ x ∈ List.range' (placed c occThis following gx0).a.gridX (placed c occThis following gx0).a.colspan, x ∈ o := by
  rw [placed_rowspan] at hk
  rw [placed_gridX, placed_colspan]
  have hb := clipRowspan_bounds c.a.rowspan following.length
  have hklen : k < following.length := by omega
  have hne : (c.a.rowspan == 1) = false := by
    cases h : c.a.rowspan == 1
    · rfl
    · have : c.a.rowspan = 1 := by simpa using h
      rw [this] at hk
      simp [clipRowspan] at hk
  unfold nextFollowing
  rw [hne]
  simp only [Bool.false_eq_true, if_false]
  have hget : following[k]? = some following[k] := List.getElem?_eq_getElem hklen
  refine ⟨_, markFirst_get _ _ _ k _ hget, ?_⟩
  intro x hx
  rw [if_pos (by omega)]
  exact List.mem_append_right _ hx

theorem cellsGo_cover (cells : List Box) (occThis : List Nat) (following : List (List Nat)) (gx0 : Nat) :
    ∀ c ∈ (cellsGo cells occThis following gx0).1, ∀ k, k + 1 < c.a.rowspan →
      ∃ o, (cellsGo cells occThis following gx0).2[k]? = some o ∧
        ∀ x ∈ List.range' c.a.gridX c.a.colspan, x ∈ o := by
  induction cells generalizing following gx0 with
  | nil => intro c hc; cases hc
  | cons c cs ih =>
    intro d hd k hk
    rw [cellsGo_cons] at hd ⊢
    rcases List.mem_cons.mp hd with rfl | hd
    · obtain ⟨o, ho, hx⟩ := nextFollowing_cover c occThis following gx0 k hk
      obtain ⟨o', ho', hs⟩ := cellsGo_sub cs occThis (nextFollowing c occThis following gx0)
        (firstFree occThis gx0 + c.a.colspan) k o ho
      exact ⟨o', ho', fun x h => hs x (hx x h)⟩
    · exact ih _ _ d hd k hk

/-- every slot of `pre` (cells of earlier rows) at or below row `r` is entered in the occupancy
    lists `occs` of row `r` and the rows after it -/
def Cov (pre : List (Nat × Nat)) (r : Nat) (occs : List (List Nat)) : Prop :=
  ∀ y x, (y, x) ∈ pre → r ≤ y → ∃ o, occs[y - r]? = some o ∧ x ∈ o

theorem rowCells_setKids_mem (row : Box) (ks : List Box) : ∀ c ∈ rowCells (row.setKids ks), c ∈ ks := by
  intro c hc
  unfold rowCells at hc
  split at hc
  · cases hc
  · exact hc

theorem rowCells_setKids_sorted (row : Box) (ks : List Box) (h : Sorted ks) : Sorted (rowCells (row.setKids ks)) := by
  unfold rowCells
  split
  · exact List.Pairwise.nil
  · exact h

theorem Cov_step (pre : List (Nat × Nat)) (r : Nat) (row : Box) (occThis : List Nat) (following : List (List Nat))
    (h : Cov pre r (occThis :: following)) :
    Cov (pre ++ rowSlots r (row.setKids (cellsGo row.kids occThis following 0).1)) (r + 1)
      (cellsGo row.kids occThis following 0).2 := by
  intro y x hm hy
  rcases List.mem_append.mp hm with hm | hm
  · obtain ⟨o, ho, hx⟩ := h y x hm (by omega)
    have e : y - r = (y - (r + 1)) + 1 := by omega
    rw [e, List.getElem?_cons_succ] at ho
    obtain ⟨o', ho', hs⟩ := cellsGo_sub row.kids occThis following 0 _ o ho
    exact ⟨o', ho', hs x hx⟩
  · simp only [rowSlots, List.mem_flatMap] at hm
    obtain ⟨c, hc, hcs⟩ := hm
    have hc' := rowCells_setKids_mem _ _ c hc
    have hm := (mem_cellSlots r c y x).mp hcs
    obtain ⟨o, ho, hx⟩ := cellsGo_cover row.kids occThis following 0 c hc' (y - (r + 1)) (by omega)
    exact ⟨o, ho, hx x (List.mem_range'_1.mpr hm.2)⟩

theorem go_cons (all : List (Nat × Nat)) (r : Nat) (row : Box) (rows : List Box) :
    firstSlotsOK.go all r (row :: rows) =
      ((rowCells row).all (fun c => c.a.rowspan == 0 || c.a.colspan == 0 || (all.filter (· == (r, c.a.gridX))).length == 1) &&
       nodup ((rowCells row).flatMap fun c => (List.range' c.a.gridX c.a.colspan).map fun x => (r, x)) &&
       firstSlotsOK.go all (r + 1) rows) := rfl

theorem rowsGo_go (rows : List Box) : ∀ (occs : List (List Nat)) (r : Nat) (pre : List (Nat × Nat)) (out : List Box),
    rowsGo rows occs = .ok out → Cov pre r occs →
    firstSlotsOK.go (pre ++ groupSlotsFrom r out) r out = true := by
  induction rows with
  | nil =>
    intro occs r pre out h _
    rw [rowsGo_nil] at h
    cases h
    rfl
  | cons row rows ih =>
    intro occs r pre out h hcov
    cases occs with
    | nil => cases h
    | cons occThis following =>
      rw [rowsGo_cons] at h
      cases hr : rowsGo rows (cellsGo row.kids occThis following 0).2 with
      | error e => rw [hr] at h; cases h
      | ok rest =>
        rw [hr] at h
        simp only [Except.bind] at h
        cases h
        have hsorted := rowCells_setKids_sorted row _ (cellsGo_sorted row.kids occThis following 0)
        have hrec := ih _ (r + 1) _ rest hr (Cov_step pre r row occThis following hcov)
        rw [go_cons]
        simp only [groupSlotsFrom, Bool.and_eq_true]
        rw [← List.append_assoc]
        refine ⟨⟨?_, ?_⟩, hrec⟩
        · rw [List.all_eq_true]
          intro c hc
          by_cases h1 : c.a.rowspan = 0
          · simp [h1]
          by_cases h2 : c.a.colspan = 0
          · simp [h2]
          have hcnt : List.count (r, c.a.gridX)
              (pre ++ rowSlots r (row.setKids (cellsGo row.kids occThis following 0).1) ++ groupSlotsFrom (r + 1) rest) = 1 := by
            rw [List.count_append, List.count_append]
            have z1 : List.count (r, c.a.gridX) pre = 0 := by
              rw [List.count_eq_zero]
              intro hm
              obtain ⟨o, ho, hx⟩ := hcov r c.a.gridX hm (Nat.le_refl _)
              simp only [Nat.sub_self, List.getElem?_cons_zero, Option.some.injEq] at ho
              subst ho
              exact (cellsGo_gridX_free row.kids _ following 0 c (rowCells_setKids_mem _ _ c hc)).2 hx
            have z2 : List.count (r, c.a.gridX) (groupSlotsFrom (r + 1) rest) = 0 := by
              rw [List.count_eq_zero]
              intro hm
              have := groupSlotsFrom_ge rest (r + 1) _ hm
              have : r + 1 ≤ r := this
              omega
            rw [z1, z2]
            simp only [rowSlots, Nat.zero_add, Nat.add_zero]
            exact count_row_first r _ hsorted c hc (by omega) (by omega)
          rw [List.count_eq_length_filter] at hcnt
          rw [hcnt]
          simp
        · rw [nodup_iff]
          exact nodup_row_cols r _ hsorted

/-- the first column of every cell is held by that cell alone and the cells of one row do not overlap:
    holds for every output of the row loop (no hypothesis on the input is needed) -/
theorem rowsGo_firstSlotsOK (rows : List Box) (occs : List (List Nat)) (out : List Box)
    (h : rowsGo rows occs = .ok out) : firstSlotsOK out = true := by
  have := rowsGo_go rows occs 0 [] out h (by intro y x hm; cases hm)
  simpa [firstSlotsOK] using this

theorem groupGo_firstSlotsOK (g g' : Box) (h : groupGo g = .ok g') : firstSlotsOK g'.kids = true := by
  rw [groupGo_eq] at h
  cases hr : rowsGo g.kids (List.replicate g.kids.length []) with
  | error e => rw [hr] at h; cases h
  | ok rows =>
    rw [hr] at h
    simp only [Except.bind] at h
    cases h
    exact rowsGo_firstSlotsOK _ _ rows hr

/-! ### full disjointness when no cell spans several columns -/

theorem cellsGo_colspan (cells : List Box) (occThis : List Nat) (following : List (List Nat)) (gx0 : Nat) :
    ∀ c ∈ (cellsGo cells occThis following gx0).1, ∃ d ∈ cells, c.a.colspan = d.a.colspan := by
  induction cells generalizing following gx0 with
  | nil => intro c hc; cases hc
  | cons c cs ih =>
    intro d hd
    rw [cellsGo_cons] at hd
    rcases List.mem_cons.mp hd with rfl | hd
    · exact ⟨c, List.mem_cons_self, rfl⟩
    · obtain ⟨e, he, h⟩ := ih _ _ d hd
      exact ⟨e, List.mem_cons_of_mem _ he, h⟩

theorem nodup_rowSlots (r : Nat) (cells : List Box) (hs : Sorted cells) :
    (cells.flatMap (cellSlots r)).Nodup := by
  apply nodup_flatMap_of
  · refine List.Pairwise.imp ?_ hs
    intro a b h p hp q hq e
    obtain ⟨y1, x1⟩ := p
    obtain ⟨y2, x2⟩ := q
    have h1 := (mem_cellSlots r a y1 x1).mp hp
    have h2 := (mem_cellSlots r b y2 x2).mp hq
    injection e with _ e2
    omega
  · intro c _; exact nodup_cellSlots r c

/-- the slots of `pre` reach down to row `r` column by column (they come from cells of rows above `r`) -/
def Down (pre : List (Nat × Nat)) (r : Nat) : Prop :=
  ∀ y x, (y, x) ∈ pre → ∀ y', r ≤ y' → y' ≤ y → (y', x) ∈ pre

theorem Down_step (pre : List (Nat × Nat)) (r : Nat) (row : Box) (h : Down pre r) :
    Down (pre ++ rowSlots r row) (r + 1) := by
  intro y x hm y' h1 h2
  rcases List.mem_append.mp hm with hm | hm
  · exact List.mem_append_left _ (h y x hm y' (by omega) h2)
  · refine List.mem_append_right _ ?_
    simp only [rowSlots, List.mem_flatMap] at hm ⊢
    obtain ⟨c, hc, hcs⟩ := hm
    refine ⟨c, hc, ?_⟩
    have := (mem_cellSlots r c y x).mp hcs
    exact (mem_cellSlots r c y' x).mpr (by omega)

theorem rowCells_setKids_of (row : Box) (ks : List Box) (P : Box → Prop)
    (h : ∀ c ∈ ks, ∃ d ∈ row.kids, P d → P c) (hrow : ∀ d ∈ rowCells row, P d) :
    ∀ c ∈ rowCells (row.setKids ks), P c := by
  intro c hc
  unfold rowCells at hc hrow
  have e : (row.setKids ks).a = row.a := rfl
  rw [e] at hc
  split at hc
  · cases hc
  · rename_i hrun
    rw [if_neg hrun] at hrow
    obtain ⟨d, hd, hp⟩ := h c hc
    exact hp (hrow d hd)

theorem rowsGo_grid (rows : List Box) : ∀ (occs : List (List Nat)) (r : Nat) (pre : List (Nat × Nat)) (out : List Box),
    rowsGo rows occs = .ok out → occs.length = rows.length → Cov pre r occs → Down pre r →
    (∀ row ∈ rows, ∀ c ∈ rowCells row, c.a.colspan = 1) →
    (groupSlotsFrom r out).Nodup ∧ (∀ s ∈ groupSlotsFrom r out, s ∉ pre) ∧
    (∀ s ∈ groupSlotsFrom r out, s.1 < r + out.length) ∧
    (∀ row ∈ out, ∀ c ∈ rowCells row, c.a.colspan = 1 ∧ 1 ≤ c.a.rowspan) := by
  induction rows with
  | nil =>
    intro occs r pre out h _ _ _ _
    rw [rowsGo_nil] at h
    cases h
    refine ⟨List.nodup_nil, ?_, ?_, ?_⟩ <;> intro s hs <;> cases hs
  | cons row rows ih =>
    intro occs r pre out h hlen hcov hdown hcs
    cases occs with
    | nil => cases h
    | cons occThis following =>
      rw [rowsGo_cons] at h
      cases hr : rowsGo rows (cellsGo row.kids occThis following 0).2 with
      | error e => rw [hr] at h; cases h
      | ok rest =>
        rw [hr] at h
        simp only [Except.bind] at h
        cases h
        have hflen : following.length = rows.length := by simpa using hlen
        have hlen' : (cellsGo row.kids occThis following 0).2.length = rows.length := by
          rw [cellsGo_following_length]; exact hflen
        have hrestlen : rest.length = rows.length := by
          obtain ⟨o, ho, hl⟩ := rowsGo_ok rows _ hlen'
          rw [hr] at ho; cases ho; exact hl
        have hsorted := rowCells_setKids_sorted row _ (cellsGo_sorted row.kids occThis following 0)
        have hcol1 : ∀ c ∈ rowCells (row.setKids (cellsGo row.kids occThis following 0).1), c.a.colspan = 1 := by
          apply rowCells_setKids_of row _ (fun c => c.a.colspan = 1)
          · intro c hc
            obtain ⟨d, hd, e⟩ := cellsGo_colspan row.kids occThis following 0 c hc
            exact ⟨d, hd, fun hp => e.trans hp⟩
          · exact hcs row List.mem_cons_self
        obtain ⟨n1, n2, n3, n4⟩ := ih _ (r + 1) _ rest hr hlen' (Cov_step pre r row occThis following hcov)
          (Down_step pre r _ hdown) (fun row' h' => hcs row' (List.mem_cons_of_mem _ h'))
        simp only [groupSlotsFrom]
        refine ⟨?_, ?_, ?_, ?_⟩
        · rw [List.nodup_append]
          refine ⟨nodup_rowSlots r _ hsorted, n1, ?_⟩
          intro a ha b hb e
          subst e
          exact n2 a hb (List.mem_append_right _ ha)
        · intro s hs
          rcases List.mem_append.mp hs with hs | hs
          · intro hpre
            obtain ⟨y, x⟩ := s
            simp only [rowSlots, List.mem_flatMap] at hs
            obtain ⟨c, hc, hcs'⟩ := hs
            have hm := (mem_cellSlots r c y x).mp hcs'
            have hx : x = c.a.gridX := by have := hcol1 c hc; omega
            subst hx
            have hpre' := hdown y _ hpre r (Nat.le_refl _) hm.1.1
            obtain ⟨o, ho, hxo⟩ := hcov r c.a.gridX hpre' (Nat.le_refl _)
            simp only [Nat.sub_self, List.getElem?_cons_zero, Option.some.injEq] at ho
            subst ho
            exact (cellsGo_gridX_free row.kids _ following 0 c (rowCells_setKids_mem _ _ c hc)).2 hxo
          · intro hpre
            exact n2 s hs (List.mem_append_left _ hpre)
        · intro s hs
          rcases List.mem_append.mp hs with hs | hs
          · obtain ⟨y, x⟩ := s
            simp only [rowSlots, List.mem_flatMap] at hs
            obtain ⟨c, hc, hcs'⟩ := hs
            have hm := (mem_cellSlots r c y x).mp hcs'
            have := (cellsGo_rowspan row.kids occThis following 0 c (rowCells_setKids_mem _ _ c hc)).2
            simp only [List.length_cons]
            show y < _
            omega
          · have := n3 s hs
            simp only [List.length_cons]
            omega
        · intro row' hrow' c hc
          rcases List.mem_cons.mp hrow' with rfl | hrow'
          · exact ⟨hcol1 c hc, (cellsGo_rowspan row.kids occThis following 0 c (rowCells_setKids_mem _ _ c hc)).1⟩
          · exact n4 row' hrow' c hc

/-- when no (visible) cell spans several columns, no two cells of the group share a grid slot,
    every cell spans at least one row and column and stays inside the group -/
theorem rowsGo_gridOK (rows out : List Box)
    (h : rowsGo rows (List.replicate rows.length []) = .ok out)
    (hcs : ∀ row ∈ rows, ∀ c ∈ rowCells row, c.a.colspan = 1) :
    gridOK .tableRowGroup out = true := by
  obtain ⟨n1, _, n3, n4⟩ := rowsGo_grid rows _ 0 [] out h (by simp)
    (by intro y x hm; cases hm) (by intro y x hm; cases hm) hcs
  simp only [gridOK, Bool.or_eq_true, Bool.and_eq_true, List.all_eq_true, nodup_iff]
  right
  refine ⟨⟨n1, ?_⟩, ?_⟩
  · intro s hs
    have := n3 s hs
    simp only [Nat.zero_add] at this
    simpa using this
  · intro row hrow c hc
    have := n4 row hrow c hc
    simp only [ge_iff_le, decide_eq_true_eq]
    omega

theorem groupGo_gridOK (g g' : Box) (h : groupGo g = .ok g')
    (hcs : ∀ row ∈ g.kids, ∀ c ∈ rowCells row, c.a.colspan = 1) :
    gridOK g'.ty g'.kids = true := by
  rw [groupGo_eq] at h
  cases hr : rowsGo g.kids (List.replicate g.kids.length []) with
  | error e => rw [hr] at h; cases h
  | ok rows =>
    rw [hr] at h
    simp only [Except.bind] at h
    cases h
    by_cases hty : g.ty = .tableRowGroup
    · have e : (g.setKids rows).ty = .tableRowGroup := hty
      rw [e]
      exact rowsGo_gridOK g.kids rows hr hcs
    · have e : (g.setKids rows).ty = g.ty := rfl
      simp [gridOK, e, hty]

/-
  Nothing of the requested list is left unproved.  Remarks:
  * `rowsGo_firstSlotsOK` needs neither "rows not running" nor "colspan ≥ 1": `firstSlotsOK` skips
    cells with an empty span and `rowCells` of a running row is empty.
  * `groupGo_gridOK` asks `colspan = 1` only of the cells `rowCells` shows (cells of running rows are free).
  * not attempted: the converse direction of the occupancy invariant (every entry of `occs` comes
    from a cell of an earlier row), which would be needed to show GridX is the *least* column not
    covered by an earlier cell.
-/
end WR.C09
