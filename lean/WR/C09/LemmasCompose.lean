/-
  C09 — chaining InlineInBlock and BlockInInline: the output of `inlineInBlock` (on a tree of shape
  `preIIB`) satisfies the hypotheses of the `blockInInline` lemmas (running inline boxes are opaque for
  `blockInInline`, so no hypothesis on running inline boxes is needed).
-/
import WR.C09.LemmasIIB
import WR.C09.LemmasBII
namespace WR.C09

/-- no child is a running inline box.  No longer a hypothesis of anything in this file (running inline
    boxes are opaque for `blockInInline`); the definition is kept for the files that still mention it. -/
def noRunInl (_ : Ty) (_ : Attrs) (kids : List Box) : Bool :=
  kids.all (fun c => !(c.ty == .inline && c.a.running))

/-! ### the invariant -/

/-- head condition (depends only on `ty` and `a`): not a running line box -/
def CHead (x : Box) : Prop := (x.ty == .line) = true → x.a.running = false

/-- the tree predicate below the box -/
def CAll (x : Box) : Prop := allN linesNotRunning x = true

def CK (x : Box) : Prop := CHead x ∧ CAll x

theorem CAll_mk (ty : Ty) (a : Attrs) (kids cols : List Box) (hr : a.running = false)
    (hk : ∀ k ∈ kids, CK k) : CAll (.mk ty a kids cols) := by
  unfold CAll
  rw [allN_mk, hr, Bool.false_or, Bool.and_eq_true]
  refine ⟨?_, ?_⟩
  · simp only [linesNotRunning, List.all_eq_true]
    intro k hk'
    cases hl : (k.ty == Ty.line) with
    | false => simp
    | true => have := (hk k hk').1 hl; simp [this]
  · rw [allNList_iff]; exact fun k hk' => (hk k hk').2

theorem CK_lineBox (pa : Attrs) (line : List Box) (hl : ∀ l ∈ line, CK l) : CK (lineBox pa line) :=
  ⟨fun _ => rfl, CAll_mk _ _ _ _ rfl hl⟩

theorem CK_anonBlock (pa : Attrs) (line : List Box) (hl : ∀ l ∈ line, CK l) :
    CK (anonBlock pa [lineBox pa line]) := by
  refine ⟨fun _ => rfl, CAll_mk _ _ _ _ rfl ?_⟩
  intro k hk
  rw [List.mem_singleton] at hk; subst hk
  exact CK_lineBox pa line hl

/-! ### the second loop -/

theorem iibLoop_CK (pa : Attrs) : ∀ (cs line out r : List Box),
    (∀ c ∈ cs, CK c) → (∀ o ∈ out, CK o) → (∀ l ∈ line, CK l) →
    iibLoop pa cs line out = .ok r → ∀ o ∈ r, CK o
  | [], line, out, r, _, ho, hl, he => by
    rw [iibLoop] at he
    cases hline : line.isEmpty
    · cases hout : out.isEmpty
      · simp [hline, hout, pure, Except.pure] at he
        subst he
        intro o hm
        rcases List.mem_append.1 hm with hm | hm
        · exact ho o hm
        · rw [List.mem_singleton] at hm; subst hm; exact CK_anonBlock pa line hl
      · simp [hline, hout, pure, Except.pure] at he
        subst he
        intro o hm
        rw [List.mem_singleton] at hm; subst hm; exact CK_lineBox pa line hl
    · simp [hline, pure, Except.pure] at he
      subst he; exact ho
  | c :: cs, line, out, r, hc, ho, hl, he => by
    have hc0 := hc c (List.mem_cons_self ..)
    have hcs : ∀ c' ∈ cs, CK c' := fun c' h' => hc c' (List.mem_cons_of_mem _ h')
    have hl' : ∀ l ∈ line ++ [c], CK l := by
      intro l hm
      rcases List.mem_append.1 hm with hm | hm
      · exact hl l hm
      · rw [List.mem_singleton] at hm; subst hm; exact hc0
    rw [iibLoop] at he
    split at he
    · simp [throw, throwThe, MonadExceptOf.throw] at he
    · split at he
      · exact iibLoop_CK pa cs _ _ r hcs ho hl' he
      · split at he
        · split at he
          · exact iibLoop_CK pa cs _ _ r hcs ho hl' he
          · exact iibLoop_CK pa cs _ _ r hcs ho hl he
        · refine iibLoop_CK pa cs _ _ r hcs ?_ ?_ he
          · intro o hm
            rcases List.mem_append.1 hm with hm | hm
            · split at hm
              · rcases List.mem_append.1 hm with hm | hm
                · exact ho o hm
                · rw [List.mem_singleton] at hm; subst hm; exact CK_anonBlock pa line hl
              · exact ho o hm
            · rw [List.mem_singleton] at hm; subst hm; exact hc0
          · intro l hm; cases hm

/-! ### the pass -/

mutual
  theorem iib_CAll_aux : ∀ (b b' : Box), allN preIIB b = true →
      inlineInBlock b = .ok b' → b'.ty = b.ty ∧ b'.a = b.a ∧ CAll b'
    | .mk ty a kids cols, b', h, hb => by
      rw [inlineInBlock] at hb
      rw [allN_mk] at h
      cases hr : a.running
      · rw [hr] at h hb
        simp only [Bool.false_or, Bool.and_eq_true] at h
        cases kids with
        | nil =>
          simp [pure, Except.pure] at hb
          subst hb
          exact ⟨rfl, rfl, CAll_mk _ _ _ _ hr (fun _ h => nomatch h)⟩
        | cons k0 kt =>
          simp only [List.isEmpty_cons, Bool.or_false, Bool.false_eq_true, if_false] at hb
          cases hl : inlineInBlockList (k0 :: kt) with
          | error e => simp [hl, bind, Except.bind] at hb
          | ok ks =>
            have hH : ∀ k ∈ k0 :: kt, CHead k := by
              intro k hk
              have h1 := (preIIB_kids h.1).1 k hk
              exact fun hl => absurd (eq_of_beq hl) h1
            have hK := iibList_CK_aux (k0 :: kt) ks h.2 hH hl
            cases hbc : isBlockContainer ty
            · simp only [hl, hbc, bind, Except.bind, pure, Except.pure, Bool.not_false, if_true] at hb
              injection hb with hb
              subst hb
              exact ⟨rfl, rfl, CAll_mk _ _ _ _ hr hK⟩
            · cases hloop : iibLoop a ks [] [] with
              | error e =>
                simp only [hl, hbc, hloop, bind, Except.bind, pure, Except.pure, Bool.not_true,
                  Bool.false_eq_true, if_false] at hb
                cases hb
              | ok r =>
                simp only [hl, hbc, hloop, bind, Except.bind, pure, Except.pure, Bool.not_true,
                  Bool.false_eq_true, if_false] at hb
                injection hb with hb
                subst hb
                exact ⟨rfl, rfl, CAll_mk _ _ _ _ hr
                  (iibLoop_CK a ks [] [] r hK (fun _ h => nomatch h) (fun _ h => nomatch h) hloop)⟩
      · rw [hr] at hb
        simp [pure, Except.pure] at hb
        subst hb
        exact ⟨rfl, rfl, by simp [CAll, allN_mk, hr]⟩
  theorem iibList_CK_aux : ∀ (ks ks' : List Box), allNList preIIB ks = true →
      (∀ k ∈ ks, CHead k) →
      inlineInBlockList ks = .ok ks' → ∀ k' ∈ ks', CK k'
    | [], ks', _, _, he => by
      rw [inlineInBlockList] at he
      simp [pure, Except.pure] at he
      subst he
      exact fun _ h => nomatch h
    | k :: ks, ks', h, hH, he => by
      rw [allNList, Bool.and_eq_true] at h
      rw [inlineInBlockList] at he
      split at he
      · exact iibList_CK_aux ks ks' h.2 (fun x hx => hH x (List.mem_cons_of_mem _ hx)) he
      · cases h1 : inlineInBlock k with
        | error e => simp [h1, bind, Except.bind] at he
        | ok k' =>
          cases h2 : inlineInBlockList ks with
          | error e => simp [h1, h2, bind, Except.bind] at he
          | ok kt' =>
            simp [h1, h2, bind, Except.bind, pure, Except.pure] at he
            subst he
            obtain ⟨hty, ha, hA⟩ := iib_CAll_aux k k' h.1 h1
            have ih := iibList_CK_aux ks kt' h.2
              (fun x hx => hH x (List.mem_cons_of_mem _ hx)) h2
            intro x hx
            rcases List.mem_cons.1 hx with rfl | hx
            · have := hH k (List.mem_cons_self ..)
              exact ⟨by unfold CHead; rw [hty, ha]; exact this, hA⟩
            · exact ih x hx
end

/-- item 1 (full version), with the extra facts that the pass keeps `ty`/`a` of the root -/
theorem inlineInBlock_lines_strong (b b' : Box) (h : allN preIIB b = true)
    (hb : inlineInBlock b = .ok b') :
    b'.ty = b.ty ∧ b'.a = b.a ∧ allN linesNotRunning b' = true :=
  iib_CAll_aux b b' h hb

/-- item 1: after InlineInBlock no line box is running -/
theorem inlineInBlock_lines (b b' : Box) (h : allN preIIB b = true)
    (hb : inlineInBlock b = .ok b') : allN linesNotRunning b' = true :=
  (iib_CAll_aux b b' h hb).2.2

/-- item 2: the two inline passes never fail on a tree of shape `preIIB`, keep the root's type and
    attributes, and establish `bcOK` and `linesCleanR` (`linesClean` with running inline boxes opaque) -/
theorem inline_passes_wf (g : Box) (h : allN preIIB g = true) :
    ∃ i o, inlineInBlock g = .ok i ∧ blockInInline i = .ok o ∧ o.ty = g.ty ∧ o.a = g.a ∧
      allN bcOK o = true ∧ allN linesCleanR o = true := by
  obtain ⟨i, hi, hty, ha, hbc, hla⟩ := inlineInBlock_wf g h
  have hnr := inlineInBlock_lines g i h hi
  obtain ⟨o, ho, hty', ha'⟩ := blockInInline_total' i hla hnr
  exact ⟨i, o, hi, ho, hty'.trans hty, ha'.trans ha,
    blockInInline_bcOK i o ho hbc hla hnr, blockInInline_linesClean' i o ho hla hnr⟩

/-! ### non-vacuity -/

/-- a block containing an inline box that contains text "a", a block with text "c", and text "b" -/
def exCompose : Box :=
  .mk .block {} [
    .mk .inline {} [
      .mk .text { text := "a" } [] [],
      .mk .block {} [.mk .text { text := "c" } [] []] [],
      .mk .text { text := "b" } [] []] []] []

example : allN preIIB exCompose = true := by decide

/-- the block is lifted out of the inline box: anonymous block / block / anonymous block -/
example : ∃ i o, inlineInBlock exCompose = .ok i ∧ blockInInline i = .ok o ∧
    allN bcOK o = true ∧ allN linesCleanR o = true ∧ allN linesClean o = true ∧
    (o.kids.map Box.ty) = [.block, .block, .block] :=
  ⟨_, _, rfl, rfl, by decide, by decide, by decide, by decide⟩

end WR.C09
