import WR.C09.LemmasCompose
import WR.C09.Shape2
/-
  C09 — the two inline passes on the full node predicate: from the shape `postGrid` (after the table,
  flex and grid passes; traversal through kids and cols) `inlineInBlock` establishes `postIIB` and then
  `blockInInline` establishes `nodeOKw` (= `nodeOK` with the weakened grid clause) at every box.
  * (a)/(b) type analysis: `pi_kids_level`, `pi_inline_parent`, `pi_passes_ok`;
  * `inlineInBlock_postIIB`, `blockInInline_nodeOKw`, `inlinePasses_wfw` (root not an inline box),
    `inlinePasses_wfw_blockLevel`;
  * `pi_inline_root_counterexample`: without the root hypothesis the combined statement is false.
-/
namespace WR.C09

/-! ### `allW` plumbing -/

theorem pi_allW_mk (p : Ty → Attrs → List Box → List Box → Bool) (ty : Ty) (a : Attrs) (kids cols : List Box) :
    allW p (.mk ty a kids cols) = (a.running || (p ty a kids cols && allWList p kids && allWList p cols)) := by
  rw [allW]

theorem pi_allWList_iff (p : Ty → Attrs → List Box → List Box → Bool) :
    ∀ ks : List Box, allWList p ks = true ↔ ∀ k ∈ ks, allW p k = true
  | [] => by simp [allWList]
  | k :: ks => by simp [allWList, pi_allWList_iff p ks]

theorem pi_allW_unfold (p : Ty → Attrs → List Box → List Box → Bool) (ty : Ty) (a : Attrs) (kids cols : List Box)
    (hr : a.running = false) (h : allW p (.mk ty a kids cols) = true) :
    p ty a kids cols = true ∧ allWList p kids = true ∧ allWList p cols = true := by
  rw [pi_allW_mk, hr, Bool.false_or, Bool.and_eq_true, Bool.and_eq_true] at h
  exact ⟨h.1.1, h.1.2, h.2⟩

theorem pi_allW_intro (p : Ty → Attrs → List Box → List Box → Bool) (ty : Ty) (a : Attrs) (kids cols : List Box)
    (h1 : p ty a kids cols = true) (h2 : allWList p kids = true) (h3 : allWList p cols = true) :
    allW p (.mk ty a kids cols) = true := by
  rw [pi_allW_mk, h1, h2, h3]; simp

theorem pi_allW_running (p : Ty → Attrs → List Box → List Box → Bool) (ty : Ty) (a : Attrs) (kids cols : List Box)
    (hr : a.running = true) : allW p (.mk ty a kids cols) = true := by
  rw [pi_allW_mk, hr]; rfl

mutual
  theorem pi_allW_mono (p q : Ty → Attrs → List Box → List Box → Bool)
      (hpq : ∀ ty a k c, p ty a k c = true → q ty a k c = true) :
      (b : Box) → allW p b = true → allW q b = true
    | .mk ty a kids cols, h => by
      cases hr : a.running with
      | true => exact pi_allW_running q ty a kids cols hr
      | false =>
        obtain ⟨h1, h2, h3⟩ := pi_allW_unfold p ty a kids cols hr h
        exact pi_allW_intro q ty a kids cols (hpq _ _ _ _ h1) (pi_allWList_mono p q hpq kids h2)
          (pi_allWList_mono p q hpq cols h3)
  theorem pi_allWList_mono (p q : Ty → Attrs → List Box → List Box → Bool)
      (hpq : ∀ ty a k c, p ty a k c = true → q ty a k c = true) :
      (ks : List Box) → allWList p ks = true → allWList q ks = true
    | [], _ => by rw [allWList]
    | k :: ks, h => by
      rw [allWList, Bool.and_eq_true] at h
      rw [allWList, pi_allW_mono p q hpq k h.1, pi_allWList_mono p q hpq ks h.2]; rfl
end

mutual
  /-- `allN` visits a subset of the boxes `allW` visits -/
  theorem pi_allN_of_allW (p : Ty → Attrs → List Box → Bool) (q : Ty → Attrs → List Box → List Box → Bool)
      (hpq : ∀ ty a k c, q ty a k c = true → p ty a k = true) :
      (b : Box) → allW q b = true → allN p b = true
    | .mk ty a kids cols, h => by
      cases hr : a.running with
      | true => rw [allN, hr]; rfl
      | false =>
        obtain ⟨h1, h2, _⟩ := pi_allW_unfold q ty a kids cols hr h
        rw [allN, hpq _ _ _ _ h1, pi_allNList_of_allW p q hpq kids h2]; simp
  theorem pi_allNList_of_allW (p : Ty → Attrs → List Box → Bool) (q : Ty → Attrs → List Box → List Box → Bool)
      (hpq : ∀ ty a k c, q ty a k c = true → p ty a k = true) :
      (ks : List Box) → allWList q ks = true → allNList p ks = true
    | [], _ => by rw [allNList]
    | k :: ks, h => by
      rw [allWList, Bool.and_eq_true] at h
      rw [allNList, pi_allN_of_allW p q hpq k h.1, pi_allNList_of_allW p q hpq ks h.2]; rfl
end

/-! ### (a), (b): type analysis from `postGrid` -/

/-- a box that may be a child of any parent: depends on the type and the running flag only -/
def pi_freeT (t : Ty) (r : Bool) : Bool :=
  match t with
  | .line | .tableCaption | .tableRowGroup | .tableRow | .tableCell | .tableColumn | .tableColumnGroup => false
  | .table | .inlineTable => r
  | _ => true

def pi_free (c : Box) : Bool := pi_freeT c.ty c.a.running

theorem pi_free_allowed (pty : Ty) (pa : Attrs) (c : Box) (h : pi_free c = true) :
    childAllowed pty pa c = true := by
  unfold pi_free pi_freeT at h
  unfold childAllowed
  cases hc : c.ty <;> simp_all

/-- under a parent that is no wrapper, table, row group, row or column group an allowed child that
    is not a line box is allowed everywhere -/
theorem pi_free_of_allowed (pty : Ty) (pa : Attrs) (c : Box) (h : childAllowed pty pa c = true)
    (htw : pa.tw = false) (h1 : isTable pty = false) (h2 : (pty == .tableRowGroup) = false)
    (h3 : (pty == .tableRow) = false) (h4 : (pty == .tableColumnGroup) = false)
    (hl : (c.ty == .line) = false) : pi_free c = true := by
  unfold childAllowed at h
  unfold pi_free pi_freeT
  cases hc : c.ty <;> simp_all

theorem pi_level_of_free (c : Box) (h : pi_free c = true) (hr : rawTy c.ty = true) :
    isBlockLevel c.ty = true ∨ isInlineLevel c.ty = true := by
  unfold pi_free pi_freeT at h
  unfold rawTy at hr
  cases hc : c.ty <;> simp_all [isCls]

theorem pi_bc_plain (ty : Ty) (h : isBlockContainer ty = true ∨ ty = .inline ∨ ty = .line) :
    isTable ty = false ∧ (ty == .tableRowGroup) = false ∧ (ty == .tableRow) = false ∧
    (ty == .tableColumnGroup) = false ∧ isFlexContainer ty = false ∧ isGridContainer ty = false := by
  cases ty <;> simp_all [isCls]

/-- the clauses of `postGrid` -/
theorem pi_postGrid_iff (ty : Ty) (a : Attrs) (kids cols : List Box) :
    postGrid ty a kids cols = true ↔
      rawTy ty = true ∧ (isParent ty || kids.isEmpty) = true ∧
      (∀ c ∈ kids, rawTy c.ty = true) ∧
      (∀ c ∈ kids, childAllowed ty a c = true) ∧ tableKidsOK ty a kids cols = true ∧
      gridOKw ty kids = true ∧ ((ty == .tableColumn) = true → kids = []) ∧ flexGridOK ty kids = true := by
  simp only [postGrid, postTable, Bool.and_eq_true, List.all_eq_true, Bool.or_eq_true, Bool.not_eq_true',
    List.isEmpty_iff]
  constructor
  · rintro ⟨⟨⟨⟨⟨⟨⟨h1, h2⟩, h3⟩, h4⟩, h5⟩, h6⟩, h7⟩, h8⟩
    refine ⟨h1, h2, h3, h4, h5, h6, fun e => ?_, h8⟩
    rcases h7 with h | h
    · rw [e] at h; cases h
    · exact h
  · rintro ⟨h1, h2, h3, h4, h5, h6, h7, h8⟩
    refine ⟨⟨⟨⟨⟨⟨⟨h1, h2⟩, h3⟩, h4⟩, h5⟩, h6⟩, ?_⟩, h8⟩
    cases e : (ty == Ty.tableColumn) with
    | true => exact Or.inr (h7 e)
    | false => exact Or.inl rfl

theorem pi_tko_tw (ty : Ty) (a : Attrs) (kids cols : List Box) (h : tableKidsOK ty a kids cols = true)
    (htw : a.tw = true) :
    (ty = .block ∨ ty = .inlineBlock) ∧ ∀ c ∈ kids, c.ty = .tableCaption ∨ isTable c.ty = true := by
  simp only [tableKidsOK, htw, Bool.not_true, Bool.false_or, Bool.and_eq_true, Bool.or_eq_true,
    List.all_eq_true, beq_iff_eq] at h
  exact ⟨h.1.1.1.1.1.1.1, h.1.1.1.1.1.1.2⟩

/-- (a) at a block container or inline box every child is block-level or inline-level -/
theorem pi_kids_level (ty : Ty) (a : Attrs) (kids cols : List Box) (h : postGrid ty a kids cols = true)
    (hty : isBlockContainer ty = true ∨ ty = .inline) :
    ∀ k ∈ kids, isBlockLevel k.ty = true ∨ isInlineLevel k.ty = true := by
  obtain ⟨_, _, h3, h4, h5, _, _, _⟩ := (pi_postGrid_iff ty a kids cols).1 h
  intro k hk
  cases htw : a.tw with
  | true =>
    rcases (pi_tko_tw ty a kids cols h5 htw).2 k hk with e | e
    · left; rw [e]; rfl
    · left; cases hc : k.ty <;> simp_all [isCls]
  | false =>
    have hp := pi_bc_plain ty (by rcases hty with h | h; exact Or.inl h; exact Or.inr (Or.inl h))
    have hl : (k.ty == .line) = false := by
      have := h3 k hk
      unfold rawTy at this
      cases hc : k.ty <;> simp_all
    exact pi_level_of_free k (pi_free_of_allowed ty a k (h4 k hk) htw hp.1 hp.2.1 hp.2.2.1 hp.2.2.2.1 hl)
      (h3 k hk)

/-- (b) an inline box is a child of a block container or of an inline box only -/
theorem pi_inline_parent (ty : Ty) (a : Attrs) (kids cols : List Box) (h : postGrid ty a kids cols = true)
    (k : Box) (hk : k ∈ kids) (hi : k.ty = .inline) : isBlockContainer ty = true ∨ ty = .inline := by
  obtain ⟨h1, h2, _, _, h5, _, h7, h8⟩ := (pi_postGrid_iff ty a kids cols).1 h
  have hne : kids ≠ [] := by intro e; rw [e] at hk; cases hk
  have hne' : kids.isEmpty = false := by cases kids with | nil => exact absurd rfl hne | cons _ _ => rfl
  simp only [flexGridOK, Bool.or_eq_true, Bool.not_eq_true', List.all_eq_true] at h8
  simp only [tableKidsOK, Bool.and_eq_true, Bool.or_eq_true, Bool.not_eq_true', List.all_eq_true,
    beq_iff_eq] at h5
  obtain ⟨⟨⟨⟨⟨_, t2⟩, t3⟩, t4⟩, t5⟩, _⟩ := h5
  have g8 := fun hh => (h8.resolve_left hh) k hk
  have g2 := fun hh => ((t2.resolve_left hh).1) k hk
  have g3 := fun hh => (t3.resolve_left hh) k hk
  have g4 := fun hh => (t4.resolve_left hh) k hk
  have g5 := fun hh => (t5.resolve_left hh) k hk
  rw [hi] at g8 g2 g3 g4 g5
  rw [hne'] at h2
  unfold rawTy at h1
  cases ty <;> simp_all [isCls]

theorem pi_preIIB_of_postGrid (ty : Ty) (a : Attrs) (kids cols : List Box)
    (h : postGrid ty a kids cols = true) : preIIB ty a kids = true := by
  obtain ⟨_, _, h3, _, _, _, _, _⟩ := (pi_postGrid_iff ty a kids cols).1 h
  simp only [preIIB, Bool.and_eq_true, List.all_eq_true, Bool.or_eq_true, Bool.not_eq_true']
  refine ⟨fun c hc => ?_, ?_⟩
  · have := h3 c hc
    unfold rawTy at this
    cases hc : c.ty <;> simp_all
  · cases hb : isBlockContainer ty with
    | false => exact Or.inl rfl
    | true => exact Or.inr (pi_kids_level ty a kids cols h (Or.inl hb))

/-- (a) both inline passes succeed on a `postGrid` tree -/
theorem pi_passes_ok (g : Box) (h : allW postGrid g = true) :
    ∃ i o, inlineInBlock g = .ok i ∧ blockInInline i = .ok o ∧ o.ty = g.ty ∧ o.a = g.a ∧
      allN bcOK o = true ∧ allN linesCleanR o = true :=
  inline_passes_wf g (pi_allN_of_allW preIIB postGrid pi_preIIB_of_postGrid g h)

/-! ### congruence of the node clauses -/

/-- children lists related by a pass: every new child has the type and attributes of an old one -/
abbrev pi_Sub (ks ks' : List Box) : Prop := ∀ k' ∈ ks', ∃ k ∈ ks, k'.ty = k.ty ∧ k'.a = k.a

theorem pi_all_sub (P : Box → Bool) (hP : ∀ k k' : Box, k'.ty = k.ty → k'.a = k.a → P k = true → P k' = true)
    (ks ks' : List Box) (hs : pi_Sub ks ks') (h : ks.all P = true) : ks'.all P = true := by
  rw [List.all_eq_true] at h ⊢
  intro k' hk'
  obtain ⟨k, hk, e1, e2⟩ := hs k' hk'
  exact hP k k' e1 e2 (h k hk)

theorem pi_ca_congr (ty : Ty) (a : Attrs) (k k' : Box) (e1 : k'.ty = k.ty) (e2 : k'.a = k.a) :
    childAllowed ty a k' = childAllowed ty a k := by
  unfold childAllowed; rw [e1, e2]

theorem pi_free_congr (k k' : Box) (e1 : k'.ty = k.ty) (e2 : k'.a = k.a) : pi_free k' = pi_free k := by
  unfold pi_free; rw [e1, e2]

theorem pi_all_ty (f : Ty → Bool) (ks : List Box) : ks.all (fun c => f c.ty) = (ks.map Box.ty).all f := by
  induction ks with
  | nil => rfl
  | cons k ks ih => simp only [List.all_cons, List.map_cons, ih]

theorem pi_all_congr (f : Ty → Bool) (ks ks' : List Box) (h : ks'.map Box.ty = ks.map Box.ty) :
    ks'.all (fun c => f c.ty) = ks.all (fun c => f c.ty) := by
  rw [pi_all_ty, pi_all_ty, h]

theorem pi_filter_congr (f : Ty → Bool) (ks ks' : List Box) (h : ks'.map Box.ty = ks.map Box.ty) :
    (ks'.filter (fun c => f c.ty)).length = (ks.filter (fun c => f c.ty)).length := by
  have e : ∀ l : List Box, (l.filter (fun c => f c.ty)).length = ((l.map Box.ty).filter f).length := by
    intro l
    induction l with
    | nil => rfl
    | cons k l ih =>
      simp only [List.filter_cons, List.map_cons]
      split <;> simp [ih]
  rw [e, e, h]

/-- `tableKidsOK` reads the children through their types only -/
theorem pi_tko_congr (ty : Ty) (a : Attrs) (ks ks' cols : List Box) (h : ks'.map Box.ty = ks.map Box.ty) :
    tableKidsOK ty a ks' cols = tableKidsOK ty a ks cols := by
  have e1 := pi_all_congr (fun t => t == .tableCaption || isTable t) ks ks' h
  have e2 := pi_filter_congr (fun t => isTable t) ks ks' h
  have e3 := pi_all_congr (fun t => t == .tableRowGroup) ks ks' h
  have e4 := pi_all_congr (fun t => t == .tableRow) ks ks' h
  have e5 := pi_all_congr (fun t => t == .tableCell) ks ks' h
  have e6 := pi_all_congr (fun t => t == .tableColumn) ks ks' h
  unfold tableKidsOK
  rw [e1, e2, e3, e4, e5, e6]

/-- without the wrapper flag and at a type outside the table model `tableKidsOK` does not look at the children -/
theorem pi_tko_plain (ty : Ty) (a : Attrs) (ks cols : List Box) (htw : a.tw = false)
    (h1 : isTable ty = false) (h2 : (ty == .tableRowGroup) = false) (h3 : (ty == .tableRow) = false)
    (h4 : (ty == .tableColumnGroup) = false) : tableKidsOK ty a ks cols = cols.isEmpty := by
  unfold tableKidsOK
  rw [htw, h1, h2, h3, h4]; simp

/-- without the wrapper flag `tableKidsOK` survives dropping children -/
theorem pi_tko_sub (ty : Ty) (a : Attrs) (ks ks' cols : List Box) (htw : a.tw = false)
    (hs : pi_Sub ks ks') (h : tableKidsOK ty a ks cols = true) : tableKidsOK ty a ks' cols = true := by
  have g : ∀ f : Ty → Bool, ks.all (fun c => f c.ty) = true → ks'.all (fun c => f c.ty) = true :=
    fun f => pi_all_sub (fun c => f c.ty) (fun k k' e1 _ hk => by simp only [e1]; exact hk) ks ks' hs
  unfold tableKidsOK at h ⊢
  rw [htw] at h ⊢
  simp only [Bool.not_false, Bool.true_or, Bool.true_and, Bool.and_eq_true, Bool.or_eq_true] at h ⊢
  obtain ⟨⟨⟨⟨t2, t3⟩, t4⟩, t5⟩, t6⟩ := h
  refine ⟨⟨⟨⟨?_, ?_⟩, ?_⟩, ?_⟩, t6⟩
  · rcases t2 with t | t
    · exact Or.inl t
    · exact Or.inr ⟨g (fun t => t == .tableRowGroup) t.1, t.2⟩
  · rcases t3 with t | t
    · exact Or.inl t
    · exact Or.inr (g (fun t => t == .tableRow) t)
  · rcases t4 with t | t
    · exact Or.inl t
    · exact Or.inr (g (fun t => t == .tableCell) t)
  · rcases t5 with t | t
    · exact Or.inl t
    · exact Or.inr (g (fun t => t == .tableColumn) t)

/-! #### the grid clause reads a row group through `(row.a.running, row.kids.map (·.a))` only -/

/-- what the grid clauses see of a row -/
def pi_sig (row : Box) : List Attrs := (rowCells row).map Box.a

/-- the same for rows, and nothing for other boxes -/
def pi_sigR (b : Box) : List Attrs := if b.ty == .tableRow then pi_sig b else []

def pi_cellSlotsA (r : Nat) (x : Attrs) : List (Nat × Nat) :=
  (List.range' r x.rowspan).flatMap fun y => (List.range' x.gridX x.colspan).map fun x' => (y, x')

theorem pi_flatMap_a {β : Type} (g : Attrs → List β) (l : List Box) :
    l.flatMap (fun c => g c.a) = (l.map Box.a).flatMap g := by
  rw [List.flatMap_map]

theorem pi_all_a (g : Attrs → Bool) (l : List Box) : l.all (fun c => g c.a) = (l.map Box.a).all g := by
  induction l with
  | nil => rfl
  | cons k ks ih => simp only [List.all_cons, List.map_cons, ih]

theorem pi_rowSlots_sig (r : Nat) (row : Box) : rowSlots r row = (pi_sig row).flatMap (pi_cellSlotsA r) := by
  unfold rowSlots pi_sig
  rw [← pi_flatMap_a]; rfl

theorem pi_gs_congr : ∀ (ks ks' : List Box) (r : Nat), ks'.map pi_sig = ks.map pi_sig →
    groupSlotsFrom r ks' = groupSlotsFrom r ks
  | [], [], _, _ => rfl
  | [], _ :: _, _, h => by simp at h
  | _ :: _, [], _, h => by simp at h
  | k :: ks, k' :: ks', r, h => by
    simp only [List.map_cons, List.cons.injEq] at h
    rw [groupSlotsFrom, groupSlotsFrom, pi_rowSlots_sig, pi_rowSlots_sig, h.1, pi_gs_congr ks ks' (r + 1) h.2]

theorem pi_go_congr (all : List (Nat × Nat)) : ∀ (ks ks' : List Box) (r : Nat), ks'.map pi_sig = ks.map pi_sig →
    firstSlotsOK.go all r ks' = firstSlotsOK.go all r ks
  | [], [], _, _ => rfl
  | [], _ :: _, _, h => by simp at h
  | _ :: _, [], _, h => by simp at h
  | k :: ks, k' :: ks', r, h => by
    simp only [List.map_cons, List.cons.injEq] at h
    have e1 : ∀ row : Box, (rowCells row).all (fun c => c.a.rowspan == 0 || c.a.colspan == 0 ||
        (all.filter (· == (r, c.a.gridX))).length == 1) =
        (pi_sig row).all (fun x => x.rowspan == 0 || x.colspan == 0 || (all.filter (· == (r, x.gridX))).length == 1) :=
      fun row => pi_all_a (fun x => x.rowspan == 0 || x.colspan == 0 || (all.filter (· == (r, x.gridX))).length == 1) _
    have e2 : ∀ row : Box, ((rowCells row).flatMap fun c => (List.range' c.a.gridX c.a.colspan).map fun x => (r, x)) =
        (pi_sig row).flatMap (fun y => (List.range' y.gridX y.colspan).map fun x => (r, x)) :=
      fun row => pi_flatMap_a (fun y => (List.range' y.gridX y.colspan).map fun x => (r, x)) _
    rw [firstSlotsOK.go, firstSlotsOK.go, e1, e1, e2, e2, h.1, pi_go_congr all ks ks' (r + 1) h.2]

theorem pi_gridOKw_congr (ty : Ty) (ks ks' : List Box) (h : ks'.map pi_sig = ks.map pi_sig) :
    gridOKw ty ks' = gridOKw ty ks := by
  have hl : ks'.length = ks.length := by
    have := congrArg List.length h
    simpa using this
  have e3 : ∀ l : List Box, l.all (fun row => (rowCells row).all (fun c => decide (c.a.colspan ≥ 1) && decide (c.a.rowspan ≥ 1))) =
      (l.map pi_sig).all (fun s => s.all (fun x => decide (x.colspan ≥ 1) && decide (x.rowspan ≥ 1))) := by
    intro l
    induction l with
    | nil => rfl
    | cons k l ih =>
      simp only [List.all_cons, List.map_cons, ih]
      rw [pi_all_a (fun x => decide (x.colspan ≥ 1) && decide (x.rowspan ≥ 1))]; rfl
  unfold gridOKw firstSlotsOK
  simp only
  rw [pi_gs_congr ks ks' 0 h, pi_go_congr _ ks ks' 0 h, hl, e3, e3, h]

theorem pi_sigR_rows (ks : List Box) (h : ∀ k ∈ ks, k.ty = .tableRow) : ks.map pi_sigR = ks.map pi_sig := by
  apply List.map_congr_left
  intro k hk
  simp [pi_sigR, h k hk]

/-! ### (e) the column groups stored in `cols` -/

theorem pi_tko_cols (ty : Ty) (a : Attrs) (kids cols : List Box) (h : tableKidsOK ty a kids cols = true) :
    (isTable ty = true ∨ cols = []) ∧ (∀ g ∈ cols, g.ty = .tableColumnGroup) ∧
    (ty = .tableColumnGroup → ∀ c ∈ kids, c.ty = .tableColumn) := by
  simp only [tableKidsOK, Bool.and_eq_true, Bool.or_eq_true, Bool.not_eq_true', List.all_eq_true,
    beq_iff_eq, List.isEmpty_iff] at h
  obtain ⟨⟨⟨⟨⟨_, t2⟩, _⟩, _⟩, t5⟩, t6⟩ := h
  refine ⟨t6, fun g hg => ?_, fun e => ?_⟩
  · rcases t6 with t | t
    · rcases t2 with t' | t'
      · rw [t] at t'; cases t'
      · exact (t'.2 g hg).1
    · rw [t] at hg; cases hg
  · rcases t5 with t | t
    · rw [e] at t; cases t
    · exact t

/-- the shape of the boxes below `cols`: column groups holding columns, columns holding nothing -/
def pi_colsShape (ty : Ty) (kids cols : List Box) : Bool :=
  ((ty == .tableColumnGroup && kids.all (fun c => c.ty == .tableColumn)) || (ty == .tableColumn && kids.isEmpty)) &&
  cols.isEmpty

theorem pi_cols_lift (p q : Ty → Attrs → List Box → List Box → Bool)
    (hp : ∀ ty a k c, p ty a k c = true → tableKidsOK ty a k c = true ∧ ((ty == .tableColumn) = true → k = []))
    (hq : ∀ ty a k c, p ty a k c = true → pi_colsShape ty k c = true → q ty a k c = true)
    (ty : Ty) (a : Attrs) (kids cols : List Box) (h : tableKidsOK ty a kids cols = true)
    (hc : allWList p cols = true) : allWList q cols = true := by
  rw [pi_allWList_iff] at hc ⊢
  intro g hg
  have hgty := (pi_tko_cols ty a kids cols h).2.1 g hg
  have hpg := hc g hg
  cases g with
  | mk gty ga gk gc =>
    simp only [Box.ty] at hgty
    subst hgty
    cases hr : ga.running with
    | true => exact pi_allW_running q _ _ _ _ hr
    | false =>
      obtain ⟨p1, p2, _⟩ := pi_allW_unfold p _ _ _ _ hr hpg
      obtain ⟨c1, _, c3⟩ := pi_tko_cols _ _ _ _ (hp _ _ _ _ p1).1
      have hgc : gc = [] := by
        rcases c1 with c | c
        · cases c
        · exact c
      subst hgc
      have hk := c3 rfl
      refine pi_allW_intro q _ _ _ _ (hq _ _ _ _ p1 ?_) ?_ (by rw [allWList])
      · simp only [pi_colsShape, beq_self_eq_true, Bool.true_and, List.isEmpty_nil, Bool.and_true,
          Bool.or_eq_true, List.all_eq_true, beq_iff_eq]
        exact Or.inl hk
      · rw [pi_allWList_iff] at p2 ⊢
        intro k hkm
        have hkty := hk k hkm
        have hpk := p2 k hkm
        cases k with
        | mk kty ka kk kc =>
          simp only [Box.ty] at hkty
          subst hkty
          cases hr' : ka.running with
          | true => exact pi_allW_running q _ _ _ _ hr'
          | false =>
            obtain ⟨r1, _, _⟩ := pi_allW_unfold p _ _ _ _ hr' hpk
            have hkk : kk = [] := (hp _ _ _ _ r1).2 rfl
            have hkc : kc = [] := by
              rcases (pi_tko_cols _ _ _ _ (hp _ _ _ _ r1).1).1 with c | c
              · cases c
              · exact c
            subst hkk; subst hkc
            exact pi_allW_intro q _ _ _ _ (hq _ _ _ _ r1 (by simp [pi_colsShape])) (by rw [allWList])
              (by rw [allWList])

/-! ### the shape after InlineInBlock -/

/-- a child has a raw type or is a line box, and is no running line box (a running inline box is allowed:
    the passes treat it as opaque) -/
def pi_kidShape (c : Box) : Bool :=
  (rawTy c.ty || c.ty == .line) && !(c.ty == .line && c.a.running)

/-- what InlineInBlock establishes at every box: the block-container clause, the flex/grid clause, the
    table-model clauses; children have raw types or are (non-running) line boxes; inline boxes
    (running or not) sit in line boxes or inline boxes only; the children of a line box are inline-level
    or out of flow; columns are empty. -/
def postIIB (ty : Ty) (a : Attrs) (kids cols : List Box) : Bool :=
  blockContainerOK ty kids && flexGridOK ty kids &&
  kids.all (childAllowed ty a) && tableKidsOK ty a kids cols && gridOKw ty kids &&
  (isParent ty || kids.isEmpty) &&
  kids.all pi_kidShape &&
  (ty == .line || ty == .inline || kids.all (fun c => !(c.ty == .inline))) &&
  (!(ty == .line) || kids.all (fun c => isInlineLevel c.ty || !inNormalFlow c.a)) &&
  (!(ty == .tableColumn) || kids.isEmpty)

theorem pi_postIIB_iff (ty : Ty) (a : Attrs) (kids cols : List Box) :
    postIIB ty a kids cols = true ↔
      blockContainerOK ty kids = true ∧ flexGridOK ty kids = true ∧
      kids.all (childAllowed ty a) = true ∧ tableKidsOK ty a kids cols = true ∧ gridOKw ty kids = true ∧
      (isParent ty || kids.isEmpty) = true ∧ kids.all pi_kidShape = true ∧
      (ty == .line || ty == .inline || kids.all (fun c => !(c.ty == .inline))) = true ∧
      (!(ty == .line) || kids.all (fun c => isInlineLevel c.ty || !inNormalFlow c.a)) = true ∧
      (!(ty == .tableColumn) || kids.isEmpty) = true := by
  unfold postIIB
  simp only [Bool.and_eq_true]
  constructor
  · rintro ⟨⟨⟨⟨⟨⟨⟨⟨⟨h1, h2⟩, h3⟩, h4⟩, h5⟩, h6⟩, h7⟩, h8⟩, h9⟩, h10⟩
    exact ⟨h1, h2, h3, h4, h5, h6, h7, h8, h9, h10⟩
  · rintro ⟨h1, h2, h3, h4, h5, h6, h7, h8, h9, h10⟩
    exact ⟨⟨⟨⟨⟨⟨⟨⟨⟨h1, h2⟩, h3⟩, h4⟩, h5⟩, h6⟩, h7⟩, h8⟩, h9⟩, h10⟩

theorem pi_kidShape_of_raw (c : Box) (h1 : rawTy c.ty = true) :
    pi_kidShape c = true := by
  unfold pi_kidShape
  cases hc : c.ty <;> simp_all [rawTy]

theorem pi_kidShape_congr (k k' : Box) (e1 : k'.ty = k.ty) (e2 : k'.a = k.a) : pi_kidShape k' = pi_kidShape k := by
  unfold pi_kidShape; rw [e1, e2]

theorem pi_postGrid_hp : ∀ ty a k c, postGrid ty a k c = true →
    tableKidsOK ty a k c = true ∧ ((ty == .tableColumn) = true → k = []) := by
  intro ty a k c h
  obtain ⟨_, _, _, _, h5, _, h7, _⟩ := (pi_postGrid_iff ty a k c).1 h
  exact ⟨h5, h7⟩

theorem pi_postIIB_hp : ∀ ty a k c, postIIB ty a k c = true →
    tableKidsOK ty a k c = true ∧ ((ty == .tableColumn) = true → k = []) := by
  intro ty a k c h
  obtain ⟨_, _, _, h4, _, _, _, _, _, h10⟩ := (pi_postIIB_iff ty a k c).1 h
  refine ⟨h4, fun e => ?_⟩
  rw [e] at h10
  simpa using h10

/-- below `cols` the shape `postGrid` gives `postIIB` -/
theorem pi_postGrid_cols : ∀ ty a k c, postGrid ty a k c = true → pi_colsShape ty k c = true →
    postIIB ty a k c = true := by
  intro ty a k c h hs
  obtain ⟨_, h2, h3, h4, h5, h6, h7, h8⟩ := (pi_postGrid_iff ty a k c).1 h
  simp only [pi_colsShape, Bool.and_eq_true, Bool.or_eq_true, List.all_eq_true, beq_iff_eq] at hs
  have hty : ty = .tableColumnGroup ∨ ty = .tableColumn := by
    rcases hs.1 with s | s
    · exact Or.inl s.1
    · exact Or.inr s.1
  have hkc : ∀ x ∈ k, x.ty = .tableColumn := by
    rcases hs.1 with s | s
    · exact s.2
    · have : k = [] := List.isEmpty_iff.1 s.2
      subst this; intro x hx; cases hx
  refine (pi_postIIB_iff ty a k c).2 ⟨?_, h8, List.all_eq_true.2 h4, h5, h6, h2, ?_, ?_, ?_, ?_⟩
  · rcases hty with e | e <;> subst e <;> simp [blockContainerOK, isCls]
  · exact List.all_eq_true.2 fun x hx => pi_kidShape_of_raw x (h3 x hx)
  · have : k.all (fun c => !(c.ty == .inline)) = true :=
      List.all_eq_true.2 fun x hx => by rw [hkc x hx]; rfl
    rw [this]; simp
  · rcases hty with e | e <;> subst e <;> rfl
  · cases e : (ty == Ty.tableColumn) with
    | false => rfl
    | true => rw [h7 e]; rfl


/-! ### InlineInBlock: the new boxes and the second loop -/

def pi_KidOK (o : Box) : Prop := pi_kidShape o = true ∧ allW postIIB o = true

/-- a child entering the second loop -/
def pi_E (c : Box) : Prop :=
  pi_free c = true ∧ (isBlockLevel c.ty = true ∨ isInlineLevel c.ty = true) ∧ pi_KidOK c
/-- a child collected in the current line -/
def pi_L (l : Box) : Prop := (isInlineLevel l.ty || !inNormalFlow l.a) = true ∧ pi_free l = true ∧ pi_KidOK l
/-- a child in the output list -/
def pi_O (o : Box) : Prop := isBlockLevel o.ty = true ∧ pi_free o = true ∧ pi_KidOK o

theorem pi_lineBox_ok (pa : Attrs) (line : List Box) (hl : ∀ l ∈ line, pi_L l) : pi_KidOK (lineBox pa line) := by
  refine ⟨by simp [pi_kidShape, lineBox, anon, Box.ty, Box.a, anonAttrs], ?_⟩
  unfold lineBox anon
  refine pi_allW_intro _ _ _ _ _ ?_ ?_ (by rw [allWList])
  · refine (pi_postIIB_iff _ _ _ _).2 ⟨by simp [blockContainerOK, isCls], by simp [flexGridOK, isCls], ?_, ?_,
      by simp [gridOKw], rfl, ?_, rfl, ?_, rfl⟩
    · exact List.all_eq_true.2 fun l h => pi_free_allowed _ _ l (hl l h).2.1
    · rw [pi_tko_plain _ _ _ _ rfl rfl rfl rfl rfl]; rfl
    · exact List.all_eq_true.2 fun l h => (hl l h).2.2.1
    · simp only [beq_self_eq_true, Bool.not_true, Bool.false_or]
      exact List.all_eq_true.2 fun l h => (hl l h).1
  · rw [pi_allWList_iff]; exact fun l h => (hl l h).2.2.2

theorem pi_anonBlock_ok (pa : Attrs) (line : List Box) (hl : ∀ l ∈ line, pi_L l) :
    pi_O (anonBlock pa [lineBox pa line]) := by
  obtain ⟨g1, g2⟩ := pi_lineBox_ok pa line hl
  refine ⟨rfl, rfl, by simp [pi_kidShape, anonBlock, anon, Box.ty, Box.a, anonAttrs, rawTy], ?_⟩
  unfold anonBlock anon
  refine pi_allW_intro _ _ _ _ _ ?_ (by rw [allWList, allWList, g2]; rfl) (by rw [allWList])
  refine (pi_postIIB_iff _ _ _ _).2 ⟨by simp [blockContainerOK, singleLine, lineBox, anon, Box.ty],
    by simp [flexGridOK, isCls], by simp [childAllowed, lineBox, anon, Box.ty, isCls], ?_,
    by simp [gridOKw], rfl, by simp [g1], by simp [lineBox, anon, Box.ty], rfl, rfl⟩
  rw [pi_tko_plain _ _ _ _ rfl rfl rfl rfl rfl]; rfl

theorem pi_iibLoop (pa : Attrs) : ∀ (cs line out r : List Box),
    (∀ c ∈ cs, pi_E c) → (∀ o ∈ out, pi_O o) → (∀ l ∈ line, pi_L l) →
    iibLoop pa cs line out = .ok r →
    (∀ o ∈ r, pi_O o) ∨ ∃ l, r = [l] ∧ l.ty = .line ∧ pi_KidOK l
  | [], line, out, r, _, ho, hl, he => by
    rw [iibLoop] at he
    cases hline : line.isEmpty
    · cases hout : out.isEmpty
      · simp [hline, hout, pure, Except.pure] at he
        subst he
        left
        intro o hm
        rcases List.mem_append.1 hm with hm | hm
        · exact ho o hm
        · rw [List.mem_singleton] at hm; subst hm; exact pi_anonBlock_ok pa line hl
      · simp [hline, hout, pure, Except.pure] at he
        subst he
        exact Or.inr ⟨_, rfl, rfl, pi_lineBox_ok pa line hl⟩
    · simp [hline, pure, Except.pure] at he
      subst he; exact Or.inl ho
  | c :: cs, line, out, r, hc, ho, hl, he => by
    have hc0 := hc c (List.mem_cons_self ..)
    have hcs : ∀ c' ∈ cs, pi_E c' := fun c' h' => hc c' (List.mem_cons_of_mem _ h')
    have hl' : (isInlineLevel c.ty || !inNormalFlow c.a) = true → ∀ l ∈ line ++ [c], pi_L l := by
      intro hh l hm
      rcases List.mem_append.1 hm with hm | hm
      · exact hl l hm
      · rw [List.mem_singleton] at hm; subst hm; exact ⟨hh, hc0.1, hc0.2.2⟩
    rw [iibLoop] at he
    by_cases h0 : (c.ty == .line) = true
    · rw [if_pos h0] at he
      simp [throw, throwThe, MonadExceptOf.throw] at he
    · rw [if_neg h0] at he
      by_cases h1 : (!line.isEmpty && c.a.absPos) = true
      · rw [if_pos h1] at he
        refine pi_iibLoop pa cs _ _ r hcs ho (hl' ?_) he
        have := (Bool.and_eq_true_iff.1 h1).2
        simp [inNormalFlow, this]
      · rw [if_neg h1] at he
        by_cases h2 : (isInlineLevel c.ty || (!line.isEmpty && !inNormalFlow c.a)) = true
        · rw [if_pos h2] at he
          have hh : (isInlineLevel c.ty || !inNormalFlow c.a) = true := by
            rcases Bool.or_eq_true_iff.1 h2 with h | h
            · rw [h]; rfl
            · rw [(Bool.and_eq_true_iff.1 h).2, Bool.or_true]
          split at he
          · exact pi_iibLoop pa cs _ _ r hcs ho (hl' hh) he
          · exact pi_iibLoop pa cs _ _ r hcs ho hl he
        · rw [if_neg h2] at he
          have hni : isInlineLevel c.ty = false := by
            cases h : isInlineLevel c.ty with
            | false => rfl
            | true => exact absurd (by rw [h]; rfl) h2
          have hbl : isBlockLevel c.ty = true := by
            rcases hc0.2.1 with h | h
            · exact h
            · rw [hni] at h; cases h
          refine pi_iibLoop pa cs _ _ r hcs ?_ ?_ he
          · intro o hm
            rcases List.mem_append.1 hm with hm | hm
            · split at hm
              · rcases List.mem_append.1 hm with hm | hm
                · exact ho o hm
                · rw [List.mem_singleton] at hm; subst hm; exact pi_anonBlock_ok pa line hl
              · exact ho o hm
            · rw [List.mem_singleton] at hm; subst hm; exact ⟨hbl, hc0.1, hc0.2.2⟩
          · intro l hm; cases hm

/-- children that are neither line boxes nor inline-level all go to the output list -/
theorem pi_iibLoop_blocks (pa : Attrs) : ∀ (cs out : List Box),
    (∀ c ∈ cs, (c.ty == .line) = false ∧ isInlineLevel c.ty = false) →
    iibLoop pa cs [] out = .ok (out ++ cs)
  | [], out, _ => by simp [iibLoop, pure, Except.pure]
  | c :: cs, out, h => by
    obtain ⟨h1, h2⟩ := h c (List.mem_cons_self ..)
    rw [iibLoop, h1, h2]
    simp only [List.isEmpty_nil, Bool.not_true, Bool.false_and, Bool.false_eq_true, if_false, Bool.or_false]
    rw [pi_iibLoop_blocks pa cs (out ++ [c]) (fun x hx => h x (List.mem_cons_of_mem _ hx))]
    simp


/-! ### InlineInBlock: the node clauses -/

theorem pi_sigR_mk (ty : Ty) (a : Attrs) (ks cols : List Box) :
    pi_sigR (.mk ty a ks cols) = if ty == .tableRow then (if a.running then [] else ks.map Box.a) else [] := by
  simp only [pi_sigR, pi_sig, rowCells, Box.ty, Box.a, Box.kids]
  by_cases h : a.running = true <;> simp [h]

theorem pi_not_text_of (ks : List Box) (f : Ty → Bool) (hf : f .text = false) (h : ∀ k ∈ ks, f k.ty = true) :
    ks.all (fun c => !(c.ty == .text)) = true := by
  rw [List.all_eq_true]
  intro k hk
  have := h k hk
  cases hc : k.ty <;> simp_all

/-- what the first loop tells about the new children list -/
abbrev pi_Exact (ks ks' : List Box) : Prop :=
  ks.all (fun c => !(c.ty == .text)) = true →
    ks'.map Box.ty = ks.map Box.ty ∧ ks'.map Box.a = ks.map Box.a ∧ ks'.map pi_sigR = ks.map pi_sigR

/-- a box that is no block container: its children are processed recursively only -/
theorem pi_node_nonbc (ty : Ty) (a : Attrs) (kids ks cols : List Box) (hp : postGrid ty a kids cols = true)
    (hbc : isBlockContainer ty = false) (hne : kids ≠ []) (hS : pi_Sub kids ks) (hX : pi_Exact kids ks) :
    postIIB ty a ks cols = true := by
  obtain ⟨h1, h2, h3, h4, h5, h6, h7, h8⟩ := (pi_postGrid_iff ty a kids cols).1 hp
  have htw : a.tw = false := by
    cases h : a.tw with
    | false => rfl
    | true =>
      rcases (pi_tko_tw ty a kids cols h5 h).1 with e | e <;> rw [e] at hbc <;> cases hbc
  have hne' : kids.isEmpty = false := by cases kids with | nil => exact absurd rfl hne | cons _ _ => rfl
  refine (pi_postIIB_iff ty a ks cols).2 ⟨by simp [blockContainerOK, hbc], ?_, ?_, pi_tko_sub ty a kids ks cols htw hS h5,
    ?_, ?_, ?_, ?_, ?_, ?_⟩
  · unfold flexGridOK at h8 ⊢
    cases hfg : (isFlexContainer ty || isGridContainer ty) with
    | false => rfl
    | true =>
      rw [hfg] at h8
      simp only [Bool.not_true, Bool.false_or] at h8 ⊢
      exact pi_all_sub (fun c => isBlockLevel c.ty) (fun k k' e1 _ hk => by simp only [e1]; exact hk) kids ks hS h8
  · exact pi_all_sub (childAllowed ty a) (fun k k' e1 e2 hk => by rw [pi_ca_congr ty a k k' e1 e2]; exact hk)
      kids ks hS (List.all_eq_true.2 h4)
  · cases hrg : (ty == .tableRowGroup) with
    | false => simp [gridOKw, hrg]
    | true =>
      have hty := eq_of_beq hrg
      have hrows : ∀ k ∈ kids, k.ty = .tableRow := by
        simp only [tableKidsOK, Bool.and_eq_true, Bool.or_eq_true, Bool.not_eq_true', List.all_eq_true,
          beq_iff_eq] at h5
        rcases h5.1.1.1.2 with t | t
        · rw [hty] at t; cases t
        · exact t
      have hrows' : ∀ k ∈ ks, k.ty = .tableRow := by
        intro k' hk'
        obtain ⟨k, hk, e1, _⟩ := hS k' hk'
        rw [e1]; exact hrows k hk
      have hx := hX (pi_not_text_of kids (fun t => t == .tableRow) rfl (fun k hk => by simp [hrows k hk]))
      have e : ks.map pi_sig = kids.map pi_sig := by
        rw [← pi_sigR_rows ks hrows', ← pi_sigR_rows kids hrows]; exact hx.2.2
      rw [pi_gridOKw_congr ty kids ks e]; exact h6
  · rw [hne'] at h2
    simp only [Bool.or_false] at h2
    rw [h2]; rfl
  · exact pi_all_sub pi_kidShape (fun k k' e1 e2 hk => by rw [pi_kidShape_congr k k' e1 e2]; exact hk) kids ks hS
      (List.all_eq_true.2 fun x hx => pi_kidShape_of_raw x (h3 x hx))
  · cases hi : (ty == .inline) with
    | true => simp
    | false =>
      have : kids.all (fun c => !(c.ty == .inline)) = true := by
        rw [List.all_eq_true]
        intro k hk
        cases hki : (k.ty == .inline) with
        | false => rfl
        | true =>
          rcases pi_inline_parent ty a kids cols hp k hk (eq_of_beq hki) with e | e
          · rw [hbc] at e; cases e
          · rw [e] at hi; cases hi
      have := pi_all_sub (fun c => !(c.ty == .inline)) (fun k k' e1 _ hk => by simp only [e1]; exact hk) kids ks hS this
      rw [this]; simp
  · have : (ty == .line) = false := by
      unfold rawTy at h1
      cases ty <;> simp_all
    rw [this]; rfl
  · cases e : (ty == Ty.tableColumn) with
    | false => rfl
    | true => exact absurd (h7 e) hne

/-- a table wrapper: captions and the table stay where they are -/
theorem pi_node_tw (ty : Ty) (a : Attrs) (kids ks cols : List Box) (hp : postGrid ty a kids cols = true)
    (htw : a.tw = true) (hS : pi_Sub kids ks) (hT : ks.map Box.ty = kids.map Box.ty) :
    postIIB ty a ks cols = true ∧ iibLoop a ks [] [] = .ok ks := by
  obtain ⟨_, _, h3, h4, h5, _, _, _⟩ := (pi_postGrid_iff ty a kids cols).1 hp
  obtain ⟨hty, hk⟩ := pi_tko_tw ty a kids cols h5 htw
  have hk' : ∀ k ∈ ks, k.ty = .tableCaption ∨ isTable k.ty = true := by
    intro k' hk'
    obtain ⟨k, hkm, e1, _⟩ := hS k' hk'
    rw [e1]; exact hk k hkm
  have hprop : ∀ k ∈ ks, isBlockLevel k.ty = true ∧ (k.ty == .line) = false ∧ isInlineLevel k.ty = false ∧
      (k.ty == .inline) = false := by
    intro k hkm
    rcases hk' k hkm with e | e
    · rw [e]; exact ⟨rfl, rfl, rfl, rfl⟩
    · cases hc : k.ty <;> simp_all [isCls]
  constructor
  · refine (pi_postIIB_iff ty a ks cols).2 ⟨?_, ?_, ?_, ?_, ?_, ?_, ?_, ?_, ?_, ?_⟩
    · have : ks.all (fun c => isBlockLevel c.ty) = true := List.all_eq_true.2 fun k h => (hprop k h).1
      simp [blockContainerOK, this]
    · rcases hty with e | e <;> subst e <;> simp [flexGridOK, isCls]
    · exact pi_all_sub (childAllowed ty a) (fun k k' e1 e2 hk => by rw [pi_ca_congr ty a k k' e1 e2]; exact hk)
        kids ks hS (List.all_eq_true.2 h4)
    · rw [pi_tko_congr ty a kids ks cols hT]; exact h5
    · rcases hty with e | e <;> subst e <;> simp [gridOKw]
    · rcases hty with e | e <;> subst e <;> rfl
    · exact pi_all_sub pi_kidShape (fun k k' e1 e2 hk => by rw [pi_kidShape_congr k k' e1 e2]; exact hk) kids ks hS
        (List.all_eq_true.2 fun x hx => pi_kidShape_of_raw x (h3 x hx))
    · have : ks.all (fun c => !(c.ty == .inline)) = true :=
        List.all_eq_true.2 fun k h => by rw [(hprop k h).2.2.2]; rfl
      rw [this]; simp
    · rcases hty with e | e <;> subst e <;> rfl
    · rcases hty with e | e <;> subst e <;> rfl
  · have := pi_iibLoop_blocks a ks [] (fun k h => ⟨(hprop k h).2.1, (hprop k h).2.2.1⟩)
    simpa using this

/-- another block container: block-level children and anonymous blocks, or one line box -/
theorem pi_node_bc (ty : Ty) (a : Attrs) (kids r cols : List Box) (hp : postGrid ty a kids cols = true)
    (hbc : isBlockContainer ty = true) (htw : a.tw = false)
    (hres : (∀ o ∈ r, pi_O o) ∨ ∃ l, r = [l] ∧ l.ty = .line ∧ pi_KidOK l) :
    postIIB ty a r cols = true ∧ allWList postIIB r = true := by
  obtain ⟨_, _, _, _, h5, _, _, _⟩ := (pi_postGrid_iff ty a kids cols).1 hp
  obtain ⟨p1, p2, p3, p4, p5, p6⟩ := pi_bc_plain ty (Or.inl hbc)
  have hpar : isParent ty = true := by cases ty <;> simp_all [isCls]
  have hnl : (ty == .line) = false := by cases ty <;> simp_all [isCls]
  have hnc : (ty == .tableColumn) = false := by cases ty <;> simp_all [isCls]
  have htko : tableKidsOK ty a r cols = true := by
    rw [pi_tko_plain ty a r cols htw p1 p2 p3 p4, ← pi_tko_plain ty a kids cols htw p1 p2 p3 p4]; exact h5
  have hcommon : ∀ (c1 : blockContainerOK ty r = true) (c3 : r.all (childAllowed ty a) = true)
      (c7 : r.all pi_kidShape = true) (c8 : r.all (fun c => !(c.ty == .inline)) = true),
      postIIB ty a r cols = true := by
    intro c1 c3 c7 c8
    refine (pi_postIIB_iff ty a r cols).2 ⟨c1, by simp [flexGridOK, p5, p6], c3, htko, by simp [gridOKw, p2],
      by rw [hpar]; rfl, c7, by rw [c8]; simp, by rw [hnl]; rfl, by rw [hnc]; rfl⟩
  rcases hres with h | ⟨l, rfl, hlty, hl⟩
  · refine ⟨hcommon ?_ ?_ ?_ ?_, ?_⟩
    · have : r.all (fun c => isBlockLevel c.ty) = true := List.all_eq_true.2 fun o ho => (h o ho).1
      simp [blockContainerOK, this]
    · exact List.all_eq_true.2 fun o ho => pi_free_allowed ty a o (h o ho).2.1
    · exact List.all_eq_true.2 fun o ho => (h o ho).2.2.1
    · refine List.all_eq_true.2 fun o ho => ?_
      have := (h o ho).1
      cases hc : o.ty <;> simp_all [isCls]
    · rw [pi_allWList_iff]; exact fun o ho => (h o ho).2.2.2
  · refine ⟨hcommon ?_ ?_ ?_ ?_, ?_⟩
    · simp [blockContainerOK, singleLine, hlty]
    · simp [childAllowed, hlty, hbc]
    · simp [hl.1]
    · simp [hlty]
    · rw [allWList, allWList, hl.2]; rfl


/-! ### InlineInBlock: the pass -/

theorem pi_postIIB_nil (ty : Ty) (a : Attrs) (cols : List Box) (hp : postGrid ty a [] cols = true) :
    postIIB ty a [] cols = true := by
  obtain ⟨_, _, _, _, h5, h6, _, _⟩ := (pi_postGrid_iff ty a [] cols).1 hp
  exact (pi_postIIB_iff ty a [] cols).2 ⟨by simp [blockContainerOK], by simp [flexGridOK], rfl, h5, h6,
    by simp, rfl, by simp, by simp, by simp⟩

mutual
  theorem pi_iib : (b b' : Box) → allW postGrid b = true → inlineInBlock b = .ok b' →
      b'.ty = b.ty ∧ b'.a = b.a ∧ allW postIIB b' = true ∧ pi_sigR b' = pi_sigR b
    | .mk ty a kids cols, b', h, hb => by
      rw [inlineInBlock] at hb
      cases hr : a.running with
      | true =>
        rw [hr] at hb
        simp [pure, Except.pure] at hb
        subst hb
        exact ⟨rfl, rfl, pi_allW_running _ _ _ _ _ hr, rfl⟩
      | false =>
        obtain ⟨hp, hks, hcs⟩ := pi_allW_unfold postGrid ty a kids cols hr h
        have hp' := (pi_postGrid_iff ty a kids cols).1 hp
        have hcols : allWList postIIB cols = true :=
          pi_cols_lift postGrid postIIB pi_postGrid_hp pi_postGrid_cols ty a kids cols hp'.2.2.2.2.1 hcs
        rw [hr] at hb
        cases kids with
        | nil =>
          simp [pure, Except.pure] at hb
          subst hb
          exact ⟨rfl, rfl, pi_allW_intro _ _ _ _ _ (pi_postIIB_nil ty a cols hp) (by rw [allWList]) hcols, rfl⟩
        | cons k0 kt =>
          simp only [List.isEmpty_cons, Bool.or_false, Bool.false_eq_true, if_false] at hb
          cases hl : inlineInBlockList (k0 :: kt) with
          | error e => simp [hl, bind, Except.bind] at hb
          | ok ks =>
            obtain ⟨hA, hS, hX⟩ := pi_iibList (k0 :: kt) ks hks hl
            cases hbc : isBlockContainer ty with
            | false =>
              simp only [hl, hbc, bind, Except.bind, pure, Except.pure, Bool.not_false, if_true] at hb
              injection hb with hb
              subst hb
              refine ⟨rfl, rfl, pi_allW_intro _ _ _ _ _
                (pi_node_nonbc ty a (k0 :: kt) ks cols hp hbc (by simp) hS hX) hA hcols, ?_⟩
              rw [pi_sigR_mk, pi_sigR_mk, hr]
              cases hrow : (ty == .tableRow) with
              | false => rfl
              | true =>
                have hcells : ∀ k ∈ k0 :: kt, k.ty = .tableCell := by
                  have h5 := hp'.2.2.2.2.1
                  simp only [tableKidsOK, Bool.and_eq_true, Bool.or_eq_true, Bool.not_eq_true', List.all_eq_true,
                    beq_iff_eq] at h5
                  rcases h5.1.1.2 with t | t
                  · rw [eq_of_beq hrow] at t; cases t
                  · exact t
                have hx := hX (pi_not_text_of (k0 :: kt) (fun t => t == .tableCell) rfl
                  (fun k hk => by simp [hcells k hk]))
                simp only [Bool.false_eq_true, if_false, if_true]
                exact hx.2.1
            | true =>
              have hsig : ∀ r : List Box, pi_sigR (.mk ty a r cols) = pi_sigR (.mk ty a (k0 :: kt) cols) := by
                intro r
                have : (ty == .tableRow) = false := by cases ty <;> simp_all [isCls]
                rw [pi_sigR_mk, pi_sigR_mk, this]; rfl
              cases htw : a.tw with
              | true =>
                have hk := (pi_tko_tw ty a (k0 :: kt) cols hp'.2.2.2.2.1 htw).2
                have hx := hX (pi_not_text_of (k0 :: kt) (fun t => t == .tableCaption || isTable t) rfl
                  (fun k hk' => by rcases hk k hk' with e | e <;> simp [e]))
                obtain ⟨n1, n2⟩ := pi_node_tw ty a (k0 :: kt) ks cols hp htw hS hx.1
                simp only [hl, hbc, n2, bind, Except.bind, pure, Except.pure, Bool.not_true,
                  Bool.false_eq_true, if_false] at hb
                injection hb with hb
                subst hb
                exact ⟨rfl, rfl, pi_allW_intro _ _ _ _ _ n1 hA hcols, hsig ks⟩
              | false =>
                cases hloop : iibLoop a ks [] [] with
                | error e =>
                  simp only [hl, hbc, hloop, bind, Except.bind, pure, Except.pure, Bool.not_true,
                    Bool.false_eq_true, if_false] at hb
                  cases hb
                | ok r =>
                  simp only [hl, hbc, hloop, bind, Except.bind, pure, Except.pure, Bool.not_true,
                    Bool.false_eq_true, if_false] at hb
                  injection hb with hb
                  subst hb
                  have hp4 := pi_bc_plain ty (Or.inl hbc)
                  have hE : ∀ c ∈ ks, pi_E c := by
                    intro c hc
                    obtain ⟨k, hk, e1, e2⟩ := hS c hc
                    have hraw := hp'.2.2.1 k hk
                    have hnl : (k.ty == .line) = false := by
                      have := hraw
                      unfold rawTy at this
                      cases hc : k.ty <;> simp_all
                    have hfree := pi_free_of_allowed ty a k (hp'.2.2.2.1 k hk) htw hp4.1 hp4.2.1 hp4.2.2.1
                      hp4.2.2.2.1 hnl
                    refine ⟨by rw [pi_free_congr k c e1 e2]; exact hfree, ?_, ?_, (pi_allWList_iff _ _).1 hA c hc⟩
                    · rw [e1]; exact pi_level_of_free k hfree hraw
                    · rw [pi_kidShape_congr k c e1 e2]; exact pi_kidShape_of_raw k hraw
                  have hres := pi_iibLoop a ks [] [] r hE (fun _ h => nomatch h) (fun _ h => nomatch h) hloop
                  obtain ⟨n1, n2⟩ := pi_node_bc ty a (k0 :: kt) r cols hp hbc htw hres
                  exact ⟨rfl, rfl, pi_allW_intro _ _ _ _ _ n1 n2 hcols, hsig r⟩
  theorem pi_iibList : (ks ks' : List Box) → allWList postGrid ks = true → inlineInBlockList ks = .ok ks' →
      allWList postIIB ks' = true ∧ pi_Sub ks ks' ∧ pi_Exact ks ks'
    | [], ks', _, he => by
      rw [inlineInBlockList] at he
      simp [pure, Except.pure] at he
      subst he
      exact ⟨by rw [allWList], (fun _ h => nomatch h), fun _ => ⟨rfl, rfl, rfl⟩⟩
    | k :: ks, ks', h, he => by
      rw [allWList, Bool.and_eq_true] at h
      rw [inlineInBlockList] at he
      split at he
      · rename_i htext
        obtain ⟨i1, i2, _⟩ := pi_iibList ks ks' h.2 he
        refine ⟨i1, fun x hx => ?_, fun hno => ?_⟩
        · obtain ⟨k1, hk1, e⟩ := i2 x hx
          exact ⟨k1, List.mem_cons_of_mem _ hk1, e⟩
        · exfalso
          simp only [List.all_cons, Bool.and_eq_true] at hno
          have := hno.1
          simp only [Bool.and_eq_true] at htext
          rw [htext.1] at this
          cases this
      · cases h1 : inlineInBlock k with
        | error e => simp [h1, bind, Except.bind] at he
        | ok k' =>
          cases h2 : inlineInBlockList ks with
          | error e => simp [h1, h2, bind, Except.bind] at he
          | ok kt' =>
            simp [h1, h2, bind, Except.bind, pure, Except.pure] at he
            subst he
            obtain ⟨e1, e2, e3, e4⟩ := pi_iib k k' h.1 h1
            obtain ⟨i1, i2, i3⟩ := pi_iibList ks kt' h.2 h2
            refine ⟨by rw [allWList, e3, i1]; rfl, fun x hx => ?_, fun hno => ?_⟩
            · rcases List.mem_cons.1 hx with rfl | hx
              · exact ⟨k, List.mem_cons_self .., e1, e2⟩
              · obtain ⟨k1, hk1, e⟩ := i2 x hx
                exact ⟨k1, List.mem_cons_of_mem _ hk1, e⟩
            · simp only [List.all_cons, Bool.and_eq_true] at hno
              obtain ⟨j1, j2, j3⟩ := i3 hno.2
              simp only [List.map_cons, e1, e2, e4, j1, j2, j3, and_self]
end

/-- deliverable (2): InlineInBlock turns the shape `postGrid` into the shape `postIIB` -/
theorem inlineInBlock_postIIB (g : Box) (h : allW postGrid g = true) :
    ∃ i, inlineInBlock g = .ok i ∧ i.ty = g.ty ∧ i.a = g.a ∧ allW postIIB i = true := by
  obtain ⟨i, _, hi, _⟩ := pi_passes_ok g h
  obtain ⟨h1, h2, h3, _⟩ := pi_iib g i h hi
  exact ⟨i, hi, h1, h2, h3⟩


/-! ### BlockInInline: the node clauses -/

theorem pi_nodeOKw_iff (ty : Ty) (a : Attrs) (kids cols : List Box) :
    nodeOKw ty a kids cols = true ↔
      blockContainerOK ty kids = true ∧ inlineOK ty kids = true ∧ flexGridOK ty kids = true ∧
      kids.all (childAllowed ty a) = true ∧ tableKidsOK ty a kids cols = true ∧ gridOKw ty kids = true ∧
      (isParent ty || kids.isEmpty) = true := by
  unfold nodeOKw
  simp only [Bool.and_eq_true]
  constructor
  · rintro ⟨⟨⟨⟨⟨⟨h1, h2⟩, h3⟩, h4⟩, h5⟩, h6⟩, h7⟩
    exact ⟨h1, h2, h3, h4, h5, h6, h7⟩
  · rintro ⟨h1, h2, h3, h4, h5, h6, h7⟩
    exact ⟨⟨⟨⟨⟨⟨h1, h2⟩, h3⟩, h4⟩, h5⟩, h6⟩, h7⟩

theorem pi_nodeOKw_of_postIIB (ty : Ty) (a : Attrs) (k c : List Box) (hp : postIIB ty a k c = true)
    (hi : inlineOK ty k = true) : nodeOKw ty a k c = true := by
  obtain ⟨h1, h2, h3, h4, h5, h6, _⟩ := (pi_postIIB_iff ty a k c).1 hp
  exact (pi_nodeOKw_iff ty a k c).2 ⟨h1, hi, h2, h3, h4, h5, h6⟩

theorem pi_postIIB_cols : ∀ ty a k c, postIIB ty a k c = true → pi_colsShape ty k c = true →
    nodeOKw ty a k c = true := by
  intro ty a k c h hs
  refine pi_nodeOKw_of_postIIB ty a k c h ?_
  simp only [pi_colsShape, Bool.and_eq_true, Bool.or_eq_true, beq_iff_eq] at hs
  rcases hs.1 with s | s <;> rw [s.1] <;> simp [inlineOK]

/-- an extracted block / a fragment wrapped in an anonymous block -/
def pi_F (x : Box) : Prop := isBlockLevel x.ty = true ∧ pi_free x = true ∧ allW nodeOKw x = true
/-- a child of a line box or inline box of the result -/
def pi_I (x : Box) : Prop :=
  (isInlineLevel x.ty || !inNormalFlow x.a) = true ∧ pi_free x = true ∧ allW nodeOKw x = true
/-- a child of a line box or inline box before the pass -/
def pi_K (c : Box) : Prop :=
  pi_free c = true ∧ rawTy c.ty = true ∧ allW postIIB c = true

theorem pi_not_line_of_allowed (ty : Ty) (a : Attrs) (c : Box) (h : childAllowed ty a c = true)
    (hbc : isBlockContainer ty = false) : (c.ty == .line) = false := by
  unfold childAllowed at h
  cases hc : c.ty <;> simp_all

theorem pi_K_of_postIIB (ty : Ty) (a : Attrs) (kids cols : List Box) (hp : postIIB ty a kids cols = true)
    (hty : ty = .line ∨ ty = .inline) (hA : allWList postIIB kids = true) : ∀ c ∈ kids, pi_K c := by
  obtain ⟨_, _, h3, h4, _, _, h7, _, _, _⟩ := (pi_postIIB_iff ty a kids cols).1 hp
  have hnbc : isBlockContainer ty = false := by rcases hty with e | e <;> rw [e] <;> rfl
  have htw : a.tw = false := by
    cases h : a.tw with
    | false => rfl
    | true => rcases (pi_tko_tw ty a kids cols h4 h).1 with e | e <;> rw [e] at hnbc <;> cases hnbc
  obtain ⟨p1, p2, p3, p4, _, _⟩ := pi_bc_plain ty (by rcases hty with e | e; exact Or.inr (Or.inr e); exact Or.inr (Or.inl e))
  rw [List.all_eq_true] at h3 h7
  intro c hc
  have hl := pi_not_line_of_allowed ty a c (h3 c hc) hnbc
  have hs := h7 c hc
  have hraw : rawTy c.ty = true := by
    unfold pi_kidShape at hs
    rw [hl] at hs
    simpa using hs
  exact ⟨pi_free_of_allowed ty a c (h3 c hc) htw p1 p2 p3 p4 hl, hraw, (pi_allWList_iff _ _).1 hA c hc⟩

/-- a rebuilt line box or inline box -/
theorem pi_node2_inl (ty : Ty) (a : Attrs) (kids ks cols : List Box) (hp : postIIB ty a kids cols = true)
    (hty : ty = .line ∨ ty = .inline) (hI : ∀ k ∈ ks, pi_I k) : nodeOKw ty a ks cols = true := by
  obtain ⟨_, _, _, h4, _, _, _, _, _, _⟩ := (pi_postIIB_iff ty a kids cols).1 hp
  have hnbc : isBlockContainer ty = false := by rcases hty with e | e <;> rw [e] <;> rfl
  have htw : a.tw = false := by
    cases h : a.tw with
    | false => rfl
    | true => rcases (pi_tko_tw ty a kids cols h4 h).1 with e | e <;> rw [e] at hnbc <;> cases hnbc
  obtain ⟨p1, p2, p3, p4, p5, p6⟩ := pi_bc_plain ty (by rcases hty with e | e; exact Or.inr (Or.inr e); exact Or.inr (Or.inl e))
  have hpar : isParent ty = true := by rcases hty with e | e <;> rw [e] <;> rfl
  refine (pi_nodeOKw_iff ty a ks cols).2 ⟨by simp [blockContainerOK, hnbc], ?_, by simp [flexGridOK, p5, p6], ?_, ?_,
    by simp [gridOKw, p2], by rw [hpar]; rfl⟩
  · have : ks.all (fun c => isInlineLevel c.ty || !inNormalFlow c.a) = true :=
      List.all_eq_true.2 fun k hk => (hI k hk).1
    unfold inlineOK; rw [this]; simp
  · exact List.all_eq_true.2 fun k hk => pi_free_allowed ty a k (hI k hk).2.1
  · rw [pi_tko_plain ty a ks cols htw p1 p2 p3 p4, ← pi_tko_plain ty a kids cols htw p1 p2 p3 p4]; exact h4

theorem pi_anonBlock_fin (pa : Attrs) (nl : Box) (h1 : nl.ty = .line) (h2 : allW nodeOKw nl = true) :
    pi_F (anonBlock pa [nl]) := by
  refine ⟨rfl, rfl, ?_⟩
  unfold anonBlock anon
  refine pi_allW_intro _ _ _ _ _ ?_ (by rw [allWList, allWList, h2]; rfl) (by rw [allWList])
  refine (pi_nodeOKw_iff _ _ _ _).2 ⟨by simp [blockContainerOK, singleLine, h1], by simp [inlineOK],
    by simp [flexGridOK, isCls], by simp [childAllowed, h1, isCls], ?_, by simp [gridOKw], rfl⟩
  rw [pi_tko_plain _ _ _ _ rfl rfl rfl rfl rfl]; rfl

/-- no line box among the children: they are processed recursively and keep types and attributes -/
theorem pi_node2_keep (ty : Ty) (a : Attrs) (kids ks cols : List Box) (hp : postIIB ty a kids cols = true)
    (hnl : ∀ k ∈ kids, (k.ty == .line) = false) (hi : (ty == .inline) = false) (hl : (ty == .line) = false)
    (hS : pi_Sub kids ks) (hT : ks.map Box.ty = kids.map Box.ty) (hG : ks.map pi_sigR = kids.map pi_sigR) :
    nodeOKw ty a ks cols = true := by
  obtain ⟨h1, h2, h3, h4, h5, h6, _, _, _, _⟩ := (pi_postIIB_iff ty a kids cols).1 hp
  refine (pi_nodeOKw_iff ty a ks cols).2 ⟨?_, by simp [inlineOK, hi, hl], ?_, ?_, ?_, ?_, ?_⟩
  · cases hbc : isBlockContainer ty with
    | false => simp [blockContainerOK, hbc]
    | true =>
      have : kids.all (fun c => isBlockLevel c.ty) = true := by
        unfold blockContainerOK at h1
        rw [hbc] at h1
        simp only [Bool.not_true, Bool.false_or, Bool.or_eq_true] at h1
        rcases h1 with t | t
        · exact t
        · obtain ⟨l, e, hl'⟩ := bii_singleLine_iff kids t
          have := hnl l (by rw [e]; exact List.mem_singleton.2 rfl)
          rw [hl'] at this; cases this
      have := pi_all_sub (fun c => isBlockLevel c.ty) (fun k k' e1 _ hk => by simp only [e1]; exact hk) kids ks hS this
      simp [blockContainerOK, this]
  · unfold flexGridOK at h2 ⊢
    cases hfg : (isFlexContainer ty || isGridContainer ty) with
    | false => rfl
    | true =>
      rw [hfg] at h2
      simp only [Bool.not_true, Bool.false_or] at h2 ⊢
      exact pi_all_sub (fun c => isBlockLevel c.ty) (fun k k' e1 _ hk => by simp only [e1]; exact hk) kids ks hS h2
  · exact pi_all_sub (childAllowed ty a) (fun k k' e1 e2 hk => by rw [pi_ca_congr ty a k k' e1 e2]; exact hk)
      kids ks hS h3
  · rw [pi_tko_congr ty a kids ks cols hT]; exact h4
  · cases hrg : (ty == .tableRowGroup) with
    | false => simp [gridOKw, hrg]
    | true =>
      have hty := eq_of_beq hrg
      have hrows : ∀ k ∈ kids, k.ty = .tableRow := by
        simp only [tableKidsOK, Bool.and_eq_true, Bool.or_eq_true, Bool.not_eq_true', List.all_eq_true,
          beq_iff_eq] at h4
        rcases h4.1.1.1.2 with t | t
        · rw [hty] at t; cases t
        · exact t
      have hrows' : ∀ k ∈ ks, k.ty = .tableRow := by
        intro k' hk'
        obtain ⟨k, hk, e1, _⟩ := hS k' hk'
        rw [e1]; exact hrows k hk
      have e : ks.map pi_sig = kids.map pi_sig := by
        rw [← pi_sigR_rows ks hrows', ← pi_sigR_rows kids hrows]; exact hG
      rw [pi_gridOKw_congr ty kids ks e]; exact h5
  · cases hpar : isParent ty with
    | true => rfl
    | false =>
      rw [hpar] at h6
      simp only [Bool.false_or, List.isEmpty_iff] at h6
      subst h6
      cases ks with
      | nil => rfl
      | cons x xs =>
        obtain ⟨k, hk, _⟩ := hS x (List.mem_cons_self ..)
        cases hk

/-- a block container whose only child was a line box -/
theorem pi_node2_line (ty : Ty) (a : Attrs) (ks cols : List Box) (l : Box)
    (hp : postIIB ty a [l] cols = true) (hl : (l.ty == .line) = true)
    (hres : (∃ l', ks = [l'] ∧ l'.ty = .line) ∨ (∀ x ∈ ks, isBlockLevel x.ty = true ∧ pi_free x = true)) :
    nodeOKw ty a ks cols = true := by
  obtain ⟨_, _, h3, h4, _, _, _, _, _, _⟩ := (pi_postIIB_iff ty a [l] cols).1 hp
  have hlty := eq_of_beq hl
  have hbc : isBlockContainer ty = true := by
    simp only [List.all_cons, List.all_nil, Bool.and_true] at h3
    simpa [childAllowed, hlty] using h3
  have htw : a.tw = false := by
    cases h : a.tw with
    | false => rfl
    | true =>
      rcases (pi_tko_tw ty a [l] cols h4 h).2 l (List.mem_singleton.2 rfl) with e | e
      · rw [hlty] at e; cases e
      · rw [hlty] at e; cases e
  obtain ⟨p1, p2, p3, p4, p5, p6⟩ := pi_bc_plain ty (Or.inl hbc)
  have hpar : isParent ty = true := by cases ty <;> simp_all [isCls]
  have hnl : (ty == .line) = false := by cases ty <;> simp_all [isCls]
  have hni : (ty == .inline) = false := by cases ty <;> simp_all [isCls]
  refine (pi_nodeOKw_iff ty a ks cols).2 ⟨?_, by simp [inlineOK, hni, hnl], by simp [flexGridOK, p5, p6], ?_, ?_,
    by simp [gridOKw, p2], by rw [hpar]; rfl⟩
  · rcases hres with ⟨l', rfl, e⟩ | h
    · simp [blockContainerOK, singleLine, e]
    · have : ks.all (fun c => isBlockLevel c.ty) = true := List.all_eq_true.2 fun x hx => (h x hx).1
      simp [blockContainerOK, this]
  · rcases hres with ⟨l', rfl, e⟩ | h
    · simp [childAllowed, e, hbc]
    · exact List.all_eq_true.2 fun x hx => pi_free_allowed ty a x (h x hx).2
  · rw [pi_tko_plain ty a ks cols htw p1 p2 p3 p4, ← pi_tko_plain ty a [l] cols htw p1 p2 p3 p4]; exact h4

theorem pi_line_single (ty : Ty) (a : Attrs) (kids cols : List Box) (hp : postIIB ty a kids cols = true)
    (c : Box) (hc : c ∈ kids) (hl : (c.ty == .line) = true) : ∃ l, kids = [l] ∧ (l.ty == .line) = true := by
  obtain ⟨h1, _, h3, _, _, _, _, _, _, _⟩ := (pi_postIIB_iff ty a kids cols).1 hp
  rw [List.all_eq_true] at h3
  have hbc : isBlockContainer ty = true := by
    have := h3 c hc
    simpa [childAllowed, eq_of_beq hl] using this
  unfold blockContainerOK at h1
  rw [hbc] at h1
  simp only [Bool.not_true, Bool.false_or, Bool.or_eq_true] at h1
  rcases h1 with t | t
  · rw [List.all_eq_true] at t
    have := t c hc
    rw [eq_of_beq hl] at this; cases this
  · exact bii_singleLine_iff kids t

/-! ### BlockInInline: the resume loop -/

theorem pi_resumeLoop (pa : Attrs) (step : Resume → R (Box × Option (Box × Resume))) (P F : Box → Prop)
    (hstep : ∀ st nl r, step st = .ok (nl, r) → P nl ∧ ∀ blk st', r = some (blk, st') → F blk)
    (hPF : ∀ nl, P nl → F (anonBlock pa [nl])) :
    ∀ (fuel : Nat) (st : Resume) (acc frags : List Box) (last : Box), (∀ x ∈ acc, F x) →
      resumeLoop pa step fuel st acc = .ok (frags, last) → P last ∧ ∀ x ∈ frags, F x
  | 0, _, _, _, _, _, he => by simp [resumeLoop, throw, throwThe, MonadExceptOf.throw] at he
  | fuel + 1, st, acc, frags, last, hacc, he => by
    unfold resumeLoop at he
    cases hs : step st with
    | error e => simp [hs, bind, Except.bind] at he
    | ok p =>
      obtain ⟨nl, r⟩ := p
      obtain ⟨hP, hr⟩ := hstep st nl r hs
      simp only [hs, bind, Except.bind] at he
      cases r with
      | none =>
        simp [pure, Except.pure] at he
        obtain ⟨e1, e2⟩ := he
        subst e1; subst e2
        exact ⟨hP, hacc⟩
      | some q =>
        obtain ⟨blk, st'⟩ := q
        simp only at he
        refine pi_resumeLoop pa step P F hstep hPF fuel st' _ frags last ?_ he
        intro x hx
        simp only [List.mem_append, List.mem_cons, List.mem_nil_iff, or_false] at hx
        rcases hx with hx | hx | hx
        · exact hacc x hx
        · subst hx; exact hPF nl hP
        · rw [hx]; exact (hr blk st' rfl)


/-! ### BlockInInline: the pass -/

theorem pi_allW_of_running (p : Ty → Attrs → List Box → List Box → Bool) (b : Box) (h : b.a.running = true) :
    allW p b = true := by
  cases b with
  | mk ty a kids cols => exact pi_allW_running p ty a kids cols h

mutual
  theorem pi_bii : (b b' : Box) → allW postIIB b = true → (b.ty == .inline && !b.a.running) = false →
      (b.ty == .line) = false → blockInInline b = .ok b' →
      b'.ty = b.ty ∧ b'.a = b.a ∧ allW nodeOKw b' = true ∧ pi_sigR b' = pi_sigR b
    | .mk ty a kids cols, b', h, hi0, hl, hb => by
      simp only [Box.ty, Box.a] at hi0 hl
      rw [blockInInline] at hb
      cases hr : a.running with
      | true =>
        rw [hr] at hb
        simp [pure, Except.pure] at hb
        subst hb
        exact ⟨rfl, rfl, pi_allW_running _ _ _ _ _ hr, rfl⟩
      | false =>
        have hi : (ty == .inline) = false := by
          rw [hr] at hi0; simpa using hi0
        obtain ⟨hp, hks, hcs⟩ := pi_allW_unfold postIIB ty a kids cols hr h
        have hp' := (pi_postIIB_iff ty a kids cols).1 hp
        have hcols : allWList nodeOKw cols = true :=
          pi_cols_lift postIIB nodeOKw pi_postIIB_hp pi_postIIB_cols ty a kids cols hp'.2.2.2.1 hcs
        rw [hr] at hb
        cases kids with
        | nil =>
          simp [pure, Except.pure] at hb
          subst hb
          exact ⟨rfl, rfl, pi_allW_intro _ _ _ _ _ (pi_nodeOKw_of_postIIB ty a [] cols hp (by simp [inlineOK]))
            (by rw [allWList]) hcols, rfl⟩
        | cons k0 kt =>
          simp only [List.isEmpty_cons, Bool.or_false, Bool.false_eq_true, if_false] at hb
          cases hk : biiKids a (k0 :: kt).length (k0 :: kt) with
          | error e => simp only [hk, bind, Except.bind] at hb; cases hb
          | ok ks =>
            simp only [hk, bind, Except.bind, pure, Except.pure] at hb
            injection hb with hb
            subst hb
            have hH : ∀ c ∈ k0 :: kt, (c.ty == .inline) = false ∧ pi_kidShape c = true := by
              have h7 := hp'.2.2.2.2.2.2.1
              have h8 := hp'.2.2.2.2.2.2.2.1
              rw [hi, hl] at h8
              simp only [Bool.false_or] at h8
              rw [List.all_eq_true] at h7 h8
              intro c hc
              exact ⟨by simpa using h8 c hc, h7 c hc⟩
            obtain ⟨r1, r2, r3⟩ := pi_biiKids a (k0 :: kt).length (k0 :: kt) ks hks hH hk
            by_cases hnl : ∀ c ∈ k0 :: kt, (c.ty == .line) = false
            · obtain ⟨s1, s2, s3, s4⟩ := r2 hnl
              refine ⟨rfl, rfl, pi_allW_intro _ _ _ _ _
                (pi_node2_keep ty a (k0 :: kt) ks cols hp hnl hi hl s1 s2 s4) r1 hcols, ?_⟩
              rw [pi_sigR_mk, pi_sigR_mk, s3]
            · have : ∃ c ∈ k0 :: kt, (c.ty == .line) = true := by
                apply Classical.byContradiction
                intro hcon
                apply hnl
                intro c hc
                cases hcl : (c.ty == .line) with
                | false => rfl
                | true => exact absurd ⟨c, hc, hcl⟩ hcon
              obtain ⟨c, hc, hcl⟩ := this
              obtain ⟨l, e, hll⟩ := pi_line_single ty a (k0 :: kt) cols hp c hc hcl
              rw [e] at hp
              have hres := r3 l e hll
              have hnode := pi_node2_line ty a ks cols l hp hll hres
              refine ⟨rfl, rfl, pi_allW_intro _ _ _ _ _ hnode r1 hcols, ?_⟩
              have hbc : (ty == .tableRow) = false := by
                have h3 := ((pi_postIIB_iff ty a [l] cols).1 hp).2.2.1
                simp only [List.all_cons, List.all_nil, Bool.and_true] at h3
                have hb' : isBlockContainer ty = true := by simpa [childAllowed, eq_of_beq hll] using h3
                cases ty <;> simp_all [isCls]
              rw [pi_sigR_mk, pi_sigR_mk, hbc]; rfl
  termination_by structural b => b
  theorem pi_biiKids (pa : Attrs) (n : Nat) : (cs ks : List Box) → allWList postIIB cs = true →
      (∀ c ∈ cs, (c.ty == .inline) = false ∧ pi_kidShape c = true) → biiKids pa n cs = .ok ks →
      allWList nodeOKw ks = true ∧
      ((∀ c ∈ cs, (c.ty == .line) = false) →
        pi_Sub cs ks ∧ ks.map Box.ty = cs.map Box.ty ∧ ks.map Box.a = cs.map Box.a ∧
        ks.map pi_sigR = cs.map pi_sigR) ∧
      (∀ l, cs = [l] → (l.ty == .line) = true →
        (∃ l', ks = [l'] ∧ l'.ty = .line) ∨ (∀ x ∈ ks, isBlockLevel x.ty = true ∧ pi_free x = true))
    | [], ks, _, _, he => by
      rw [biiKids] at he
      simp [pure, Except.pure] at he
      subst he
      exact ⟨by rw [allWList], fun _ => ⟨(fun _ h => nomatch h), rfl, rfl, rfl⟩, fun l e => by cases e⟩
    | c :: cs, ks, hA, hH, he => by
      rw [allWList, Bool.and_eq_true] at hA
      have hHc := hH c (List.mem_cons_self ..)
      have hH' : ∀ c' ∈ cs, (c'.ty == .inline) = false ∧ pi_kidShape c' = true :=
        fun c' h' => hH c' (List.mem_cons_of_mem _ h')
      rw [biiKids] at he
      by_cases hl : (c.ty == .line) = true
      · rw [if_pos hl] at he
        by_cases hn : (n != 1) = true
        · rw [if_pos hn] at he
          simp [throw, throwThe, MonadExceptOf.throw] at he
        · rw [if_neg hn] at he
          cases hloop : resumeLoop pa (fun st => innerBII c st) (c.size + 1) [] [] with
          | error e => simp [hloop, bind, Except.bind] at he
          | ok p =>
            obtain ⟨frags, last⟩ := p
            cases hrest : biiKids pa n cs with
            | error e => simp [hloop, hrest, bind, Except.bind] at he
            | ok rest =>
              simp only [hloop, hrest, bind, Except.bind, pure, Except.pure] at he
              injection he with he
              subst he
              have hrun : c.a.running = false := by
                have := hHc.2
                unfold pi_kidShape at this
                rw [hl] at this
                simpa using this
              obtain ⟨⟨hP1, hP2⟩, hF⟩ := pi_resumeLoop pa (fun st => innerBII c st)
                (fun nl => nl.ty = .line ∧ allW nodeOKw nl = true) pi_F
                (fun st nl r hs => by
                  obtain ⟨q1, _, q3, q4⟩ := pi_innerBII c st nl r hA.1 hrun (Or.inl (eq_of_beq hl)) hs
                  exact ⟨⟨by rw [q1]; exact eq_of_beq hl, q3⟩, q4⟩)
                (fun nl hp => pi_anonBlock_fin pa nl hp.1 hp.2)
                (c.size + 1) [] [] frags last (fun _ h => nomatch h) hloop
              obtain ⟨i1, _, _⟩ := pi_biiKids pa n cs rest hA.2 hH' hrest
              have hnew : ∀ nc : Box, nc = (if frags.isEmpty = true then last else anonBlock pa [last]) →
                  allW nodeOKw nc = true := by
                intro nc e
                split at e
                · rw [e]; exact hP2
                · rw [e]; exact (pi_anonBlock_fin pa last hP1 hP2).2.2
              refine ⟨?_, fun hno => ?_, fun l e _ => ?_⟩
              · rw [pi_allWList_iff]
                intro x hx
                rcases List.mem_append.1 hx with hx | hx
                · exact (hF x hx).2.2
                · rcases List.mem_cons.1 hx with hx | hx
                  · exact hnew x hx
                  · exact (pi_allWList_iff _ _).1 i1 x hx
              · have := hno c (List.mem_cons_self ..)
                rw [hl] at this; cases this
              · have hcs0 : cs = [] := by cases e; rfl
                subst hcs0
                have hrest0 : rest = [] := by
                  simp [biiKids, pure, Except.pure] at hrest; exact hrest
                subst hrest0
                cases hfe : frags.isEmpty with
                | true =>
                  have : frags = [] := List.isEmpty_iff.1 hfe
                  subst this
                  exact Or.inl ⟨last, by simp, hP1⟩
                | false =>
                  right
                  intro x hx
                  simp only [Bool.false_eq_true, if_false] at hx
                  rcases List.mem_append.1 hx with hx | hx
                  · exact ⟨(hF x hx).1, (hF x hx).2.1⟩
                  · rw [List.mem_singleton] at hx
                    rw [hx]; exact ⟨rfl, rfl⟩
      · rw [if_neg hl] at he
        have hl' : (c.ty == .line) = false := by simpa using hl
        cases hb : blockInInline c with
        | error e => simp [hb, bind, Except.bind] at he
        | ok c' =>
          cases hrest : biiKids pa n cs with
          | error e => simp [hb, hrest, bind, Except.bind] at he
          | ok rest =>
            simp only [hb, hrest, bind, Except.bind, pure, Except.pure] at he
            injection he with he
            subst he
            obtain ⟨e1, e2, e3, e4⟩ := pi_bii c c' hA.1 (by rw [hHc.1]; rfl) hl' hb
            obtain ⟨i1, i2, _⟩ := pi_biiKids pa n cs rest hA.2 hH' hrest
            refine ⟨by rw [allWList, e3, i1]; rfl, fun hno => ?_, fun l e hll => ?_⟩
            · obtain ⟨j0, j1, j2, j3⟩ := i2 (fun x hx => hno x (List.mem_cons_of_mem _ hx))
              refine ⟨fun x hx => ?_, ?_, ?_, ?_⟩
              · rcases List.mem_cons.1 hx with rfl | hx
                · exact ⟨c, List.mem_cons_self .., e1, e2⟩
                · obtain ⟨k1, hk1, e⟩ := j0 x hx
                  exact ⟨k1, List.mem_cons_of_mem _ hk1, e⟩
              · simp only [List.map_cons, e1, j1]
              · simp only [List.map_cons, e2, j2]
              · simp only [List.map_cons, e4, j3]
            · cases e
              rw [hll] at hl'; cases hl'
  termination_by structural cs => cs
  theorem pi_innerBII : (c : Box) → (st : Resume) → (c' : Box) → (r : Option (Box × Resume)) →
      allW postIIB c = true → c.a.running = false → (c.ty = .line ∨ c.ty = .inline) →
      innerBII c st = .ok (c', r) →
      c'.ty = c.ty ∧ c'.a = c.a ∧ allW nodeOKw c' = true ∧ ∀ blk st', r = some (blk, st') → pi_F blk
    | .mk ty a kids cols, st, c', r, h, hr, hty, he => by
      simp only [Box.a] at hr
      simp only [Box.ty] at hty
      obtain ⟨hp, hks, hcs⟩ := pi_allW_unfold postIIB ty a kids cols hr h
      have hp' := (pi_postIIB_iff ty a kids cols).1 hp
      have hcols : allWList nodeOKw cols = true :=
        pi_cols_lift postIIB nodeOKw pi_postIIB_hp pi_postIIB_cols ty a kids cols hp'.2.2.2.1 hcs
      have hK := pi_K_of_postIIB ty a kids cols hp hty hks
      have key : ∀ skip rest,
          innerBII (.mk ty a kids cols) st =
            (innerKids kids 0 skip rest >>= fun p => pure (.mk ty a p.1 cols, p.2)) →
          c'.ty = ty ∧ c'.a = a ∧ allW nodeOKw c' = true ∧ ∀ blk st', r = some (blk, st') → pi_F blk := by
        intro skip rest hm
        rw [hm] at he
        cases hk : innerKids kids 0 skip rest with
        | error e => simp [hk, bind, Except.bind] at he
        | ok p =>
          obtain ⟨ks, r0⟩ := p
          simp [hk, bind, Except.bind, pure, Except.pure] at he
          obtain ⟨e1, e2⟩ := he
          subst e1; subst e2
          obtain ⟨g1, g2⟩ := pi_innerKids kids 0 skip rest ks r0 hK hk
          refine ⟨rfl, rfl, pi_allW_intro _ _ _ _ _ (pi_node2_inl ty a kids ks cols hp hty g1) ?_ hcols, g2⟩
          rw [pi_allWList_iff]; exact fun k hk => (g1 k hk).2.2
      cases st with
      | nil => exact key 0 [] (by rw [innerBII])
      | cons skip rest => exact key skip rest (by rw [innerBII])
  termination_by structural c => c
  theorem pi_innerKids : (cs : List Box) → (idx skip : Nat) → (st : Resume) → (ks : List Box) →
      (r : Option (Box × Resume)) → (∀ c ∈ cs, pi_K c) → innerKids cs idx skip st = .ok (ks, r) →
      (∀ k ∈ ks, pi_I k) ∧ ∀ blk st', r = some (blk, st') → pi_F blk
    | [], _, _, _, ks, r, _, he => by
      simp [innerKids, pure, Except.pure] at he
      obtain ⟨e1, e2⟩ := he
      subst e1; subst e2
      exact ⟨(fun _ h => nomatch h), fun _ _ e => by cases e⟩
    | c :: cs, idx, skip, st, ks, r, hK, he => by
      obtain ⟨k1, k2, k4⟩ := hK c (List.mem_cons_self ..)
      have hK' : ∀ c' ∈ cs, pi_K c' := fun c' h' => hK c' (List.mem_cons_of_mem _ h')
      rw [innerKids] at he
      by_cases h1 : idx < skip
      · rw [if_pos h1] at he
        exact pi_innerKids cs (idx + 1) skip st ks r hK' he
      · rw [if_neg h1] at he
        by_cases h2 : (isBlockLevel c.ty && inNormalFlow c.a) = true
        · rw [if_pos h2] at he
          have hbl := (Bool.and_eq_true_iff.1 h2).1
          have hni : (c.ty == .inline) = false ∧ (c.ty == .line) = false := by
            cases hc : c.ty <;> simp_all [isCls]
          cases hs : st.isEmpty with
          | false => simp [hs, throw, throwThe, MonadExceptOf.throw] at he
          | true =>
            cases hb : blockInInline c with
            | error e => simp [hs, hb, bind, Except.bind] at he
            | ok v =>
              simp [hs, hb, bind, Except.bind, pure, Except.pure] at he
              obtain ⟨e1, e2⟩ := he
              subst e1; subst e2
              obtain ⟨q1, q2, q3, _⟩ := pi_bii c v k4 (by rw [hni.1]; rfl) hni.2 hb
              refine ⟨(fun _ h => nomatch h), fun blk st' e => ?_⟩
              cases e
              exact ⟨by rw [q1]; exact hbl, by rw [pi_free_congr c v q1 q2]; exact k1, q3⟩
        · rw [if_neg h2] at he
          by_cases h3a : (c.ty == .inline && !c.a.running) = true
          · rw [if_pos h3a] at he
            have h3 : (c.ty == .inline) = true := (Bool.and_eq_true_iff.1 h3a).1
            have hrun : c.a.running = false := by
              have := (Bool.and_eq_true_iff.1 h3a).2
              simpa using this
            cases hi : innerBII c st with
            | error e => simp [hi, bind, Except.bind] at he
            | ok p =>
              obtain ⟨c', r0⟩ := p
              obtain ⟨q1, q2, q3, q4⟩ := pi_innerBII c st c' r0 k4 hrun (Or.inr (eq_of_beq h3)) hi
              have hI : pi_I c' := by
                refine ⟨?_, by rw [pi_free_congr c c' q1 q2]; exact k1, q3⟩
                rw [q1, eq_of_beq h3]; rfl
              cases r0 with
              | some q =>
                obtain ⟨blk0, rs⟩ := q
                simp [hi, bind, Except.bind, pure, Except.pure] at he
                obtain ⟨e1, e2⟩ := he
                subst e1; subst e2
                refine ⟨fun x hx => ?_, fun blk st' e => ?_⟩
                · rw [List.mem_singleton] at hx; rw [hx]; exact hI
                · cases e; exact q4 blk0 rs rfl
              | none =>
                cases hk : innerKids cs (idx + 1) skip [] with
                | error e => simp [hi, hk, bind, Except.bind] at he
                | ok p2 =>
                  obtain ⟨rest, r'⟩ := p2
                  simp [hi, hk, bind, Except.bind, pure, Except.pure] at he
                  obtain ⟨e1, e2⟩ := he
                  subst e1; subst e2
                  obtain ⟨g1, g2⟩ := pi_innerKids cs (idx + 1) skip [] rest r' hK' hk
                  refine ⟨fun x hx => ?_, g2⟩
                  rcases List.mem_cons.1 hx with hx | hx
                  · rw [hx]; exact hI
                  · exact g1 x hx
          · rw [if_neg h3a] at he
            have h3' : (c.ty == .inline && !c.a.running) = false := by
              cases hh : (c.ty == .inline && !c.a.running) with
              | false => rfl
              | true => exact absurd hh h3a
            have hnl : (c.ty == .line) = false := by
              unfold pi_free pi_freeT at k1
              cases hc : c.ty <;> simp_all
            cases hs : st.isEmpty with
            | false => simp [hs, throw, throwThe, MonadExceptOf.throw] at he
            | true =>
              cases hb : blockInInline c with
              | error e => simp [hs, hb, bind, Except.bind] at he
              | ok v =>
                cases hk : innerKids cs (idx + 1) skip [] with
                | error e => simp [hs, hb, hk, bind, Except.bind] at he
                | ok p2 =>
                  obtain ⟨rest, r'⟩ := p2
                  simp [hs, hb, hk, bind, Except.bind, pure, Except.pure] at he
                  obtain ⟨e1, e2⟩ := he
                  subst e1; subst e2
                  obtain ⟨q1, q2, q3, _⟩ := pi_bii c v k4 h3' hnl hb
                  obtain ⟨g1, g2⟩ := pi_innerKids cs (idx + 1) skip [] rest r' hK' hk
                  refine ⟨fun x hx => ?_, g2⟩
                  rcases List.mem_cons.1 hx with hx | hx
                  · rw [hx]
                    refine ⟨?_, by rw [pi_free_congr c v q1 q2]; exact k1, q3⟩
                    rw [q1, q2]
                    cases hfl : inNormalFlow c.a with
                    | false => simp
                    | true =>
                      rw [hfl, Bool.and_true] at h2
                      rcases pi_level_of_free c k1 k2 with t | t
                      · exact absurd t h2
                      · rw [t]; rfl
                  · exact g1 x hx
  termination_by structural cs => cs
end

/-- deliverable (3): BlockInInline turns the shape `postIIB` into `nodeOKw` everywhere, provided the root
    is no inline box (and no line box) -/
theorem blockInInline_nodeOKw (i o : Box) (h : allW postIIB i = true) (hi : (i.ty == .inline) = false)
    (hl : (i.ty == .line) = false) (ho : blockInInline i = .ok o) :
    o.ty = i.ty ∧ o.a = i.a ∧ allW nodeOKw o = true := by
  obtain ⟨h1, h2, h3, _⟩ := pi_bii i o h (by rw [hi]; rfl) hl ho
  exact ⟨h1, h2, h3⟩

/-- the same with the root hypothesis weakened: a RUNNING inline root is fine (it is opaque) -/
theorem blockInInline_nodeOKw' (i o : Box) (h : allW postIIB i = true)
    (hi : (i.ty == .inline && !i.a.running) = false)
    (hl : (i.ty == .line) = false) (ho : blockInInline i = .ok o) :
    o.ty = i.ty ∧ o.a = i.a ∧ allW nodeOKw o = true := by
  obtain ⟨h1, h2, h3, _⟩ := pi_bii i o h hi hl ho
  exact ⟨h1, h2, h3⟩

/-! ### the combined theorem -/

/-- deliverable (4).  The hypothesis `hroot` is needed: see `pi_inline_root_counterexample`.  (The root of
    the formatting structure is block-level by `wfRoot`.) -/
theorem inlinePasses_wfw (g : Box) (h : allW postGrid g = true) (hroot : (g.ty == .inline) = false) :
    ∃ i o, inlineInBlock g = .ok i ∧ blockInInline i = .ok o ∧ o.ty = g.ty ∧ o.a = g.a ∧
      allW nodeOKw o = true := by
  obtain ⟨i, o, hi, ho, e1, e2, _, _⟩ := pi_passes_ok g h
  refine ⟨i, o, hi, ho, e1, e2, ?_⟩
  cases hr : g.a.running with
  | true => exact pi_allW_of_running nodeOKw o (by rw [e2]; exact hr)
  | false =>
    obtain ⟨q1, q2, q3, _⟩ := pi_iib g i h hi
    have hl : (g.ty == .line) = false := by
      cases g with
      | mk ty a kids cols =>
        simp only [Box.a] at hr
        have hp := (pi_allW_unfold postGrid ty a kids cols hr h).1
        have := ((pi_postGrid_iff ty a kids cols).1 hp).1
        simp only [Box.ty]
        unfold rawTy at this
        cases ty <;> simp_all
    exact (blockInInline_nodeOKw i o q3 (by rw [q1]; exact hroot) (by rw [q1]; exact hl) ho).2.2

theorem inlinePasses_wfw_blockLevel (g : Box) (h : allW postGrid g = true) (hroot : isBlockLevel g.ty = true) :
    ∃ i o, inlineInBlock g = .ok i ∧ blockInInline i = .ok o ∧ o.ty = g.ty ∧ o.a = g.a ∧
      allW nodeOKw o = true :=
  inlinePasses_wfw g h (by cases hc : g.ty <;> simp_all [isCls])

/-! ### the statement without `hroot` is false -/

/-- an inline root holding a block: `postGrid` holds, both passes leave the tree alone, `inlineOK` fails
    at the root -/
def pi_inlineRoot : Box := .mk .inline {} [.mk .block {} [] []] []

theorem pi_inline_root_counterexample :
    allW postGrid pi_inlineRoot = true ∧ inlineInBlock pi_inlineRoot = .ok pi_inlineRoot ∧
    blockInInline pi_inlineRoot = .ok pi_inlineRoot ∧ allW nodeOKw pi_inlineRoot = false :=
  ⟨by decide, rfl, rfl, by decide⟩

/-! ### non-vacuity -/

/-- a block holding an inline box (text "a", a block with text "c", text "b") and a table wrapper
    (caption, table with one row group / row / cell and one column group) -/
def pi_ex : Box :=
  .mk .block {} [
    .mk .inline {} [
      .mk .text { text := "a" } [] [],
      .mk .block {} [.mk .text { text := "c" } [] []] [],
      .mk .text { text := "b" } [] []] [],
    .mk .block { tw := true } [
      .mk .tableCaption {} [.mk .text { text := "t" } [] []] [],
      .mk .table {} [
        .mk .tableRowGroup {} [
          .mk .tableRow {} [.mk .tableCell { colspan := 1, rowspan := 1 } [.mk .text { text := "x" } [] []] []] []] []]
        [.mk .tableColumnGroup {} [.mk .tableColumn {} [] []] []]] []] []

example : allW postGrid pi_ex = true := by decide

example : ∃ i o, inlineInBlock pi_ex = .ok i ∧ blockInInline i = .ok o ∧ allW nodeOKw o = true ∧
    allW postIIB i = true ∧ (o.kids.map Box.ty) = [.block, .block] ∧
    (o.kids.map fun k => k.kids.map Box.ty) = [[.block, .block, .block], [.tableCaption, .table]] :=
  ⟨_, _, rfl, rfl, by decide, by decide, by decide, by decide⟩

/-- a block holding a RUNNING inline box (text "a", a block with text "b") and text "c": the running inline
    box is allowed by `postGrid`, it is put into the line box as it is and never entered -/
def pi_ex2 : Box :=
  .mk .block {} [
    .mk .inline { running := true } [
      .mk .text { text := "a" } [] [],
      .mk .block {} [.mk .text { text := "b" } [] []] []] [],
    .mk .text { text := "c" } [] []] []

example : allW postGrid pi_ex2 = true := by decide

example : ∃ i o, inlineInBlock pi_ex2 = .ok i ∧ blockInInline i = .ok o ∧ allW nodeOKw o = true ∧
    allW postIIB i = true ∧ (o.kids.map Box.ty) = [.line] ∧
    (o.kids.map fun k => k.kids.map Box.ty) = [[.inline, .text]] ∧
    (o.kids.map fun k => k.kids.map fun c => c.kids.map Box.ty) = [[[.text, .block], []]] :=
  ⟨_, _, rfl, rfl, by decide, by decide, by decide, by decide, by decide⟩

end WR.C09

/-
  Status.  Everything asked for is proved, with ONE deviation from the wished statement:
  * `inlinePasses_wfw` has the extra hypothesis `hroot : (g.ty == .inline) = false`.  Without it the
    statement is FALSE: `pi_inline_root_counterexample` (an `.inline` root holding an in-flow `.block`
    satisfies `allW postGrid`, both passes return it unchanged, `inlineOK` fails at the root).  BlockInInline
    only splits inline boxes that sit in a line box, and only block containers get line boxes; an inline
    ROOT is never in a line.  `wfRoot` demands a block-level root, see `inlinePasses_wfw_blockLevel`.
  * Running inline boxes are allowed in `postGrid` trees (and in `postIIB`: `pi_kidShape` only forbids running
    LINE boxes).  `innerKids` does not enter them; `pi_bii` takes `(b.ty == .inline && !b.a.running) = false`,
    so a running inline child of a line / inline box is kept as it is (`pi_ex2`).
  * The success of both passes is taken from `inline_passes_wf` (`pi_passes_ok`); the invariants are
    proved in "given ok" style (`pi_iib`/`pi_iibList`, `pi_bii`/`pi_biiKids`/`pi_innerBII`/`pi_innerKids`,
    `pi_resumeLoop`), so no stack-validity argument is repeated.
-/
