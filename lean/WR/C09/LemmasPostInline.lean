import WR.C09.LemmasCompose
import WR.C09.Shape2
namespace WR.C09

/-! ### `allW` plumbing -/

theorem pi_allW_mk (p : Ty → Attrs → List Box → List Box → Bool) (ty : Ty) (a : Attrs) (kids cols : List Box) :
    allW p (.mk ty a kids cols) = (a.running || (p ty a kids cols && allWList p kids && allWList p cols)) := by
  rw [allW]

theorem pi_allWList_iff (p : Ty → Attrs → List Box → List Box → Bool) :
    ∀ ks : List Box, allWList p ks = true ↔ ∀ k ∈ ks, allW p k = true
  | [] => by simp [allWList]
  | k :: ks => by simp [allWList, pi_allWList_iff p ks]

theorem pi_allW_unfold (p : Ty → Attrs → List Box → List Box → Bool) (ty : Ty) (a : Attrs) (kids cols : List Box)
    (hr : a.running = false) (h : allW p (.mk ty a kids cols) = true) :
    p ty a kids cols = true ∧ allWList p kids = true ∧ allWList p cols = true := by
  rw [pi_allW_mk, hr, Bool.false_or, Bool.and_eq_true, Bool.and_eq_true] at h
  exact ⟨h.1.1, h.1.2, h.2⟩

theorem pi_allW_intro (p : Ty → Attrs → List Box → List Box → Bool) (ty : Ty) (a : Attrs) (kids cols : List Box)
    (h1 : p ty a kids cols = true) (h2 : allWList p kids = true) (h3 : allWList p cols = true) :
    allW p (.mk ty a kids cols) = true := by
  rw [pi_allW_mk, h1, h2, h3]; simp

theorem pi_allW_running (p : Ty → Attrs → List Box → List Box → Bool) (ty : Ty) (a : Attrs) (kids cols : List Box)
    (hr : a.running = true) : allW p (.mk ty a kids cols) = true := by
  rw [pi_allW_mk, hr]; rfl

mutual
  theorem pi_allW_mono (p q : Ty → Attrs → List Box → List Box → Bool)
      (hpq : ∀ ty a k c, p ty a k c = true → q ty a k c = true) :
      (b : Box) → allW p b = true → allW q b = true
    | .mk ty a kids cols, h => by
      cases hr : a.running with
      | true => exact pi_allW_running q ty a kids cols hr
      | false =>
        obtain ⟨h1, h2, h3⟩ := pi_allW_unfold p ty a kids cols hr h
        exact pi_allW_intro q ty a kids cols (hpq _ _ _ _ h1) (pi_allWList_mono p q hpq kids h2)
          (pi_allWList_mono p q hpq cols h3)
  theorem pi_allWList_mono (p q : Ty → Attrs → List Box → List Box → Bool)
      (hpq : ∀ ty a k c, p ty a k c = true → q ty a k c = true) :
      (ks : List Box) → allWList p ks = true → allWList q ks = true
    | [], _ => by rw [allWList]
    | k :: ks, h => by
      rw [allWList, Bool.and_eq_true] at h
      rw [allWList, pi_allW_mono p q hpq k h.1, pi_allWList_mono p q hpq ks h.2]; rfl
end

mutual
  /-- `allN` visits a subset of the boxes `allW` visits -/
  theorem pi_allN_of_allW (p : Ty → Attrs → List Box → Bool) (q : Ty → Attrs → List Box → List Box → Bool)
      (hpq : ∀ ty a k c, q ty a k c = true → p ty a k = true) :
      (b : Box) → allW q b = true → allN p b = true
    | .mk ty a kids cols, h => by
      cases hr : a.running with
      | true => rw [allN, hr]; rfl
      | false =>
        obtain ⟨h1, h2, _⟩ := pi_allW_unfold q ty a kids cols hr h
        rw [allN, hpq _ _ _ _ h1, pi_allNList_of_allW p q hpq kids h2]; simp
  theorem pi_allNList_of_allW (p : Ty → Attrs → List Box → Bool) (q : Ty → Attrs → List Box → List Box → Bool)
      (hpq : ∀ ty a k c, q ty a k c = true → p ty a k = true) :
      (ks : List Box) → allWList q ks = true → allNList p ks = true
    | [], _ => by rw [allNList]
    | k :: ks, h => by
      rw [allWList, Bool.and_eq_true] at h
      rw [allNList, pi_allN_of_allW p q hpq k h.1, pi_allNList_of_allW p q hpq ks h.2]; rfl
end

/-! ### (a), (b): type analysis from `postGrid` -/

/-- a box that may be a child of any parent: depends on the type and the running flag only -/
def pi_freeT (t : Ty) (r : Bool) : Bool :=
  match t with
  | .line | .tableCaption | .tableRowGroup | .tableRow | .tableCell | .tableColumn | .tableColumnGroup => false
  | .table | .inlineTable => r
  | _ => true

def pi_free (c : Box) : Bool := pi_freeT c.ty c.a.running

theorem pi_free_allowed (pty : Ty) (pa : Attrs) (c : Box) (h : pi_free c = true) :
    childAllowed pty pa c = true := by
  unfold pi_free pi_freeT at h
  unfold childAllowed
  cases hc : c.ty <;> simp_all

/-- under a parent that is no wrapper, table, row group, row or column group an allowed child that
    is not a line box is allowed everywhere -/
theorem pi_free_of_allowed (pty : Ty) (pa : Attrs) (c : Box) (h : childAllowed pty pa c = true)
    (htw : pa.tw = false) (h1 : isTable pty = false) (h2 : (pty == .tableRowGroup) = false)
    (h3 : (pty == .tableRow) = false) (h4 : (pty == .tableColumnGroup) = false)
    (hl : (c.ty == .line) = false) : pi_free c = true := by
  unfold childAllowed at h
  unfold pi_free pi_freeT
  cases hc : c.ty <;> simp_all

theorem pi_level_of_free (c : Box) (h : pi_free c = true) (hr : rawTy c.ty = true) :
    isBlockLevel c.ty = true ∨ isInlineLevel c.ty = true := by
  unfold pi_free pi_freeT at h
  unfold rawTy at hr
  cases hc : c.ty <;> simp_all [isCls]

theorem pi_bc_plain (ty : Ty) (h : isBlockContainer ty = true ∨ ty = .inline ∨ ty = .line) :
    isTable ty = false ∧ (ty == .tableRowGroup) = false ∧ (ty == .tableRow) = false ∧
    (ty == .tableColumnGroup) = false ∧ isFlexContainer ty = false ∧ isGridContainer ty = false := by
  cases ty <;> simp_all [isCls]

/-- the clauses of `postGrid` -/
theorem pi_postGrid_iff (ty : Ty) (a : Attrs) (kids cols : List Box) :
    postGrid ty a kids cols = true ↔
      rawTy ty = true ∧ (isParent ty || kids.isEmpty) = true ∧
      (∀ c ∈ kids, rawTy c.ty = true ∧ (c.ty == .inline && c.a.running) = false) ∧
      (∀ c ∈ kids, childAllowed ty a c = true) ∧ tableKidsOK ty a kids cols = true ∧
      gridOKw ty kids = true ∧ ((ty == .tableColumn) = true → kids = []) ∧ flexGridOK ty kids = true := by
  simp only [postGrid, postTable, Bool.and_eq_true, List.all_eq_true, Bool.or_eq_true, Bool.not_eq_true',
    List.isEmpty_iff]
  constructor
  · rintro ⟨⟨⟨⟨⟨⟨⟨h1, h2⟩, h3⟩, h4⟩, h5⟩, h6⟩, h7⟩, h8⟩
    refine ⟨h1, h2, h3, h4, h5, h6, fun e => ?_, h8⟩
    rcases h7 with h | h
    · rw [e] at h; cases h
    · exact h
  · rintro ⟨h1, h2, h3, h4, h5, h6, h7, h8⟩
    refine ⟨⟨⟨⟨⟨⟨⟨h1, h2⟩, h3⟩, h4⟩, h5⟩, h6⟩, ?_⟩, h8⟩
    cases e : (ty == Ty.tableColumn) with
    | true => exact Or.inr (h7 e)
    | false => exact Or.inl rfl

theorem pi_tko_tw (ty : Ty) (a : Attrs) (kids cols : List Box) (h : tableKidsOK ty a kids cols = true)
    (htw : a.tw = true) :
    (ty = .block ∨ ty = .inlineBlock) ∧ ∀ c ∈ kids, c.ty = .tableCaption ∨ isTable c.ty = true := by
  simp only [tableKidsOK, htw, Bool.not_true, Bool.false_or, Bool.and_eq_true, Bool.or_eq_true,
    List.all_eq_true, beq_iff_eq] at h
  exact ⟨h.1.1.1.1.1.1.1, h.1.1.1.1.1.1.2⟩

/-- (a) at a block container or inline box every child is block-level or inline-level -/
theorem pi_kids_level (ty : Ty) (a : Attrs) (kids cols : List Box) (h : postGrid ty a kids cols = true)
    (hty : isBlockContainer ty = true ∨ ty = .inline) :
    ∀ k ∈ kids, isBlockLevel k.ty = true ∨ isInlineLevel k.ty = true := by
  obtain ⟨_, _, h3, h4, h5, _, _, _⟩ := (pi_postGrid_iff ty a kids cols).1 h
  intro k hk
  cases htw : a.tw with
  | true =>
    rcases (pi_tko_tw ty a kids cols h5 htw).2 k hk with e | e
    · left; rw [e]; rfl
    · left; cases hc : k.ty <;> simp_all [isCls]
  | false =>
    have hp := pi_bc_plain ty (by rcases hty with h | h; exact Or.inl h; exact Or.inr (Or.inl h))
    have hl : (k.ty == .line) = false := by
      have := (h3 k hk).1
      unfold rawTy at this
      cases hc : k.ty <;> simp_all
    exact pi_level_of_free k (pi_free_of_allowed ty a k (h4 k hk) htw hp.1 hp.2.1 hp.2.2.1 hp.2.2.2.1 hl)
      (h3 k hk).1

/-- (b) an inline box is a child of a block container or of an inline box only -/
theorem pi_inline_parent (ty : Ty) (a : Attrs) (kids cols : List Box) (h : postGrid ty a kids cols = true)
    (k : Box) (hk : k ∈ kids) (hi : k.ty = .inline) : isBlockContainer ty = true ∨ ty = .inline := by
  obtain ⟨h1, h2, _, _, h5, _, h7, h8⟩ := (pi_postGrid_iff ty a kids cols).1 h
  have hne : kids ≠ [] := by intro e; rw [e] at hk; cases hk
  have hne' : kids.isEmpty = false := by cases kids with | nil => exact absurd rfl hne | cons _ _ => rfl
  simp only [flexGridOK, Bool.or_eq_true, Bool.not_eq_true', List.all_eq_true] at h8
  simp only [tableKidsOK, Bool.and_eq_true, Bool.or_eq_true, Bool.not_eq_true', List.all_eq_true,
    beq_iff_eq] at h5
  obtain ⟨⟨⟨⟨⟨_, t2⟩, t3⟩, t4⟩, t5⟩, _⟩ := h5
  have g8 := fun hh => (h8.resolve_left hh) k hk
  have g2 := fun hh => ((t2.resolve_left hh).1) k hk
  have g3 := fun hh => (t3.resolve_left hh) k hk
  have g4 := fun hh => (t4.resolve_left hh) k hk
  have g5 := fun hh => (t5.resolve_left hh) k hk
  rw [hi] at g8 g2 g3 g4 g5
  rw [hne'] at h2
  unfold rawTy at h1
  cases ty <;> simp_all [isCls]

theorem pi_preIIB_of_postGrid (ty : Ty) (a : Attrs) (kids cols : List Box)
    (h : postGrid ty a kids cols = true) : preIIB ty a kids = true := by
  obtain ⟨_, _, h3, _, _, _, _, _⟩ := (pi_postGrid_iff ty a kids cols).1 h
  simp only [preIIB, Bool.and_eq_true, List.all_eq_true, Bool.or_eq_true, Bool.not_eq_true']
  refine ⟨fun c hc => ?_, ?_⟩
  · have := (h3 c hc).1
    unfold rawTy at this
    cases hc : c.ty <;> simp_all
  · cases hb : isBlockContainer ty with
    | false => exact Or.inl rfl
    | true => exact Or.inr (pi_kids_level ty a kids cols h (Or.inl hb))

theorem pi_noRunInl_of_postGrid (ty : Ty) (a : Attrs) (kids cols : List Box)
    (h : postGrid ty a kids cols = true) : noRunInl ty a kids = true := by
  obtain ⟨_, _, h3, _, _, _, _, _⟩ := (pi_postGrid_iff ty a kids cols).1 h
  simp only [noRunInl, List.all_eq_true, Bool.not_eq_true']
  exact fun c hc => (h3 c hc).2

/-- (a) both inline passes succeed on a `postGrid` tree -/
theorem pi_passes_ok (g : Box) (h : allW postGrid g = true) :
    ∃ i o, inlineInBlock g = .ok i ∧ blockInInline i = .ok o ∧ o.ty = g.ty ∧ o.a = g.a ∧
      allN bcOK o = true ∧ allN linesClean o = true :=
  inline_passes_wf g (pi_allN_of_allW preIIB postGrid pi_preIIB_of_postGrid g h)
    (pi_allN_of_allW noRunInl postGrid pi_noRunInl_of_postGrid g h)

end WR.C09
