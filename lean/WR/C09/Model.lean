/-
  C09 — executable model of the anonymous-box passes of /repo/html/boxes/build.go
  (`CreateAnonymousBox` = AnonymousTableBoxes ∘ FlexBoxes ∘ GridBoxes ∘ InlineInBlock ∘ BlockInInline),
  of the `IsInstance` lattice of /repo/html/boxes/stubs.go and of the three table-model flags of
  boxes_tree.go.  Core Lean only.  Quirks of the Go code are kept (see the comments marked QUIRK).

  Conventions
  * a box is `(concrete type, attributes, children, column groups)`; `cols` mirrors
    `TableBox.ColumnGroups` (empty for every other type);
  * `Attrs` holds what the passes read or write: text, the element identity and its
    colspan/rowspan/span attributes as parsed by `strconv.Atoi` (anonymous boxes share the
    element of the box they are made from), the style facts float≠none / position absolute|fixed /
    position running() / white-space ∈ {normal,nowrap,pre-line} / caption-side / row-group display,
    and the flags IsTableWrapper, IsHeader, IsFooter, IsFlexItem, IsGridItem, Colspan, Rowspan, GridX;
  * a running box (`position: running()`) is returned unchanged by every pass and never entered;
  * Go panics are `Except.error`; loops that are not structural carry explicit fuel
    (`Except.error "fuel"` when it runs out; theorems in WR/Props/C09.lean show it does not);
  * not modelled (no influence on the tree shape): Leading/TrailingCollapsibleSpace bookkeeping of
    InlineInBlock, the collapsed-border grid of wrapTable (C13), style copies other than the facts above.
-/
namespace WR.C09

/-- the 23 concrete box types of stubs.go -/
inductive Ty where
  | block | blockReplaced | flex | footnoteArea | grid | inlineBlock | inline | inlineFlex
  | inlineGrid | inlineReplaced | inlineTable | line | margin | page | replaced | table
  | tableCaption | tableCell | tableColumn | tableColumnGroup | tableRow | tableRowGroup | text
  deriving DecidableEq, Repr, Inhabited

/-- the abstract classes of stubs.go that are not concrete types themselves -/
inductive Cls where
  | atomicInlineLevel | blockContainer | blockLevel | box | flexContainer | gridContainer
  | inlineLevel | parent | replacedC | tableC | blockC
  deriving DecidableEq, Repr, Inhabited

open Ty in
/-- `BoxType.IsInstance` restricted to the abstract classes (interface satisfaction in stubs.go). -/
def isCls : Cls → Ty → Bool
  | .atomicInlineLevel, t => t == inlineBlock || t == inlineReplaced
  | .blockContainer, t => t == block || t == footnoteArea || t == inlineBlock || t == margin || t == tableCaption || t == tableCell
  | .blockLevel, t => t == block || t == blockReplaced || t == flex || t == footnoteArea || t == grid || t == inlineTable || t == table || t == tableCaption
  | .box, _ => true
  | .flexContainer, t => t == flex || t == inlineFlex
  | .gridContainer, t => t == grid || t == inlineGrid
  | .inlineLevel, t => t == inlineBlock || t == Ty.inline || t == inlineFlex || t == inlineGrid || t == inlineReplaced || t == text
  | .parent, t => !(t == blockReplaced || t == inlineReplaced || t == replaced || t == text)
  | .replacedC, t => t == blockReplaced || t == inlineReplaced || t == replaced
  | .tableC, t => t == table || t == inlineTable
  | .blockC, t => t == block || t == footnoteArea || t == tableCaption

abbrev isBlockLevel (t : Ty) : Bool := isCls .blockLevel t
abbrev isInlineLevel (t : Ty) : Bool := isCls .inlineLevel t
abbrev isBlockContainer (t : Ty) : Bool := isCls .blockContainer t
abbrev isParent (t : Ty) : Bool := isCls .parent t
abbrev isFlexContainer (t : Ty) : Bool := isCls .flexContainer t
abbrev isGridContainer (t : Ty) : Bool := isCls .gridContainer t
abbrev isTable (t : Ty) : Bool := isCls .tableC t

open Ty in
/-- boxes_tree.go: `properTableChild` is set by the constructors of exactly these types -/
def properTableChild (t : Ty) : Bool :=
  t == tableRowGroup || t == tableRow || t == tableColumnGroup || t == tableColumn || t == tableCaption
open Ty in
def internalTableOrCaption (t : Ty) : Bool := properTableChild t || t == tableCell
open Ty in
def tabularContainer (t : Ty) : Bool := t == table || t == inlineTable || t == tableRowGroup || t == tableRow

open Ty in
/-- boxes.go `parent.IsInProperParents(child)` -/
def isInProperParents (parent child : Ty) : Bool :=
  if child == tableRowGroup || child == tableColumnGroup || child == tableCaption then parent == table || parent == inlineTable
  else if child == tableRow then parent == table || parent == inlineTable || parent == tableRowGroup
  else if child == tableColumn then parent == table || parent == inlineTable || parent == tableColumnGroup
  else false

structure Attrs where
  text : String := ""
  el : Int := 0            -- element identity (element index * 8 + pseudo-element code)
  ec : Option Int := none  -- Atoi(TrimSpace(element.colspan)), none on error
  er : Option Int := none  -- … rowspan
  es : Option Int := none  -- … span
  floated : Bool := false  -- Style.float ≠ none
  absPos : Bool := false   -- position absolute | fixed
  running : Bool := false  -- position running(…)
  wsc : Bool := true       -- white-space ∈ {normal, nowrap, pre-line}
  cap : Nat := 0           -- caption-side: 0 top, 1 bottom, 2 anything else
  disp : Nat := 0          -- display: 1 table-header-group, 2 table-footer-group, 0 anything else
  tw : Bool := false       -- IsTableWrapper
  hd : Bool := false       -- IsHeader
  ft : Bool := false       -- IsFooter
  fi : Bool := false       -- IsFlexItem
  gi : Bool := false       -- IsGridItem
  colspan : Nat := 0
  rowspan : Nat := 0
  gridX : Nat := 0
  deriving DecidableEq, Repr, Inhabited

inductive Box where
  | mk (ty : Ty) (a : Attrs) (kids : List Box) (cols : List Box)
  deriving Repr, Inhabited

namespace Box
def ty : Box → Ty | mk t _ _ _ => t
def a : Box → Attrs | mk _ a _ _ => a
def kids : Box → List Box | mk _ _ k _ => k
def cols : Box → List Box | mk _ _ _ c => c
def setA (b : Box) (a : Attrs) : Box := mk b.ty a b.kids b.cols
def setKids (b : Box) (k : List Box) : Box := mk b.ty b.a k b.cols
end Box

/-- boxes.go `IsInNormalFlow` (a footnote is floated, so `IsFootnote` adds nothing) -/
def inNormalFlow (a : Attrs) : Bool := !(a.floated || a.absPos || a.running)

/-- boxes_tree.go `integerAttribute` after `strconv.Atoi(strings.TrimSpace(attr))` -/
def intAttr (parsed : Option Int) (minimum : Nat) : Nat :=
  match parsed with
  | none => 1
  | some v => if v < (minimum : Int) then minimum else v.toNat

/-- `XxxBoxAnonymousFrom(parent, nil)`: the element and the inherited style facts (white-space,
    caption-side) come from the parent, everything else is initial; a cell reads its spans from
    the (parent's) element (QUIRK: an anonymous cell made inside `<tr colspan=3>` has Colspan 3). -/
def anonAttrs (t : Ty) (p : Attrs) : Attrs :=
  { el := p.el, ec := p.ec, er := p.er, es := p.es, wsc := p.wsc, cap := p.cap,
    colspan := if t == .tableCell then intAttr p.ec 1 else 0,
    rowspan := if t == .tableCell then intAttr p.er 0 else 0 }

def anon (t : Ty) (p : Attrs) (kids : List Box) : Box := .mk t (anonAttrs t p) kids []

/-- Go regexp `\S` does not match: every char is one of `[\t\n\f\r ]` -/
def goSpace (c : Char) : Bool := c == ' ' || c == '\t' || c == '\n' || c == '\x0c' || c == '\r'

/-- build.go `isWhitespace(box, nil)` -/
def isWs (b : Box) : Bool := b.ty == .text && b.a.text.toList.all goSpace

/-- `strings.Trim(text, " ") == ""` -/
def onlySpaces (s : String) : Bool := s.toList.all (· == ' ')

abbrev R := Except String

/-! ## Table fix-up: tableBoxesChildren / wrapImproper / wrapTable -/

/-- rule 1.3 -/
def rule13 (cs : List Box) : List Box :=
  let cs1 := match cs.reverse with
    | t :: i :: _ => if internalTableOrCaption i.ty && isWs t then cs.dropLast else cs
    | _ => cs
  match cs1 with
  | t :: i :: rest => if internalTableOrCaption i.ty && isWs t then i :: rest else cs1
  | _ => cs1

/-- rule 1.4; `prev` is the previous child of the list the loop ranges over -/
def rule14 : Option Box → List Box → List Box
  | _, [] => []
  | prev, c :: rest =>
    let drop := (prev.any fun p => internalTableOrCaption p.ty) &&
                (rest.head?.any fun n => internalTableOrCaption n.ty) && isWs c
    if drop then rule14 (some c) rest else c :: rule14 (some c) rest

/-- the `wrapImproperIterator`, run to completion: `imp` is `iter.improper`.
    QUIRK: in a flex container the children failing the test are dropped, not wrapped. -/
def wrapGo (wrap : List Box → R Box) (isFlex : Bool) (test : Box → Bool) : List Box → List Box → R (List Box)
  | [], imp => if imp.isEmpty then pure [] else do let w ← wrap imp; pure [w]
  | c :: cs, imp =>
    if test c then do
      let rest ← wrapGo wrap isFlex test cs []
      if imp.isEmpty then pure (c :: rest) else do let w ← wrap imp; pure (w :: c :: rest)
    else if isFlex then wrapGo wrap isFlex test cs imp
    else wrapGo wrap isFlex test cs (imp ++ [c])

/-- `for occupiedCellsInThisRow[gridX] { gridX += 1 }`; the occupied set is finite, `fuel` = its size.
    Erasing the slot just passed does not change later membership tests (they are about larger slots). -/
def firstFreeAux : Nat → List Nat → Nat → Nat
  | 0, _, gx => gx
  | f + 1, occ, gx => if occ.contains gx then firstFreeAux f (occ.erase gx) (gx + 1) else gx

def firstFree (occ : List Nat) (gx : Nat) : Nat := firstFreeAux occ.length occ gx

/-- add `slots` to the occupancy of the first `n` following rows -/
def markFirst : Nat → List (List Nat) → List Nat → List (List Nat)
  | 0, fs, _ => fs
  | _, [], _ => []
  | n + 1, f :: fs, slots => (f ++ slots) :: markFirst n fs slots

/-- effective rowspan of a cell when `following` rows remain after its row in the group -/
def clipRowspan (rowspan following : Nat) : Nat :=
  if rowspan == 1 then 1 else if rowspan == 0 then following + 1 else min rowspan (following + 1)

/-- the inner loop of wrapTable over the cells of one row -/
def cellsGo : List Box → List Nat → List (List Nat) → Nat → List Box × List (List Nat)
  | [], _, following, _ => ([], following)
  | c :: cs, occThis, following, gx0 =>
    let gx := firstFree occThis gx0
    let newGx := gx + c.a.colspan
    let rs := clipRowspan c.a.rowspan following.length
    let following' := if c.a.rowspan == 1 then following else markFirst (rs - 1) following (List.range' gx c.a.colspan)
    let c' := c.setA { c.a with gridX := gx, rowspan := rs }
    let r := cellsGo cs occThis following' newGx
    (c' :: r.1, r.2)

/-- the loop over the rows of one row group; `occs` is `occupiedCellsByRow` -/
def rowsGo : List Box → List (List Nat) → R (List Box)
  | [], _ => pure []
  | _ :: _, [] => throw "index out of range (occupiedCellsByRow)"
  | row :: rows, occThis :: following => do
    let r := cellsGo row.kids occThis following 0
    let rest ← rowsGo rows r.2
    pure (row.setKids r.1 :: rest)

def groupGo (g : Box) : R Box := do
  let rows ← rowsGo g.kids (List.replicate g.kids.length [])
  pure (g.setKids rows)

def groupsGo : List Box → R (List Box)
  | [] => pure []
  | g :: gs => do let g' ← groupGo g; let r ← groupsGo gs; pure (g' :: r)

/-- `TableColumnGroupBox.span()` -/
def colGroupSpan (g : Box) : Nat := if g.kids.length != 0 then g.kids.length else intAttr g.a.es 1

def numberCols : Nat → List Box → List Box
  | _, [] => []
  | gx, c :: cs => c.setA { c.a with gridX := gx } :: numberCols (gx + 1) cs

/-- "Assign X positions on the grid to column boxes" -/
def assignCols : Nat → List Box → List Box
  | _, [] => []
  | gx, g :: gs =>
    let g1 := g.setA { g.a with gridX := gx }
    if g.kids.length > 0 then g1.setKids (numberCols gx g.kids) :: assignCols (gx + g.kids.length) gs
    else g1 :: assignCols (gx + colGroupSpan g) gs

/-- "Extract the optional header and footer groups" -/
def splitGroups : List Box → Option Box → Option Box → List Box → List Box
  | [], h, f, body => h.toList ++ body ++ f.toList
  | g :: gs, h, f, body =>
    if g.a.disp == 1 && h.isNone then splitGroups gs (some (g.setA { g.a with hd := true })) f body
    else if g.a.disp == 2 && f.isNone then splitGroups gs h (some (g.setA { g.a with ft := true })) body
    else splitGroups gs h f (body ++ [g])

/-- "Group table children by type": `*byType[child.Type()] = append(…)` panics on other types -/
def byType : List Box → R (List Box × List Box × List Box)
  | [] => pure ([], [], [])
  | c :: cs => do
    let (co, ro, ca) ← byType cs
    if c.ty == .tableColumn || c.ty == .tableColumnGroup then pure (c :: co, ro, ca)
    else if c.ty == .tableRow || c.ty == .tableRowGroup then pure (co, c :: ro, ca)
    else if c.ty == .tableCaption then pure (co, ro, c :: ca)
    else throw "wrapTable: child is not a table box (nil map entry)"

/-- wrapTable, given the recursive `tbc` for the wrappers it creates -/
def wrapTable (tbc : Box → List Box → R Box) (box : Box) (children : List Box) : R Box := do
  let (columns, rows, captions) ← byType children
  let capTop := captions.filter (·.a.cap == 0)
  let capBottom := captions.filter (·.a.cap == 1)
  let colGroups ← wrapGo (fun imp => tbc (anon .tableColumnGroup box.a []) imp) false (·.ty == .tableColumnGroup) columns []
  let colGroups := assignCols 0 colGroups
  let rowGroups ← wrapGo (fun imp => tbc (anon .tableRowGroup box.a []) imp) false (·.ty == .tableRowGroup) rows []
  let rowGroups := splitGroups rowGroups none none []
  let rowGroups ← groupsGo rowGroups
  -- float and position (TableWrapperBoxProperties) move to the wrapper, the table gets the initial values
  let table := Box.mk box.ty { box.a with floated := false, absPos := false, running := false } rowGroups colGroups
  let wty := if box.ty == .inlineTable then Ty.inlineBlock else Ty.block
  let wa := { anonAttrs wty box.a with tw := true, floated := box.a.floated, absPos := box.a.absPos, running := box.a.running }
  pure (.mk wty wa (capTop ++ [table] ++ capBottom) [])

/-- tableBoxesChildren; `fuel` bounds the depth of "apply the rules again on the new wrapper" -/
def tbc : Nat → Box → List Box → R Box
  | 0, _, _ => throw "fuel"
  | fuel + 1, box, children0 =>
    let ty := box.ty
    -- rules 1.1, 1.2, XXX
    let children :=
      if ty == .tableColumn then []
      else if ty == .tableColumnGroup then
        let nc := children0.filter (·.ty == .tableColumn)
        if nc.isEmpty then List.replicate (max (colGroupSpan box) 1) (anon .tableColumn box.a []) else nc
      else children0
    let children := if tabularContainer ty && children.length ≥ 2 then rule13 children else children
    let children := rule14 none children
    let flex := isFlexContainer ty
    let wrapAs (t : Ty) : List Box → R Box := fun imp => tbc fuel (anon t box.a []) imp
    do
      let it ←
        if isTable ty then wrapGo (wrapAs .tableRow) flex (fun c => properTableChild c.ty) children []   -- 2.1
        else if ty == .tableRowGroup then wrapGo (wrapAs .tableRow) flex (·.ty == .tableRow) children [] -- 2.2
        else pure children
      let it ←
        if ty == .tableRow then wrapGo (wrapAs .tableCell) flex (·.ty == .tableCell) it []              -- 2.3
        else wrapGo (wrapAs .tableRow) flex (fun c => !(c.ty == .tableCell)) it []                       -- 3.1
      let it ←                                                                                            -- 3.2
        if ty == .inline then wrapGo (wrapAs .inlineTable) flex (fun c => !properTableChild c.ty) it []
        else wrapGo (wrapAs .table) flex (fun c => !properTableChild c.ty || isInProperParents ty c.ty) it []
      if isTable ty then wrapTable (tbc fuel) box it
      else pure (box.setKids it)

/-- depth of wrapper re-application granted to `tableBoxesChildren` (6 suffices, see Props) -/
def tbcFuel : Nat := 8

mutual
  /-- AnonymousTableBoxes -/
  def anonTable : Box → R Box
    | .mk ty a kids cols =>
      if !isParent ty || a.running then pure (.mk ty a kids cols)
      else do
        let ks ← anonTableList kids
        tbc tbcFuel (.mk ty a kids cols) ks
  def anonTableList : List Box → R (List Box)
    | [] => pure []
    | k :: ks => do
      let k' ← anonTable k
      let ks' ← anonTableList ks
      pure (k' :: ks')
end

/-! ## Flex and grid items -/

/-- flexChildren for a flex container -/
def flexKids (pa : Attrs) : List Box → List Box
  | [] => []
  | c :: cs =>
    let c1 := if !c.a.absPos then c.setA { c.a with fi := true } else c
    if c.ty == .text && onlySpaces c.a.text then flexKids pa cs
    else if isInlineLevel c.ty then
      Box.mk .block { anonAttrs .block pa with fi := true } [c1] [] :: flexKids pa cs
    else c1 :: flexKids pa cs

mutual
  /-- FlexBoxes -/
  def flexBoxes : Box → Box
    | .mk ty a kids cols =>
      if !isParent ty || a.running then .mk ty a kids cols
      else
        let ks := flexBoxesList kids
        .mk ty a (if isFlexContainer ty then flexKids a ks else ks) cols
  def flexBoxesList : List Box → List Box
    | [] => []
    | k :: ks => flexBoxes k :: flexBoxesList ks
end

/-- gridChildren for a grid container.
    QUIRK: the anonymous block is made from the child (its element) and shares the child's style. -/
def gridKids : List Box → List Box
  | [] => []
  | c :: cs =>
    if c.ty == .text && onlySpaces c.a.text then gridKids cs
    else if isInlineLevel c.ty then
      let wa0 : Attrs := anonAttrs .block c.a
      let wa : Attrs := { wa0 with floated := c.a.floated, absPos := c.a.absPos, running := c.a.running, disp := c.a.disp, gi := true }
      Box.mk .block wa [c.setA { c.a with gi := false }] [] :: gridKids cs
    else (if !c.a.absPos then c.setA { c.a with gi := true } else c) :: gridKids cs

mutual
  /-- GridBoxes -/
  def gridBoxes : Box → Box
    | .mk ty a kids cols =>
      if !isParent ty || a.running then .mk ty a kids cols
      else
        let ks := gridBoxesList kids
        .mk ty a (if isGridContainer ty then gridKids ks else ks) cols
  def gridBoxesList : List Box → List Box
    | [] => []
    | k :: ks => gridBoxes k :: gridBoxesList ks
end

/-! ## InlineInBlock -/

def lineBox (pa : Attrs) (kids : List Box) : Box := anon .line pa kids
def anonBlock (pa : Attrs) (kids : List Box) : Box := anon .block pa kids

/-- "a sequence of white space collapsed to a single space" at the start of a line is skipped -/
def leadingSpace (c : Box) : Bool := c.ty == .text && c.a.text == " " && c.a.wsc

/-- the second loop of InlineInBlock: `line` = newLineChildren, `out` = newChildren -/
def iibLoop (pa : Attrs) : List Box → List Box → List Box → R (List Box)
  | [], line, out =>
    if line.isEmpty then pure out
    else if !out.isEmpty then pure (out ++ [anonBlock pa [lineBox pa line]])
    else pure [lineBox pa line]
  | c :: cs, line, out =>
    if c.ty == .line then throw "childBox can't be a LineBox"
    else if !line.isEmpty && c.a.absPos then iibLoop pa cs (line ++ [c]) out
    else if isInlineLevel c.ty || (!line.isEmpty && !inNormalFlow c.a) then
      if !line.isEmpty || !leadingSpace c then iibLoop pa cs (line ++ [c]) out
      else iibLoop pa cs line out
    else
      let out := if !line.isEmpty then out ++ [anonBlock pa [lineBox pa line]] else out
      iibLoop pa cs [] (out ++ [c])

mutual
  /-- InlineInBlock -/
  def inlineInBlock : Box → R Box
    | .mk ty a kids cols =>
      if kids.isEmpty || a.running then pure (.mk ty a kids cols)
      else do
        let ks ← inlineInBlockList kids
        if !isBlockContainer ty then pure (.mk ty a ks cols)
        else do
          let ks' ← iibLoop a ks [] []
          pure (.mk ty a ks' cols)
  /-- the first loop: empty text boxes are removed, the others are processed recursively -/
  def inlineInBlockList : List Box → R (List Box)
    | [] => pure []
    | k :: ks =>
      if k.ty == .text && k.a.text.isEmpty then inlineInBlockList ks
      else do
        let k' ← inlineInBlock k
        let ks' ← inlineInBlockList ks
        pure (k' :: ks')
end

/-! ## BlockInInline -/

/-- `tree.ResumeStack`: `nil` is `[]`, `{k: s}` is `k :: s` -/
abbrev Resume := List Nat

/-- the `for { newLine, block, stack = innerBlockInInline(child, stack) … }` loop of BlockInInline.
    `step` is `innerBlockInInline(child, ·)`; returns the alternating fragments and the last line. -/
def resumeLoop (pa : Attrs) (step : Resume → R (Box × Option (Box × Resume))) : Nat → Resume → List Box → R (List Box × Box)
  | 0, _, _ => throw "fuel"
  | fuel + 1, st, acc => do
    let (newLine, r) ← step st
    match r with
    | none => pure (acc, newLine)
    | some (blk, st') => resumeLoop pa step fuel st' (acc ++ [anonBlock pa [newLine], blk])

mutual
  /-- number of boxes in the subtree -/
  def Box.size : Box → Nat
    | .mk _ _ kids _ => 1 + Box.sizeList kids
  def Box.sizeList : List Box → Nat
    | [] => 0
    | k :: ks => k.size + Box.sizeList ks
end

mutual
  /-- BlockInInline.  The pointer comparisons (`newChild != child`, `changed`) only avoid copies;
      the value of the result is the rebuilt box in every case. -/
  def blockInInline : Box → R Box
    | .mk ty a kids cols =>
      if kids.isEmpty || a.running then pure (.mk ty a kids cols)
      else do
        let ks ← biiKids a kids.length kids
        pure (.mk ty a ks cols)
  def biiKids (pa : Attrs) (n : Nat) : List Box → R (List Box)
    | [] => pure []
    | c :: cs =>
      if c.ty == .line then
        if n != 1 then throw "Line boxes should have no siblings at this stage"
        else do
          let (frags, last) ← resumeLoop pa (fun st => innerBII c st) (c.size + 1) [] []
          let rest ← biiKids pa n cs
          let newChild := if frags.isEmpty then last else anonBlock pa [last]
          pure (frags ++ newChild :: rest)
      else do
        let c' ← blockInInline c
        let rest ← biiKids pa n cs
        pure (c' :: rest)
  /-- innerBlockInInline(box, skipStack) = (newBox, blockLevelBox, resumeAt).  The extracted block is
      returned already processed by BlockInInline (the Go caller applies it right after the call). -/
  def innerBII : Box → Resume → R (Box × Option (Box × Resume))
    | .mk ty a kids cols, st => do
      let (ks, r) ← match st with
        | [] => innerKids kids 0 0 []
        | skip :: rest => innerKids kids 0 skip rest
      pure (.mk ty a ks cols, r)
  /-- the loop over `box.Children[skip:]`; `idx` is the index of the head of the list -/
  def innerKids : List Box → Nat → Nat → Resume → R (List Box × Option (Box × Resume))
    | [], _, _, _ => pure ([], none)
    | c :: cs, idx, skip, st =>
      if idx < skip then innerKids cs (idx + 1) skip st
      else if isBlockLevel c.ty && inNormalFlow c.a then
        if !st.isEmpty then throw "Should not skip here"
        else do
          let blk ← blockInInline c
          pure ([], some (blk, [idx + 1]))
      else if c.ty == .inline && !c.a.running then do   -- running boxes are opaque, as in the other passes
        let (c', r) ← innerBII c st
        match r with
        | some (blk, rs) => pure ([c'], some (blk, idx :: rs))
        | none => do
          let (rest, r') ← innerKids cs (idx + 1) skip []
          pure (c' :: rest, r')
      else if !st.isEmpty then throw "Should not skip here"
      else do
        let c' ← blockInInline c
        let (rest, r') ← innerKids cs (idx + 1) skip []
        pure (c' :: rest, r')
end

/-! ## CreateAnonymousBox -/

structure Stages where
  table : Box
  flex : Box
  grid : Box
  iib : Box
  bii : Box

def createAnonymousStages (b : Box) : R Stages := do
  let t ← anonTable b
  let f := flexBoxes t
  let g := gridBoxes f
  let i ← inlineInBlock g
  let o ← blockInInline i
  pure { table := t, flex := f, grid := g, iib := i, bii := o }

def createAnonymousBox (b : Box) : R Box := do
  let s ← createAnonymousStages b
  pure s.bii

end WR.C09
