/-
  C09 — the table pass establishes `postTable` (the design's `table_fixup_wf`).

  The statement as first written (`allW rawOK b → allW postTable (anonTable b)`) is FALSE; two
  counterexamples are checked below (`pt_cx1_*`, `pt_cx2_*`):
  * `rawOK` does not constrain a *running* cell (allW does not look at running boxes), so a running
    `.tableCell` with `colspan = 0` may sit in a row, and `gridOKw` of the row group then fails;
  * a non-running `.tableRowGroup` at the ROOT never goes through `wrapTable`, its cells keep GridX 0.
  What is proved: the statement with `rawOK` strengthened by "every cell child has colspan ≥ 1"
  (`pt_rawOK`) and for a root that is running or not a row group (`anonTable_postTable'`).
-/
import WR.C09.LemmasTable
import WR.C09.LemmasGrid
import WR.C09.Shape2
namespace WR.C09

/-! ### counterexamples to the unrestricted statement -/

def pt_cx1 : Box :=
  .mk .block {} [ .mk .table {} [ .mk .tableRowGroup {} [ .mk .tableRow {}
    [ .mk .tableCell { running := true, colspan := 0 } [] [] ] [] ] [] ] [] ] []
theorem pt_cx1_raw : allW rawOK pt_cx1 = true := by decide
theorem pt_cx1_bad : (match anonTable pt_cx1 with | .ok r => allW postTable r | .error _ => true) = false := by
  decide

def pt_cx2 : Box :=
  .mk .tableRowGroup {} [ .mk .tableRow {} [ .mk .tableCell { colspan := 1, rowspan := 0 } [] [] ] [] ] []
theorem pt_cx2_raw : allW rawOK pt_cx2 = true := by decide
theorem pt_cx2_bad : (match anonTable pt_cx2 with | .ok r => allW postTable r | .error _ => true) = false := by
  decide

/-! ### (1) the grid clause for the output of `rowsGo` / `groupGo` -/

theorem pt_rowsGo_bound (rows : List Box) : ∀ (occs : List (List Nat)) (r : Nat) (out : List Box),
    rowsGo rows occs = .ok out → occs.length = rows.length →
    (∀ row ∈ rows, ∀ c ∈ rowCells row, 1 ≤ c.a.colspan) →
    (∀ s ∈ groupSlotsFrom r out, s.1 < r + out.length) ∧
    (∀ row ∈ out, ∀ c ∈ rowCells row, 1 ≤ c.a.colspan ∧ 1 ≤ c.a.rowspan) := by
  induction rows with
  | nil =>
    intro occs r out h _ _
    rw [rowsGo_nil] at h
    cases h
    refine ⟨?_, ?_⟩ <;> intro s hs <;> cases hs
  | cons row rows ih =>
    intro occs r out h hlen hcs
    cases occs with
    | nil => cases h
    | cons occThis following =>
      rw [rowsGo_cons] at h
      cases hr : rowsGo rows (cellsGo row.kids occThis following 0).2 with
      | error e => rw [hr] at h; cases h
      | ok rest =>
        rw [hr] at h
        simp only [Except.bind] at h
        cases h
        have hflen : following.length = rows.length := by simpa using hlen
        have hlen' : (cellsGo row.kids occThis following 0).2.length = rows.length := by
          rw [cellsGo_following_length]; exact hflen
        have hrestlen : rest.length = rows.length := by
          obtain ⟨o, ho, hl⟩ := rowsGo_ok rows _ hlen'
          rw [hr] at ho; cases ho; exact hl
        have hcol1 : ∀ c ∈ rowCells (row.setKids (cellsGo row.kids occThis following 0).1), 1 ≤ c.a.colspan := by
          apply rowCells_setKids_of row _ (fun c => 1 ≤ c.a.colspan)
          · intro c hc
            obtain ⟨d, hd, e⟩ := cellsGo_colspan row.kids occThis following 0 c hc
            exact ⟨d, hd, fun hp => by rw [e]; exact hp⟩
          · exact hcs row List.mem_cons_self
        obtain ⟨n3, n4⟩ := ih _ (r + 1) rest hr hlen' (fun row' h' => hcs row' (List.mem_cons_of_mem _ h'))
        simp only [groupSlotsFrom]
        refine ⟨?_, ?_⟩
        · intro s hs
          rcases List.mem_append.mp hs with hs | hs
          · obtain ⟨y, x⟩ := s
            simp only [rowSlots, List.mem_flatMap] at hs
            obtain ⟨c, hc, hcs'⟩ := hs
            have hm := (mem_cellSlots r c y x).mp hcs'
            have := (cellsGo_rowspan row.kids occThis following 0 c (rowCells_setKids_mem _ _ c hc)).2
            simp only [List.length_cons]
            show y < _
            omega
          · have := n3 s hs
            simp only [List.length_cons]
            omega
        · intro row' hrow' c hc
          rcases List.mem_cons.mp hrow' with rfl | hrow'
          · exact ⟨hcol1 c hc, (cellsGo_rowspan row.kids occThis following 0 c (rowCells_setKids_mem _ _ c hc)).1⟩
          · exact n4 row' hrow' c hc

/-- deliverable (1): the weakened grid clause holds for the output of the row loop as soon as the
    visible input cells span at least one column -/
theorem pt_rowsGo_gridOKw (rows out : List Box)
    (h : rowsGo rows (List.replicate rows.length []) = .ok out)
    (hcs : ∀ row ∈ rows, ∀ c ∈ rowCells row, 1 ≤ c.a.colspan) :
    gridOKw .tableRowGroup out = true := by
  obtain ⟨n3, n4⟩ := pt_rowsGo_bound rows _ 0 out h (by simp) hcs
  have hf := rowsGo_firstSlotsOK rows _ out h
  simp only [gridOKw, Bool.or_eq_true, Bool.and_eq_true, List.all_eq_true]
  right
  refine ⟨⟨hf, ?_⟩, ?_⟩
  · intro s hs
    have := n3 s hs
    simp only [Nat.zero_add] at this
    simpa using this
  · intro row hrow c hc
    have := n4 row hrow c hc
    simp only [ge_iff_le, decide_eq_true_eq]
    exact this

theorem pt_groupGo_inv (g g' : Box) (h : groupGo g = .ok g') :
    ∃ rows, rowsGo g.kids (List.replicate g.kids.length []) = .ok rows ∧ g' = g.setKids rows := by
  rw [groupGo_eq] at h
  cases hr : rowsGo g.kids (List.replicate g.kids.length []) with
  | error e => rw [hr] at h; cases h
  | ok rows =>
    rw [hr] at h
    simp only [Except.bind] at h
    cases h
    exact ⟨rows, rfl, rfl⟩

theorem pt_groupGo_gridOKw (g g' : Box) (h : groupGo g = .ok g')
    (hcs : ∀ row ∈ g.kids, ∀ c ∈ rowCells row, 1 ≤ c.a.colspan) :
    gridOKw .tableRowGroup g'.kids = true := by
  obtain ⟨rows, hr, rfl⟩ := pt_groupGo_inv g g' h
  exact pt_rowsGo_gridOKw g.kids rows hr hcs


/-! ### (2) the local clauses in a form that is easy to transport -/

def pt_ca (p : Ty) (tw : Bool) (c : Ty) (run : Bool) : Bool :=
  match c with
  | .line => isBlockContainer p
  | .table | .inlineTable => tw || run
  | .tableCaption => tw
  | .tableRowGroup => isTable p
  | .tableRow => p == .tableRowGroup
  | .tableCell => p == .tableRow
  | .tableColumn => p == .tableColumnGroup
  | .tableColumnGroup => false
  | _ => true

theorem pt_ca_eq (p : Ty) (pa : Attrs) (c : Box) : childAllowed p pa c = pt_ca p pa.tw c.ty c.a.running := by
  unfold childAllowed pt_ca
  cases c.ty <;> rfl

/-- everything `postTable` asks of one child, given the type and wrapper flag of the parent -/
def pt_kid (p : Ty) (tw : Bool) (c : Ty) (run : Bool) (csok : Bool) : Bool :=
  rawTy c && pt_ca p tw c run &&
  (!tw || (c == .tableCaption || isTable c)) &&
  (!isTable p || c == .tableRowGroup) &&
  (!(p == .tableRowGroup) || c == .tableRow) &&
  (!(p == .tableRow) || c == .tableCell) &&
  (!(p == .tableColumnGroup) || c == .tableColumn) &&
  (!(c == .tableCell) || csok)

def pt_kidB (p : Ty) (pa : Attrs) (c : Box) : Bool :=
  pt_kid p pa.tw c.ty c.a.running (decide (1 ≤ c.a.colspan))

/-- `postTable` without the grid clause, plus "cell children span at least one column" -/
def pt_loc (ty : Ty) (a : Attrs) (kids cols : List Box) : Bool :=
  rawTy ty && (isParent ty || kids.isEmpty) && (!(ty == .tableColumn) || kids.isEmpty) &&
  kids.all (fun c => pt_kidB ty a c) &&
  (!a.tw || ((ty == .block || ty == .inlineBlock) && (kids.filter (fun c => isTable c.ty)).length == 1)) &&
  (!isTable ty || cols.all (fun g => g.ty == .tableColumnGroup && (g.a.running || g.kids.all (fun c => c.ty == .tableColumn)))) &&
  (isTable ty || cols.isEmpty)

def pt_post (ty : Ty) (a : Attrs) (kids cols : List Box) : Bool :=
  pt_loc ty a kids cols && gridOKw ty kids

theorem pt_loc_iff (ty : Ty) (a : Attrs) (kids cols : List Box) : pt_loc ty a kids cols = true ↔
    (((((rawTy ty = true ∧ (isParent ty = true ∨ kids = [])) ∧ (ty ≠ Ty.tableColumn ∨ kids = [])) ∧
          ∀ (x : Box), x ∈ kids → pt_kidB ty a x = true) ∧
        (a.tw = false ∨
          (ty = Ty.block ∨ ty = Ty.inlineBlock) ∧ (List.filter (fun c => isTable c.ty) kids).length = 1)) ∧
      (isTable ty = false ∨
        ∀ (x : Box), x ∈ cols →
            x.ty = Ty.tableColumnGroup ∧
              (x.a.running = true ∨ ∀ (x_1 : Box), x_1 ∈ x.kids → x_1.ty = Ty.tableColumn))) ∧
    (isTable ty = true ∨ cols = []) := by
  simp only [pt_loc, Bool.and_eq_true, Bool.or_eq_true, Bool.not_eq_true', List.all_eq_true,
    List.isEmpty_iff, beq_iff_eq, beq_eq_false_iff_ne]

theorem pt_kid_iff (p : Ty) (tw : Bool) (c : Ty) (run csok : Bool) : pt_kid p tw c run csok = true ↔
  ((((((rawTy c = true ∧ pt_ca p tw c run = true) ∧
              (tw = false ∨ c = Ty.tableCaption ∨ isTable c = true)) ∧
            (isTable p = false ∨ c = Ty.tableRowGroup)) ∧
          (p ≠ Ty.tableRowGroup ∨ c = Ty.tableRow)) ∧
        (p ≠ Ty.tableRow ∨ c = Ty.tableCell)) ∧
      (p ≠ Ty.tableColumnGroup ∨ c = Ty.tableColumn)) ∧
    (c ≠ Ty.tableCell ∨ csok = true) := by
  simp only [pt_kid, Bool.and_eq_true, Bool.or_eq_true, Bool.not_eq_true', beq_iff_eq, beq_eq_false_iff_ne]

theorem pt_imp_all (cond : Bool) (kids : List Box) (f : Box → Bool)
    (h : cond = true → ∀ c ∈ kids, f c = true) : (!cond || kids.all f) = true := by
  cases cond
  · rfl
  · simp only [Bool.not_true, Bool.false_or, List.all_eq_true]; exact h rfl

/-- the strengthened local clause implies `postTable` once the grid clause is known -/
theorem pt_post_postTable (ty : Ty) (a : Attrs) (kids cols : List Box) (h : pt_post ty a kids cols = true) :
    postTable ty a kids cols = true := by
  simp only [pt_post, Bool.and_eq_true] at h
  obtain ⟨h, hg⟩ := h
  obtain ⟨⟨⟨⟨⟨⟨h1, h2⟩, h3⟩, hk⟩, htw⟩, hcols⟩, hce⟩ := (pt_loc_iff ty a kids cols).mp h
  have hk' : ∀ c ∈ kids, _ := fun c hc => (pt_kid_iff _ _ _ _ _).mp (hk c hc)
  simp only [postTable, tableKidsOK, Bool.and_eq_true]
  refine ⟨⟨⟨⟨⟨⟨h1, ?_⟩, ?_⟩, ?_⟩, ⟨⟨⟨⟨⟨?_, ?_⟩, ?_⟩, ?_⟩, ?_⟩, ?_⟩⟩, hg⟩, ?_⟩
  · rcases h2 with h2 | h2
    · rw [h2]; rfl
    · rw [h2]; simp
  · rw [List.all_eq_true]
    intro c hc
    obtain ⟨⟨⟨⟨⟨⟨⟨k1, _⟩, _⟩, _⟩, _⟩, _⟩, _⟩, _⟩ := hk' c hc
    exact k1
  · rw [List.all_eq_true]
    intro c hc
    obtain ⟨⟨⟨⟨⟨⟨⟨_, k3⟩, _⟩, _⟩, _⟩, _⟩, _⟩, _⟩ := hk' c hc
    rw [pt_ca_eq]; exact k3
  · cases ht : a.tw
    · rfl
    · rw [ht] at htw
      rcases htw with htw | ⟨t1, t2⟩
      · cases htw
      · have hall : kids.all (fun c => c.ty == .tableCaption || isTable c.ty) = true := by
          rw [List.all_eq_true]
          intro c hc
          obtain ⟨⟨⟨⟨⟨⟨⟨_, _⟩, k4⟩, _⟩, _⟩, _⟩, _⟩, _⟩ := hk' c hc
          rw [ht] at k4
          rcases k4 with k4 | k4 | k4
          · cases k4
          · simp [k4]
          · simp [k4]
        rw [hall, t2]
        rcases t1 with t1 | t1 <;> rw [t1] <;> rfl
  · cases hT : isTable ty
    · rfl
    · rw [hT] at hcols
      rcases hcols with hcols | hcols
      · cases hcols
      · simp only [Bool.not_true, Bool.false_or, Bool.and_eq_true, List.all_eq_true, Bool.or_eq_true, beq_iff_eq]
        refine ⟨?_, hcols⟩
        intro c hc
        obtain ⟨⟨⟨⟨⟨⟨⟨_, _⟩, _⟩, k5⟩, _⟩, _⟩, _⟩, _⟩ := hk' c hc
        rcases k5 with k5 | k5
        · rw [hT] at k5; cases k5
        · exact k5
  · apply pt_imp_all
    intro hc c hcm
    obtain ⟨⟨⟨⟨⟨⟨⟨_, _⟩, _⟩, _⟩, k6⟩, _⟩, _⟩, _⟩ := hk' c hcm
    rcases k6 with k6 | k6
    · exact absurd (by simpa using hc) k6
    · simp [k6]
  · apply pt_imp_all
    intro hc c hcm
    obtain ⟨⟨⟨⟨⟨⟨⟨_, _⟩, _⟩, _⟩, _⟩, k7⟩, _⟩, _⟩ := hk' c hcm
    rcases k7 with k7 | k7
    · exact absurd (by simpa using hc) k7
    · simp [k7]
  · apply pt_imp_all
    intro hc c hcm
    obtain ⟨⟨⟨⟨⟨⟨⟨_, _⟩, _⟩, _⟩, _⟩, _⟩, k8⟩, _⟩ := hk' c hcm
    rcases k8 with k8 | k8
    · exact absurd (by simpa using hc) k8
    · simp [k8]
  · rcases hce with h | h
    · rw [h]; rfl
    · rw [h]; simp
  · rcases h3 with h | h
    · simp [h]
    · rw [h]; simp


/-! ### `allW` / `allWList` -/

theorem pt_allW_mk (p : Ty → Attrs → List Box → List Box → Bool) (ty : Ty) (a : Attrs) (kids cols : List Box) :
    allW p (.mk ty a kids cols) = (a.running || (p ty a kids cols && allWList p kids && allWList p cols)) := by
  rw [allW]

theorem pt_allW_eq (p : Ty → Attrs → List Box → List Box → Bool) (b : Box) :
    allW p b = (b.a.running || (p b.ty b.a b.kids b.cols && allWList p b.kids && allWList p b.cols)) := by
  cases b; rw [allW]; rfl

theorem pt_allWList_iff (p : Ty → Attrs → List Box → List Box → Bool) (l : List Box) :
    allWList p l = true ↔ ∀ x ∈ l, allW p x = true := by
  induction l with
  | nil => rw [allWList]; simp
  | cons k ks ih =>
    rw [allWList]
    simp only [Bool.and_eq_true, ih, List.mem_cons, forall_eq_or_imp]

mutual
  theorem pt_allW_mono (p q : Ty → Attrs → List Box → List Box → Bool)
      (hpq : ∀ ty a k c, p ty a k c = true → q ty a k c = true) : ∀ b : Box, allW p b = true → allW q b = true
    | .mk ty a kids cols => by
      rw [pt_allW_mk, pt_allW_mk]
      intro h
      simp only [Bool.or_eq_true, Bool.and_eq_true] at h ⊢
      rcases h with h | ⟨⟨h1, h2⟩, h3⟩
      · exact Or.inl h
      · exact Or.inr ⟨⟨hpq _ _ _ _ h1, pt_allWList_mono p q hpq kids h2⟩, pt_allWList_mono p q hpq cols h3⟩
  theorem pt_allWList_mono (p q : Ty → Attrs → List Box → List Box → Bool)
      (hpq : ∀ ty a k c, p ty a k c = true → q ty a k c = true) : ∀ l : List Box, allWList p l = true → allWList q l = true
    | [] => by intro _; rw [allWList]
    | k :: ks => by
      rw [allWList, allWList]
      intro h
      simp only [Bool.and_eq_true] at h ⊢
      exact ⟨pt_allW_mono p q hpq k h.1, pt_allWList_mono p q hpq ks h.2⟩
end

/-! ### the invariant of a processed box: everything but the grid clause at the box itself -/

def pt_Good (x : Box) : Prop :=
  x.a.running = true ∨
    (pt_loc x.ty x.a x.kids x.cols = true ∧ allWList pt_post x.kids = true ∧ allWList pt_post x.cols = true)

theorem pt_gridOKw_ne (ty : Ty) (kids : List Box) (h : ty ≠ .tableRowGroup) : gridOKw ty kids = true := by
  unfold gridOKw
  have : (ty == Ty.tableRowGroup) = false := by simpa using h
  rw [this]; rfl

theorem pt_good_allW (x : Box) (hg : pt_Good x) (hty : x.ty ≠ .tableRowGroup) : allW pt_post x = true := by
  rw [pt_allW_eq]
  rcases hg with hg | ⟨h1, h2, h3⟩
  · rw [hg]; rfl
  · rw [h2, h3]
    simp only [pt_post, h1, pt_gridOKw_ne _ _ hty, Bool.and_self, Bool.or_true]

theorem pt_allW_good (x : Box) (h : allW pt_post x = true) : pt_Good x := by
  rw [pt_allW_eq] at h
  simp only [Bool.or_eq_true, Bool.and_eq_true, pt_post] at h
  rcases h with h | ⟨⟨⟨h1, _⟩, h2⟩, h3⟩
  · exact Or.inl h
  · exact Or.inr ⟨h1, h2, h3⟩

theorem pt_loc_attr (ty : Ty) (a a' : Attrs) (kids cols : List Box) (h : a'.tw = a.tw) :
    pt_loc ty a' kids cols = pt_loc ty a kids cols := by
  unfold pt_loc pt_kidB
  rw [h]

theorem pt_good_setA (x : Box) (a' : Attrs) (h1 : a'.running = x.a.running) (h2 : a'.tw = x.a.tw)
    (hg : pt_Good x) : pt_Good (x.setA a') := by
  cases x with
  | mk ty a kids cols =>
    rcases hg with hg | ⟨g1, g2, g3⟩
    · exact Or.inl (h1.trans hg)
    · refine Or.inr ⟨?_, g2, g3⟩
      show pt_loc ty a' kids cols = true
      rw [pt_loc_attr ty a a' kids cols h2]; exact g1

theorem pt_allW_setA (x : Box) (a' : Attrs) (h1 : a'.running = x.a.running) (h2 : a'.tw = x.a.tw)
    (hg : allW pt_post x = true) : allW pt_post (x.setA a') = true := by
  cases x with
  | mk ty a kids cols =>
    show allW pt_post (.mk ty a' kids cols) = true
    rw [pt_allW_mk] at hg ⊢
    have h1 : a'.running = a.running := h1
    rw [h1]
    unfold pt_post at hg ⊢
    rw [pt_loc_attr ty a a' kids cols h2]; exact hg

/-- children may change in attributes that the local clause does not read -/
theorem pt_loc_transfer (ty : Ty) (a : Attrs) (kids kids' cols : List Box) (h : pt_loc ty a kids cols = true)
    (hp : isParent ty = true) (hc : ty ≠ .tableColumn) (htw : a.tw = false)
    (hk : ∀ c' ∈ kids', ∃ c ∈ kids, c'.ty = c.ty ∧ c'.a.running = c.a.running ∧ c'.a.colspan = c.a.colspan) :
    pt_loc ty a kids' cols = true := by
  obtain ⟨⟨⟨⟨⟨⟨h1, _⟩, _⟩, hkid⟩, _⟩, hcols⟩, hce⟩ := (pt_loc_iff ty a kids cols).mp h
  refine (pt_loc_iff ty a kids' cols).mpr ⟨⟨⟨⟨⟨⟨h1, Or.inl hp⟩, Or.inl hc⟩, ?_⟩, Or.inl htw⟩, hcols⟩, hce⟩
  intro c' hc'
  obtain ⟨c, hcm, e1, e2, e3⟩ := hk c' hc'
  have := hkid c hcm
  unfold pt_kidB at this ⊢
  rw [e1, e2, e3]; exact this


/-! ### what a processed child looks like from its parent -/

def pt_kok (t : Ty) (run csok : Bool) : Bool :=
  rawTy t && (!isTable t || run) && (!(t == .tableCell) || csok)

def pt_kidOK (c : Box) : Bool := pt_kok c.ty c.a.running (decide (1 ≤ c.a.colspan))

/-- a processed child / a wrapper result -/
def pt_C (x : Box) : Prop := pt_Good x ∧ pt_kidOK x = true

theorem pt_kid_of_K3 (p c : Ty) : ∀ (run csok : Bool), isTable p = false → tbK3 p c = true →
    pt_kok c run csok = true → pt_kid p false c run csok = true := by
  cases p <;> cases c <;> decide

theorem pt_kid_rowGroup (p : Ty) (run csok : Bool) (h : isTable p = true) :
    pt_kid p false .tableRowGroup run csok = true := by
  rcases tb_isTable_cases p h with h | h <;> subst h <;> cases run <;> cases csok <;> decide

theorem pt_kid_caption (p : Ty) (csok : Bool) (h : p = .block ∨ p = .inlineBlock) :
    pt_kid p true .tableCaption false csok = true ∧ pt_kid p true .tableCaption true csok = true := by
  rcases h with h | h <;> subst h <;> cases csok <;> decide

theorem pt_kid_table (p t : Ty) (csok : Bool) (h : p = .block ∨ p = .inlineBlock) (ht : isTable t = true) :
    pt_kid p true t false csok = true := by
  rcases h with h | h <;> subst h <;> rcases tb_isTable_cases t ht with ht | ht <;> subst ht <;>
    cases csok <;> decide

theorem pt_K3_not_rowGroup (p c : Ty) : isTable p = false → tbK3 p c = true → c ≠ .tableRowGroup := by
  cases p <;> cases c <;> decide

theorem pt_intAttr_pos (p : Option Int) : 1 ≤ intAttr p 1 := by
  unfold intAttr
  cases p with
  | none => exact Nat.le_refl _
  | some v =>
    dsimp only
    split
    · exact Nat.le_refl _
    · omega

theorem pt_kidOK_congr (x y : Box) (h1 : x.ty = y.ty) (h2 : x.a.running = y.a.running)
    (h3 : x.a.colspan = y.a.colspan) : pt_kidOK x = pt_kidOK y := by
  unfold pt_kidOK; rw [h1, h2, h3]

/-! ### the attribute rewrites of `wrapTable` -/

theorem pt_cellsGo_mem (cells : List Box) (occThis : List Nat) (following : List (List Nat)) (gx0 : Nat) :
    ∀ c' ∈ (cellsGo cells occThis following gx0).1, ∃ c ∈ cells, ∃ gx rs, c' = c.setA { c.a with gridX := gx, rowspan := rs } := by
  induction cells generalizing following gx0 with
  | nil => intro c hc; cases hc
  | cons c cs ih =>
    intro d hd
    rw [cellsGo_cons] at hd
    rcases List.mem_cons.mp hd with rfl | hd
    · exact ⟨c, List.mem_cons_self, _, _, rfl⟩
    · obtain ⟨e, he, h⟩ := ih _ _ d hd
      exact ⟨e, List.mem_cons_of_mem _ he, h⟩

theorem pt_rowsGo_mem (rows : List Box) : ∀ (occs : List (List Nat)) (out : List Box), rowsGo rows occs = .ok out →
    ∀ r' ∈ out, ∃ r ∈ rows, ∃ occ fol, r' = r.setKids (cellsGo r.kids occ fol 0).1 := by
  induction rows with
  | nil =>
    intro occs out h r' hr'
    rw [rowsGo_nil] at h
    cases h; cases hr'
  | cons row rows ih =>
    intro occs out h r' hr'
    cases occs with
    | nil => cases h
    | cons occThis following =>
      rw [rowsGo_cons] at h
      cases hr : rowsGo rows (cellsGo row.kids occThis following 0).2 with
      | error e => rw [hr] at h; cases h
      | ok rest =>
        rw [hr] at h
        simp only [Except.bind] at h
        cases h
        rcases List.mem_cons.mp hr' with rfl | hr'
        · exact ⟨row, List.mem_cons_self, _, _, rfl⟩
        · obtain ⟨r, hrm, h⟩ := ih _ rest hr r' hr'
          exact ⟨r, List.mem_cons_of_mem _ hrm, h⟩

/-- the row of a row group after the grid loop -/
theorem pt_row_after (row : Box) (occ : List Nat) (fol : List (List Nat)) (hty : row.ty = .tableRow)
    (h : allW pt_post row = true) : allW pt_post (row.setKids (cellsGo row.kids occ fol 0).1) = true := by
  cases row with
  | mk ty a kids cols =>
    have hty : ty = .tableRow := hty
    subst hty
    show allW pt_post (.mk .tableRow a (cellsGo kids occ fol 0).1 cols) = true
    rw [pt_allW_mk] at h ⊢
    simp only [Bool.or_eq_true, Bool.and_eq_true] at h ⊢
    rcases h with h | ⟨⟨h1, h2⟩, h3⟩
    · exact Or.inl h
    · refine Or.inr ⟨⟨?_, ?_⟩, h3⟩
      · simp only [pt_post, Bool.and_eq_true] at h1 ⊢
        refine ⟨?_, pt_gridOKw_ne _ _ (by decide)⟩
        have hl := h1.1
        have htw : a.tw = false := by
          obtain ⟨⟨⟨⟨⟨⟨_, _⟩, _⟩, _⟩, htw⟩, _⟩, _⟩ := (pt_loc_iff _ _ _ _).mp hl
          rcases htw with htw | ⟨t, _⟩
          · exact htw
          · rcases t with t | t <;> cases t
        apply pt_loc_transfer _ _ kids _ _ hl (by decide) (by decide) htw
        intro c' hc'
        obtain ⟨c, hc, gx, rs, rfl⟩ := pt_cellsGo_mem kids occ fol 0 c' hc'
        exact ⟨c, hc, rfl, rfl, rfl⟩
      · rw [pt_allWList_iff] at h2 ⊢
        intro c' hc'
        obtain ⟨c, hc, gx, rs, rfl⟩ := pt_cellsGo_mem kids occ fol 0 c' hc'
        exact pt_allW_setA c _ rfl rfl (h2 c hc)

/-- deliverable (1) in context: a processed row group satisfies all of `pt_post` after `groupGo` -/
theorem pt_groupGo_good (g g' : Box) (h : groupGo g = .ok g') (hty : g.ty = .tableRowGroup) (hg : pt_Good g) :
    allW pt_post g' = true ∧ g'.ty = .tableRowGroup := by
  obtain ⟨rows, hr, rfl⟩ := pt_groupGo_inv g g' h
  refine ⟨?_, hty⟩
  cases g with
  | mk ty a kids cols =>
    have hty : ty = .tableRowGroup := hty
    subst hty
    have hr : rowsGo kids (List.replicate kids.length []) = .ok rows := hr
    show allW pt_post (.mk .tableRowGroup a rows cols) = true
    rw [pt_allW_mk]
    rcases hg with hg | ⟨g1, g2, g3⟩
    · have hg : a.running = true := hg
      rw [hg]; rfl
    · have g1 : pt_loc .tableRowGroup a kids cols = true := g1
      have g2 : allWList pt_post kids = true := g2
      have g3 : allWList pt_post cols = true := g3
      obtain ⟨⟨⟨⟨⟨⟨_, _⟩, _⟩, hkid⟩, htw⟩, _⟩, _⟩ := (pt_loc_iff _ _ _ _).mp g1
      have htw : a.tw = false := by
        rcases htw with htw | ⟨t, _⟩
        · exact htw
        · rcases t with t | t <;> cases t
      have hrowty : ∀ r ∈ kids, r.ty = .tableRow := by
        intro r hrm
        have := (pt_kid_iff _ _ _ _ _).mp (hkid r hrm)
        obtain ⟨⟨⟨⟨_, k6⟩, _⟩, _⟩, _⟩ := this
        rcases k6 with k6 | k6
        · exact absurd rfl k6
        · exact k6
      rw [pt_allWList_iff] at g2
      have hcs : ∀ row ∈ kids, ∀ c ∈ rowCells row, 1 ≤ c.a.colspan := by
        intro row hrow c hc
        unfold rowCells at hc
        split at hc
        · cases hc
        · rename_i hrun
          have hw := g2 row hrow
          rw [pt_allW_eq] at hw
          simp only [Bool.or_eq_true, Bool.and_eq_true, pt_post] at hw
          rcases hw with hw | ⟨⟨⟨hw, _⟩, _⟩, _⟩
          · exact absurd hw hrun
          · obtain ⟨⟨⟨⟨⟨⟨_, _⟩, _⟩, hkc⟩, _⟩, _⟩, _⟩ := (pt_loc_iff _ _ _ _).mp hw
            have := (pt_kid_iff _ _ _ _ _).mp (hkc c hc)
            obtain ⟨⟨⟨_, k7⟩, _⟩, k9⟩ := this
            rw [hrowty row hrow] at k7
            rcases k7 with k7 | k7
            · exact absurd rfl k7
            · rcases k9 with k9 | k9
              · exact absurd k7 k9
              · simpa using k9
      have hgrid := pt_rowsGo_gridOKw kids rows hr hcs
      have hloc : pt_loc .tableRowGroup a rows cols = true := by
        apply pt_loc_transfer _ _ kids _ _ g1 (by decide) (by decide) htw
        intro r' hr'
        obtain ⟨r, hrm, occ, fol, rfl⟩ := pt_rowsGo_mem kids _ rows hr r' hr'
        exact ⟨r, hrm, rfl, rfl, rfl⟩
      have hkids : allWList pt_post rows = true := by
        rw [pt_allWList_iff]
        intro r' hr'
        obtain ⟨r, hrm, occ, fol, rfl⟩ := pt_rowsGo_mem kids _ rows hr r' hr'
        exact pt_row_after r occ fol (hrowty r hrm) (g2 r hrm)
      simp only [pt_post, hloc, hgrid, hkids, g3, Bool.and_self, Bool.or_true]


theorem pt_bind_ok {α β : Type} {x : R α} {g : α → R β} {r : β} (h : (x >>= g) = .ok r) :
    ∃ v, x = .ok v ∧ g v = .ok r := by
  cases x with
  | error e => cases h
  | ok v => exact ⟨v, rfl, h⟩

theorem pt_groupsGo_good : ∀ (gs out : List Box), groupsGo gs = .ok out →
    (∀ g ∈ gs, pt_Good g ∧ g.ty = .tableRowGroup) →
    ∀ x ∈ out, allW pt_post x = true ∧ x.ty = .tableRowGroup := by
  intro gs
  induction gs with
  | nil =>
    intro out h _ x hx
    cases h; cases hx
  | cons g gs ih =>
    intro out h hg x hx
    rw [groupsGo] at h
    obtain ⟨g', hg', h⟩ := pt_bind_ok h
    obtain ⟨r, hr, h⟩ := pt_bind_ok h
    cases h
    rcases List.mem_cons.mp hx with rfl | hx
    · exact pt_groupGo_good g x hg' (hg g List.mem_cons_self).2 (hg g List.mem_cons_self).1
    · exact ih r hr (fun y hy => hg y (List.mem_cons_of_mem _ hy)) x hx

theorem pt_splitGroups_P (P : Box → Prop) (hhd : ∀ g, P g → P (g.setA { g.a with hd := true }))
    (hft : ∀ g, P g → P (g.setA { g.a with ft := true })) :
    ∀ (gs : List Box) (h f : Option Box) (body : List Box),
    (∀ x ∈ gs, P x) → (∀ x ∈ h.toList, P x) → (∀ x ∈ f.toList, P x) → (∀ x ∈ body, P x) →
    ∀ x ∈ splitGroups gs h f body, P x := by
  intro gs
  induction gs with
  | nil =>
    intro h f body _ hh hf hb x hx
    simp only [splitGroups] at hx
    rcases List.mem_append.mp hx with hx | hx
    · rcases List.mem_append.mp hx with hx | hx
      · exact hh x hx
      · exact hb x hx
    · exact hf x hx
  | cons g gs ih =>
    intro h f body hgs hh hf hb x hx
    have hg : P g := hgs g List.mem_cons_self
    have h' : ∀ x ∈ gs, P x := fun x hx => hgs x (List.mem_cons_of_mem _ hx)
    simp only [splitGroups] at hx
    split at hx
    · refine ih _ _ _ h' ?_ hf hb x hx
      intro y hy
      have : y = g.setA { g.a with hd := true } := by simpa using hy
      subst this; exact hhd g hg
    · split at hx
      · refine ih _ _ _ h' hh ?_ hb x hx
        intro y hy
        have : y = g.setA { g.a with ft := true } := by simpa using hy
        subst this; exact hft g hg
      · refine ih _ _ _ h' hh hf ?_ x hx
        intro y hy
        rcases List.mem_append.mp hy with hy | hy
        · exact hb y hy
        · have : y = g := by simpa using hy
          subst this; exact hg

theorem pt_numberCols_mem : ∀ (cs : List Box) (gx : Nat), ∀ c' ∈ numberCols gx cs,
    ∃ c ∈ cs, ∃ n, c' = c.setA { c.a with gridX := n } := by
  intro cs
  induction cs with
  | nil => intro gx c' h; cases h
  | cons c cs ih =>
    intro gx c' h
    simp only [numberCols] at h
    rcases List.mem_cons.mp h with rfl | h
    · exact ⟨c, List.mem_cons_self, _, rfl⟩
    · obtain ⟨d, hd, e⟩ := ih _ c' h
      exact ⟨d, List.mem_cons_of_mem _ hd, e⟩

theorem pt_colgroup_fix (g : Box) (a' : Attrs) (kids' : List Box) (hty : g.ty = .tableColumnGroup)
    (hg : pt_Good g) (ha1 : a'.running = g.a.running) (ha2 : a'.tw = g.a.tw)
    (hk : ∀ c' ∈ kids', ∃ c ∈ g.kids, ∃ n, c' = c.setA { c.a with gridX := n }) :
    allW pt_post (.mk g.ty a' kids' g.cols) = true ∧
      (a'.running = true ∨ ∀ c ∈ kids', c.ty = .tableColumn) := by
  cases g with
  | mk ty a kids cols =>
    have hty : ty = .tableColumnGroup := hty
    subst hty
    have ha1 : a'.running = a.running := ha1
    have ha2 : a'.tw = a.tw := ha2
    have hk : ∀ c' ∈ kids', ∃ c ∈ kids, ∃ n, c' = c.setA { c.a with gridX := n } := hk
    show allW pt_post (.mk .tableColumnGroup a' kids' cols) = true ∧ _
    rw [pt_allW_mk]
    rcases hg with hg | ⟨g1, g2, g3⟩
    · have hg : a.running = true := hg
      rw [ha1, hg]; exact ⟨rfl, Or.inl rfl⟩
    · have g1 : pt_loc .tableColumnGroup a kids cols = true := g1
      have g2 : allWList pt_post kids = true := g2
      have g3 : allWList pt_post cols = true := g3
      obtain ⟨⟨⟨⟨⟨⟨_, _⟩, _⟩, hkid⟩, htw⟩, _⟩, _⟩ := (pt_loc_iff _ _ _ _).mp g1
      have htw : a.tw = false := by
        rcases htw with htw | ⟨t, _⟩
        · exact htw
        · rcases t with t | t <;> cases t
      have hcolty : ∀ c ∈ kids, c.ty = .tableColumn := by
        intro c hcm
        have := (pt_kid_iff _ _ _ _ _).mp (hkid c hcm)
        obtain ⟨⟨_, k8⟩, _⟩ := this
        rcases k8 with k8 | k8
        · exact absurd rfl k8
        · exact k8
      have hloc : pt_loc .tableColumnGroup a' kids' cols = true := by
        rw [pt_loc_attr _ a a' _ _ ha2]
        apply pt_loc_transfer _ _ kids _ _ g1 (by decide) (by decide) htw
        intro c' hc'
        obtain ⟨c, hc, n, rfl⟩ := hk c' hc'
        exact ⟨c, hc, rfl, rfl, rfl⟩
      have hkids : allWList pt_post kids' = true := by
        rw [pt_allWList_iff] at g2 ⊢
        intro c' hc'
        obtain ⟨c, hc, n, rfl⟩ := hk c' hc'
        exact pt_allW_setA c _ rfl rfl (g2 c hc)
      refine ⟨?_, Or.inr ?_⟩
      · simp only [pt_post, hloc, pt_gridOKw_ne .tableColumnGroup kids' (by decide), hkids, g3, Bool.and_self, Bool.or_true]
      · intro c' hc'
        obtain ⟨c, hc, n, rfl⟩ := hk c' hc'
        exact hcolty c hc

theorem pt_assignCols_good : ∀ (gs : List Box) (gx : Nat), (∀ y ∈ gs, pt_Good y ∧ y.ty = .tableColumnGroup) →
    ∀ x ∈ assignCols gx gs, allW pt_post x = true ∧ x.ty = .tableColumnGroup ∧
      (x.a.running = true ∨ ∀ c ∈ x.kids, c.ty = .tableColumn) := by
  intro gs
  induction gs with
  | nil => intro gx _ x hx; cases hx
  | cons g gs ih =>
    intro gx h x hx
    obtain ⟨hg, hty⟩ := h g List.mem_cons_self
    have h' : ∀ y ∈ gs, pt_Good y ∧ y.ty = .tableColumnGroup := fun y hy => h y (List.mem_cons_of_mem _ hy)
    simp only [assignCols] at hx
    split at hx
    · rcases List.mem_cons.mp hx with rfl | hx
      · obtain ⟨f1, f2⟩ := pt_colgroup_fix g { g.a with gridX := gx } (numberCols gx g.kids) hty hg rfl rfl
          (pt_numberCols_mem g.kids gx)
        exact ⟨f1, hty, f2⟩
      · exact ih _ h' x hx
    · rcases List.mem_cons.mp hx with rfl | hx
      · obtain ⟨f1, f2⟩ := pt_colgroup_fix g { g.a with gridX := gx } g.kids hty hg rfl rfl
          (fun c hc => ⟨c, hc, c.a.gridX, by cases c; rfl⟩)
        exact ⟨f1, hty, f2⟩
      · exact ih _ h' x hx

theorem pt_byType_mem : ∀ (cs co ro ca : List Box), byType cs = .ok (co, ro, ca) →
    (∀ x ∈ co, x ∈ cs ∧ (x.ty = .tableColumn ∨ x.ty = .tableColumnGroup)) ∧
    (∀ x ∈ ro, x ∈ cs ∧ (x.ty = .tableRow ∨ x.ty = .tableRowGroup)) ∧
    (∀ x ∈ ca, x ∈ cs ∧ x.ty = .tableCaption) := by
  intro cs
  induction cs with
  | nil =>
    intro co ro ca h
    cases h
    refine ⟨?_, ?_, ?_⟩ <;> intro x hx <;> cases hx
  | cons c cs ih =>
    intro co ro ca h
    rw [byType] at h
    obtain ⟨⟨co', ro', ca'⟩, e, h⟩ := pt_bind_ok h
    obtain ⟨i1, i2, i3⟩ := ih co' ro' ca' e
    have m1 : ∀ x ∈ co', x ∈ c :: cs ∧ (x.ty = .tableColumn ∨ x.ty = .tableColumnGroup) :=
      fun x hx => ⟨List.mem_cons_of_mem _ (i1 x hx).1, (i1 x hx).2⟩
    have m2 : ∀ x ∈ ro', x ∈ c :: cs ∧ (x.ty = .tableRow ∨ x.ty = .tableRowGroup) :=
      fun x hx => ⟨List.mem_cons_of_mem _ (i2 x hx).1, (i2 x hx).2⟩
    have m3 : ∀ x ∈ ca', x ∈ c :: cs ∧ x.ty = .tableCaption :=
      fun x hx => ⟨List.mem_cons_of_mem _ (i3 x hx).1, (i3 x hx).2⟩
    dsimp only at h
    split at h
    · rename_i h1
      cases h
      refine ⟨?_, m2, m3⟩
      intro x hx
      rcases List.mem_cons.mp hx with rfl | hx
      · exact ⟨List.mem_cons_self, by simpa using h1⟩
      · exact m1 x hx
    · split at h
      · rename_i h2
        cases h
        refine ⟨m1, ?_, m3⟩
        intro x hx
        rcases List.mem_cons.mp hx with rfl | hx
        · exact ⟨List.mem_cons_self, by simpa using h2⟩
        · exact m2 x hx
      · split at h
        · rename_i h3
          cases h
          refine ⟨m1, m2, ?_⟩
          intro x hx
          rcases List.mem_cons.mp hx with rfl | hx
          · exact ⟨List.mem_cons_self, by simpa using h3⟩
          · exact m3 x hx
        · cases h

/-- `wrapGo_spec` in the form "if the run succeeds, then …" (no totality of `wrap` needed) -/
theorem pt_wrapGo (wrap : List Box → R Box) (flex : Bool) (test : Box → Bool) (Q P : Box → Prop)
    (hw : ∀ l w, l ≠ [] → (∀ x ∈ l, Q x) → wrap l = .ok w → P w) :
    ∀ cs imp r, (∀ x ∈ cs, test x = false → Q x) → (∀ x ∈ cs, test x = true → P x) →
      (∀ x ∈ imp, Q x) → wrapGo wrap flex test cs imp = .ok r → ∀ x ∈ r, P x := by
  intro cs
  induction cs with
  | nil =>
    intro imp r _ _ hq h
    simp only [wrapGo] at h
    cases imp with
    | nil => cases h; intro x hx; cases hx
    | cons i is =>
      simp only [List.isEmpty_cons, Bool.false_eq_true, if_false] at h
      obtain ⟨w, hw1, h⟩ := pt_bind_ok h
      cases h
      intro x hx
      have : x = w := by simpa using hx
      subst this
      exact hw (i :: is) x (by simp) hq hw1
  | cons c cs ih =>
    intro imp r hf hp hq h
    have hf' : ∀ x ∈ cs, test x = false → Q x := fun x hx => hf x (List.mem_cons_of_mem _ hx)
    have hp' : ∀ x ∈ cs, test x = true → P x := fun x hx => hp x (List.mem_cons_of_mem _ hx)
    simp only [wrapGo] at h
    by_cases ht : test c = true
    · rw [if_pos ht] at h
      obtain ⟨rest, hr, h⟩ := pt_bind_ok h
      have hpr := ih [] rest hf' hp' (by simp) hr
      have hc : P c := hp c List.mem_cons_self ht
      cases imp with
      | nil =>
        simp only [List.isEmpty_nil, if_true] at h
        cases h
        intro x hx
        rcases List.mem_cons.mp hx with rfl | hx
        · exact hc
        · exact hpr x hx
      | cons i is =>
        simp only [List.isEmpty_cons, Bool.false_eq_true, if_false] at h
        obtain ⟨w, hw1, h⟩ := pt_bind_ok h
        cases h
        intro x hx
        rcases List.mem_cons.mp hx with rfl | hx
        · exact hw (i :: is) x (by simp) hq hw1
        · rcases List.mem_cons.mp hx with rfl | hx
          · exact hc
          · exact hpr x hx
    · rw [if_neg ht] at h
      have htf : test c = false := by simpa using ht
      cases flex with
      | true =>
        simp only [if_true] at h
        exact ih imp r hf' hp' hq h
      | false =>
        simp only [Bool.false_eq_true, if_false] at h
        apply ih (imp ++ [c]) r hf' hp' _ h
        intro x hx
        rcases List.mem_append.mp hx with hx | hx
        · exact hq x hx
        · have : x = c := by simpa using hx
          subst this; exact hf x List.mem_cons_self htf


/-! ### (3) the boxes `tbc` builds -/

theorem pt_good_leaf (ty : Ty) (a : Attrs) (hraw : rawTy ty = true) (htw : a.tw = false) :
    pt_Good (.mk ty a [] []) := by
  refine Or.inr ⟨?_, by show allWList pt_post [] = true; rw [allWList], by show allWList pt_post [] = true; rw [allWList]⟩
  exact (pt_loc_iff ty a [] []).mpr ⟨⟨⟨⟨⟨⟨hraw, Or.inr rfl⟩, Or.inr rfl⟩, by intro x hx; cases hx⟩, Or.inl htw⟩,
    Or.inr (by intro x hx; cases hx)⟩, Or.inr rfl⟩

/-- the table wrapper assembled by `wrapTable` -/
theorem pt_wrapper_good (wty : Ty) (wa : Attrs) (capT capB : List Box) (tty : Ty) (ta : Attrs) (rg cg : List Box)
    (hw : wty = .block ∨ wty = .inlineBlock) (hwa : wa.tw = true) (htt : isTable tty = true)
    (hta : ta.tw = false) (htr : ta.running = false)
    (hcT : ∀ x ∈ capT, pt_C x ∧ x.ty = .tableCaption) (hcB : ∀ x ∈ capB, pt_C x ∧ x.ty = .tableCaption)
    (hrg : ∀ x ∈ rg, allW pt_post x = true ∧ x.ty = .tableRowGroup)
    (hcg : ∀ x ∈ cg, allW pt_post x = true ∧ x.ty = .tableColumnGroup ∧
      (x.a.running = true ∨ ∀ c ∈ x.kids, c.ty = .tableColumn)) :
    allW pt_post (.mk wty wa (capT ++ [.mk tty ta rg cg] ++ capB) []) = true := by
  have hcapAll : ∀ x, pt_C x ∧ x.ty = .tableCaption → allW pt_post x = true := by
    intro x hx
    exact pt_good_allW x hx.1.1 (by rw [hx.2]; decide)
  -- the table
  have htab : allW pt_post (.mk tty ta rg cg) = true := by
    rw [pt_allW_mk]
    have hloc : pt_loc tty ta rg cg = true := by
      refine (pt_loc_iff _ _ _ _).mpr ⟨⟨⟨⟨⟨⟨?_, Or.inl ?_⟩, Or.inl ?_⟩, ?_⟩, Or.inl hta⟩, Or.inr ?_⟩, Or.inl htt⟩
      · rcases tb_isTable_cases tty htt with h | h <;> rw [h] <;> decide
      · rcases tb_isTable_cases tty htt with h | h <;> rw [h] <;> decide
      · rcases tb_isTable_cases tty htt with h | h <;> rw [h] <;> decide
      · intro x hx
        unfold pt_kidB
        rw [hta, (hrg x hx).2]
        exact pt_kid_rowGroup tty _ _ htt
      · intro x hx
        exact (hcg x hx).2
    have hk : allWList pt_post rg = true := (pt_allWList_iff _ _).mpr (fun x hx => (hrg x hx).1)
    have hc : allWList pt_post cg = true := (pt_allWList_iff _ _).mpr (fun x hx => (hcg x hx).1)
    have hgr : gridOKw tty rg = true := pt_gridOKw_ne _ _ (by
      rcases tb_isTable_cases tty htt with h | h <;> rw [h] <;> decide)
    simp only [pt_post, hloc, hgr, hk, hc, Bool.and_self, Bool.or_true]
  rw [pt_allW_mk]
  have hwnt : isTable wty = false := by rcases hw with h | h <;> rw [h] <;> rfl
  have hfT : capT.filter (fun c => isTable c.ty) = [] := by
    rw [List.filter_eq_nil_iff]
    intro x hx; rw [(hcT x hx).2]; decide
  have hfB : capB.filter (fun c => isTable c.ty) = [] := by
    rw [List.filter_eq_nil_iff]
    intro x hx; rw [(hcB x hx).2]; decide
  have hloc : pt_loc wty wa (capT ++ [.mk tty ta rg cg] ++ capB) [] = true := by
    refine (pt_loc_iff _ _ _ _).mpr ⟨⟨⟨⟨⟨⟨?_, Or.inl ?_⟩, Or.inl ?_⟩, ?_⟩, Or.inr ⟨hw, ?_⟩⟩, Or.inl hwnt⟩, Or.inr rfl⟩
    · rcases hw with h | h <;> rw [h] <;> decide
    · rcases hw with h | h <;> rw [h] <;> decide
    · rcases hw with h | h <;> rw [h] <;> decide
    · intro x hx
      unfold pt_kidB
      rw [hwa]
      have hcap : ∀ y, pt_C y ∧ y.ty = .tableCaption →
          pt_kid wty true y.ty y.a.running (decide (1 ≤ y.a.colspan)) = true := by
        intro y hy
        rw [hy.2]
        cases hr : y.a.running
        · exact (pt_kid_caption wty _ hw).1
        · exact (pt_kid_caption wty _ hw).2
      rcases List.mem_append.mp hx with hx | hx
      · rcases List.mem_append.mp hx with hx | hx
        · exact hcap x (hcT x hx)
        · have : x = .mk tty ta rg cg := by simpa using hx
          subst this
          show pt_kid wty true tty ta.running _ = true
          rw [htr]
          exact pt_kid_table wty tty _ hw htt
      · exact hcap x (hcB x hx)
    · rw [List.filter_append, List.filter_append, hfT, hfB]
      simp [Box.ty, htt]
  have hkids : allWList pt_post (capT ++ [.mk tty ta rg cg] ++ capB) = true := by
    rw [pt_allWList_iff]
    intro x hx
    rcases List.mem_append.mp hx with hx | hx
    · rcases List.mem_append.mp hx with hx | hx
      · exact hcapAll x (hcT x hx)
      · have : x = .mk tty ta rg cg := by simpa using hx
        subst this; exact htab
    · exact hcapAll x (hcB x hx)
  have hnil : allWList pt_post [] = true := by rw [allWList]
  have hgr : gridOKw wty (capT ++ [.mk tty ta rg cg] ++ capB) = true := pt_gridOKw_ne _ _ (by
    rcases hw with h | h <;> rw [h] <;> decide)
  simp only [pt_post, hloc, hgr, hkids, hnil, Bool.and_self, Bool.or_true]

/-- what `tbc` needs of the box it is applied to -/
def pt_H (box : Box) : Prop :=
  box.a.running = false ∧ box.a.tw = false ∧ rawTy box.ty = true ∧ isParent box.ty = true ∧ box.cols = [] ∧
    (box.ty = .tableCell → 1 ≤ box.a.colspan)

/-- what `tbc` returns -/
def pt_Res (box r : Box) : Prop :=
  pt_Good r ∧ (isTable box.ty = false → r.ty = box.ty ∧ r.a = box.a) ∧
    (isTable box.ty = true → (r.ty = .block ∨ r.ty = .inlineBlock) ∧ r.a.running = false)

def pt_TbcOK (f : Nat) : Prop := ∀ box c0 r, tbc f box c0 = .ok r → pt_H box → (∀ x ∈ c0, pt_C x) → pt_Res box r

theorem pt_kok_plain (t : Ty) (csok : Bool) (h1 : rawTy t = true) (h2 : isTable t = false) (h3 : t = .tableCell → csok = true) :
    pt_kok t false csok = true := by
  cases csok
  · revert h1 h2 h3; cases t <;> decide
  · revert h1 h2; cases t <;> decide

theorem pt_C_of_res (box r : Box) (hb : pt_H box) (hr : pt_Res box r) : pt_C r := by
  obtain ⟨b1, b2, b3, b4, b5, b6⟩ := hb
  obtain ⟨r1, r2, r3⟩ := hr
  refine ⟨r1, ?_⟩
  unfold pt_kidOK
  cases ht : isTable box.ty
  · obtain ⟨e1, e2⟩ := r2 ht
    rw [e1, e2, b1]
    apply pt_kok_plain _ _ b3 ht
    intro hc
    simpa using b6 hc
  · obtain ⟨e1, e2⟩ := r3 ht
    rw [e2]
    generalize decide (1 ≤ r.a.colspan) = cs
    rcases e1 with e1 | e1 <;> rw [e1] <;> cases cs <;> decide

theorem pt_H_anon (t : Ty) (a : Attrs) (h1 : rawTy t = true) (h2 : isParent t = true) : pt_H (anon t a []) := by
  refine ⟨rfl, rfl, h1, h2, rfl, ?_⟩
  intro hc
  have hc : t = .tableCell := hc
  subst hc
  exact pt_intAttr_pos a.ec

theorem pt_anon (f : Nat) (ih : pt_TbcOK f) (t : Ty) (a : Attrs) (l : List Box) (w : Box)
    (h1 : rawTy t = true) (h2 : isParent t = true) (hl : ∀ x ∈ l, pt_C x)
    (hw : tbc f (anon t a []) l = .ok w) :
    pt_C w ∧ (isTable t = false → w.ty = t) ∧ (isTable t = true → w.ty = .block ∨ w.ty = .inlineBlock) := by
  have hb := pt_H_anon t a h1 h2
  have hr := ih _ _ _ hw hb hl
  exact ⟨pt_C_of_res _ _ hb hr, fun h => (hr.2.1 h).1, fun h => (hr.2.2 h).1⟩

theorem pt_tbPrep_C (box : Box) (c0 : List Box) (hc0 : ∀ x ∈ c0, pt_C x) : ∀ x ∈ tbPrep box c0, pt_C x := by
  intro x hx
  have hx := tbPrep_mem _ _ _ hx
  unfold tbPrep0 at hx
  split at hx
  · cases hx
  · split at hx
    · dsimp only at hx
      split at hx
      · rw [List.eq_of_mem_replicate hx]
        refine ⟨pt_good_leaf _ _ (by decide) rfl, ?_⟩
        show pt_kok .tableColumn false _ = true
        exact pt_kok_plain _ _ (by decide) (by decide) (by intro h; cases h)
      · exact hc0 x (List.mem_filter.mp hx).1
    · exact hc0 x hx

/-- the result `box.setKids it` at a box that is not a table -/
theorem pt_setKids_good (box : Box) (it : List Box) (hb : pt_H box) (ht : isTable box.ty = false)
    (hit : ∀ x ∈ it, pt_C x ∧ tbK3 box.ty x.ty = true) : pt_Res box (box.setKids it) := by
  obtain ⟨b1, b2, b3, b4, b5, b6⟩ := hb
  refine ⟨Or.inr ⟨?_, ?_, ?_⟩, fun _ => ⟨rfl, rfl⟩, fun h => by rw [ht] at h; cases h⟩
  · show pt_loc box.ty box.a it box.cols = true
    refine (pt_loc_iff _ _ _ _).mpr ⟨⟨⟨⟨⟨⟨b3, Or.inl b4⟩, ?_⟩, ?_⟩, Or.inl b2⟩, Or.inl ht⟩, Or.inr b5⟩
    · cases it with
      | nil => exact Or.inr rfl
      | cons x xs => exact Or.inl ((tbK3_iff _ _).mp (hit x List.mem_cons_self).2).1
    · intro x hx
      unfold pt_kidB
      rw [b2]
      exact pt_kid_of_K3 _ _ _ _ ht (hit x hx).2 (hit x hx).1.2
  · show allWList pt_post it = true
    rw [pt_allWList_iff]
    intro x hx
    exact pt_good_allW x (hit x hx).1.1 (pt_K3_not_rowGroup _ _ ht (hit x hx).2)
  · show allWList pt_post box.cols = true
    rw [b5, allWList]


theorem pt_wrapTable_good (f : Nat) (ih : pt_TbcOK f) (box : Box) (it : List Box) (r : Box)
    (ht : isTable box.ty = true) (hb : pt_H box)
    (hit : ∀ x ∈ it, pt_C x ∧ properTableChild x.ty = true)
    (h : wrapTable (tbc f) box it = .ok r) : pt_Res box r := by
  obtain ⟨b1, b2, b3, b4, b5, b6⟩ := hb
  unfold wrapTable at h
  obtain ⟨⟨co, ro, ca⟩, e, h⟩ := pt_bind_ok h
  dsimp only at h
  obtain ⟨cg0, ecg, h⟩ := pt_bind_ok h
  obtain ⟨rg0, erg, h⟩ := pt_bind_ok h
  obtain ⟨rg, egg, h⟩ := pt_bind_ok h
  simp only [pure, Except.pure, Except.ok.injEq] at h
  subst h
  obtain ⟨m1, m2, m3⟩ := pt_byType_mem it co ro ca e
  have hcg0 : ∀ x ∈ cg0, pt_Good x ∧ x.ty = .tableColumnGroup := by
    refine pt_wrapGo _ _ _ (fun x => pt_C x) (fun x => pt_Good x ∧ x.ty = .tableColumnGroup) ?_ co [] cg0 ?_ ?_ ?_ ecg
    · intro l w _ hq hw
      obtain ⟨cw, tw, _⟩ := pt_anon f ih .tableColumnGroup box.a l w (by decide) (by decide) hq hw
      exact ⟨cw.1, tw rfl⟩
    · intro x hx _; exact (hit x (m1 x hx).1).1
    · intro x hx h; exact ⟨(hit x (m1 x hx).1).1.1, by simpa using h⟩
    · intro x hx; cases hx
  have hrg0 : ∀ x ∈ rg0, pt_Good x ∧ x.ty = .tableRowGroup := by
    refine pt_wrapGo _ _ _ (fun x => pt_C x) (fun x => pt_Good x ∧ x.ty = .tableRowGroup) ?_ ro [] rg0 ?_ ?_ ?_ erg
    · intro l w _ hq hw
      obtain ⟨cw, tw, _⟩ := pt_anon f ih .tableRowGroup box.a l w (by decide) (by decide) hq hw
      exact ⟨cw.1, tw rfl⟩
    · intro x hx _; exact (hit x (m2 x hx).1).1
    · intro x hx h; exact ⟨(hit x (m2 x hx).1).1.1, by simpa using h⟩
    · intro x hx; cases hx
  have hrg1 : ∀ x ∈ splitGroups rg0 none none [], pt_Good x ∧ x.ty = .tableRowGroup := by
    apply pt_splitGroups_P (fun x => pt_Good x ∧ x.ty = .tableRowGroup)
    · intro g hg; exact ⟨pt_good_setA g _ rfl rfl hg.1, hg.2⟩
    · intro g hg; exact ⟨pt_good_setA g _ rfl rfl hg.1, hg.2⟩
    · exact hrg0
    · intro x hx; cases hx
    · intro x hx; cases hx
    · intro x hx; cases hx
  have hrg := pt_groupsGo_good _ rg egg hrg1
  have hcg := pt_assignCols_good cg0 0 hcg0
  have hwty : (if box.ty == .inlineTable then Ty.inlineBlock else Ty.block) = .block ∨
      (if box.ty == .inlineTable then Ty.inlineBlock else Ty.block) = .inlineBlock := by
    split
    · exact Or.inr rfl
    · exact Or.inl rfl
  have hcap : ∀ (p : Box → Bool), ∀ x ∈ ca.filter p, pt_C x ∧ x.ty = .tableCaption := by
    intro p x hx
    have hx := (List.mem_filter.mp hx).1
    exact ⟨(hit x (m3 x hx).1).1, (m3 x hx).2⟩
  have hall := pt_wrapper_good _
    { anonAttrs (if box.ty == .inlineTable then Ty.inlineBlock else Ty.block) box.a with
      tw := true, floated := box.a.floated, absPos := box.a.absPos, running := box.a.running }
    (ca.filter (·.a.cap == 0)) (ca.filter (·.a.cap == 1)) box.ty
    { box.a with floated := false, absPos := false, running := false } rg (assignCols 0 cg0)
    hwty rfl ht b2 rfl (hcap _) (hcap _) hrg hcg
  refine ⟨pt_allW_good _ hall, fun h => (by rw [ht] at h; cases h), fun _ => ⟨hwty, b1⟩⟩

theorem pt_tbc_table (f : Nat) (ih : pt_TbcOK f) (box : Box) (c0 : List Box) (r : Box)
    (ht : isTable box.ty = true) (hb : pt_H box) (hc0 : ∀ x ∈ c0, pt_C x)
    (h : tbc (f + 1) box c0 = .ok r) : pt_Res box r := by
  rw [tbc_succ] at h
  obtain ⟨it1, e1, h1⟩ := pt_bind_ok h
  obtain ⟨it2, e2, h2⟩ := pt_bind_ok h1
  obtain ⟨it3, e3, hfin⟩ := pt_bind_ok h2
  clear h h1 h2
  have hnr : box.ty ≠ .tableRow := by
    intro h; rw [h] at ht; exact absurd ht (by decide)
  have hni : box.ty ≠ .inline := by
    intro h; rw [h] at ht; exact absurd ht (by decide)
  have hprep := pt_tbPrep_C box c0 hc0
  have s1 : ∀ x ∈ it1, pt_C x ∧ properTableChild x.ty = true := by
    rw [tbSt1_table _ _ _ ht] at e1
    refine pt_wrapGo _ _ _ (fun x => pt_C x) (fun x => pt_C x ∧ properTableChild x.ty = true) ?_ _ [] it1 ?_ ?_ ?_ e1
    · intro l w _ hq hw
      obtain ⟨cw, tw, _⟩ := pt_anon f ih .tableRow box.a l w (by decide) (by decide) hq hw
      exact ⟨cw, by rw [tw rfl]; rfl⟩
    · intro x hx _; exact hprep x hx
    · intro x hx h; exact ⟨hprep x hx, h⟩
    · intro x hx; cases hx
  have e2' : it2 = it1 := by
    rw [tbSt2_other _ _ _ hnr, wrapGo_all_pass _ _ _ it1 (fun x hx => by
      have := tb_proper_not_cell _ (s1 x hx).2
      simpa using this)] at e2
    cases e2; rfl
  subst e2'
  have e3' : it3 = it2 := by
    rw [tbSt3_other _ _ _ hni, wrapGo_all_pass _ _ _ it2 (fun x hx => by
      rw [tb_table_parent _ _ ht (s1 x hx).2]; exact Bool.or_true _)] at e3
    cases e3; rfl
  subst e3'
  unfold tbFin at hfin
  rw [if_pos ht] at hfin
  exact pt_wrapTable_good f ih box it3 r ht hb s1 hfin

theorem pt_tbc_other (f : Nat) (ih : pt_TbcOK f) (box : Box) (c0 : List Box) (r : Box)
    (ht : isTable box.ty = false) (hb : pt_H box) (hc0 : ∀ x ∈ c0, pt_C x)
    (h : tbc (f + 1) box c0 = .ok r) : pt_Res box r := by
  rw [tbc_succ] at h
  obtain ⟨it1, e1, h1⟩ := pt_bind_ok h
  obtain ⟨it2, e2, h2⟩ := pt_bind_ok h1
  obtain ⟨it3, e3, hfin⟩ := pt_bind_ok h2
  clear h h1 h2
  have hrow : ∀ l w, (∀ x ∈ l, pt_C x) → tbc f (anon .tableRow box.a []) l = .ok w → pt_C w ∧ w.ty = .tableRow := by
    intro l w hl hw
    obtain ⟨cw, tw, _⟩ := pt_anon f ih .tableRow box.a l w (by decide) (by decide) hl hw
    exact ⟨cw, tw rfl⟩
  have hcell : ∀ l w, (∀ x ∈ l, pt_C x) → tbc f (anon .tableCell box.a []) l = .ok w → pt_C w ∧ w.ty = .tableCell := by
    intro l w hl hw
    obtain ⟨cw, tw, _⟩ := pt_anon f ih .tableCell box.a l w (by decide) (by decide) hl hw
    exact ⟨cw, tw rfl⟩
  have htab : ∀ t l w, isTable t = true → (∀ x ∈ l, pt_C x) → tbc f (anon t box.a []) l = .ok w →
      pt_C w ∧ (w.ty = .block ∨ w.ty = .inlineBlock) := by
    intro t l w htt hl hw
    obtain ⟨cw, _, tw⟩ := pt_anon f ih t box.a l w
      (by rcases tb_isTable_cases t htt with h | h <;> rw [h] <;> decide)
      (by rcases tb_isTable_cases t htt with h | h <;> rw [h] <;> decide) hl hw
    exact ⟨cw, tw htt⟩
  have hprep := pt_tbPrep_C box c0 hc0
  have s1 : ∀ x ∈ it1, pt_C x ∧ tbK1 box.ty x.ty = true := by
    by_cases hg : box.ty = .tableRowGroup
    · rw [tbSt1_rowGroup _ _ _ hg] at e1
      refine pt_wrapGo _ _ _ (fun x => pt_C x) (fun x => pt_C x ∧ tbK1 box.ty x.ty = true) ?_ _ [] it1 ?_ ?_ ?_ e1
      · intro l w _ hq hw
        obtain ⟨cw, tw⟩ := hrow l w hq hw
        exact ⟨cw, by rw [tw, hg]; rfl⟩
      · intro x hx _; exact hprep x hx
      · intro x hx h
        have : x.ty = .tableRow := by simpa using h
        exact ⟨hprep x hx, by rw [this, hg]; rfl⟩
      · intro x hx; cases hx
    · rw [tbSt1_other _ _ _ ht hg] at e1
      cases e1
      intro x hx
      obtain ⟨h1, h2⟩ := tbPrep_K _ _ _ hx
      exact ⟨hprep x hx, tbK1_of _ _ h1 h2 hg⟩
  have s2 : ∀ x ∈ it2, pt_C x ∧ tbK2 box.ty x.ty = true := by
    by_cases hr : box.ty = .tableRow
    · rw [tbSt2_row _ _ _ hr] at e2
      refine pt_wrapGo _ _ _ (fun x => pt_C x) (fun x => pt_C x ∧ tbK2 box.ty x.ty = true) ?_ _ [] it2 ?_ ?_ ?_ e2
      · intro l w _ hq hw
        obtain ⟨cw, tw⟩ := hcell l w hq hw
        exact ⟨cw, by rw [tw, hr]; rfl⟩
      · intro x hx _; exact (s1 x hx).1
      · intro x hx h
        have : x.ty = .tableCell := by simpa using h
        exact ⟨(s1 x hx).1, by rw [this, hr]; rfl⟩
      · intro x hx; cases hx
    · rw [tbSt2_other _ _ _ hr] at e2
      refine pt_wrapGo _ _ _ (fun x => pt_C x ∧ tbK1 box.ty x.ty = true ∧ x.ty = .tableCell)
        (fun x => pt_C x ∧ tbK2 box.ty x.ty = true) ?_ _ [] it2 ?_ ?_ ?_ e2
      · intro l w hl hq hw
        obtain ⟨cw, tw⟩ := hrow l w (fun x hx => (hq x hx).1) hw
        refine ⟨cw, ?_⟩
        cases l with
        | nil => exact absurd rfl hl
        | cons y ys =>
          obtain ⟨_, hk, hy⟩ := hq y List.mem_cons_self
          rw [hy] at hk
          rw [tw]; exact tbK2_wrap _ hk hr
      · intro x hx hf; exact ⟨(s1 x hx).1, (s1 x hx).2, by simpa using hf⟩
      · intro x hx h; exact ⟨(s1 x hx).1, tbK2_pass _ _ (s1 x hx).2 h hr⟩
      · intro x hx; cases hx
  have s3 : ∀ x ∈ it3, pt_C x ∧ tbK3 box.ty x.ty = true := by
    by_cases hi : box.ty = .inline
    · rw [tbSt3_inline _ _ _ hi] at e3
      refine pt_wrapGo _ _ _ (fun x => pt_C x) (fun x => pt_C x ∧ tbK3 box.ty x.ty = true) ?_ _ [] it3 ?_ ?_ ?_ e3
      · intro l w _ hq hw
        obtain ⟨cw, tw⟩ := htab .inlineTable l w rfl hq hw
        refine ⟨cw, ?_⟩
        rcases tw with h | h <;> rw [h, hi] <;> rfl
      · intro x hx _; exact (s2 x hx).1
      · intro x hx h
        refine ⟨(s2 x hx).1, tbK3_pass _ _ (s2 x hx).2 ?_⟩
        have h : (!properTableChild x.ty) = true := h
        rw [h]; rfl
      · intro x hx; cases hx
    · rw [tbSt3_other _ _ _ hi] at e3
      refine pt_wrapGo _ _ _
        (fun x => pt_C x ∧ tbK2 box.ty x.ty = true ∧ properTableChild x.ty = true ∧
          isInProperParents box.ty x.ty = false)
        (fun x => pt_C x ∧ tbK3 box.ty x.ty = true) ?_ _ [] it3 ?_ ?_ ?_ e3
      · intro l w hl hq hw
        obtain ⟨cw, tw⟩ := htab .table l w rfl (fun x hx => (hq x hx).1) hw
        refine ⟨cw, ?_⟩
        cases l with
        | nil => exact absurd rfl hl
        | cons y ys =>
          obtain ⟨_, hk, hy1, hy2⟩ := hq y List.mem_cons_self
          obtain ⟨w1, w2⟩ := tbK3_wrap _ _ hk hy1 hy2
          rcases tw with h | h <;> rw [h]
          · exact w1
          · exact w2
      · intro x hx hf
        simp only [Bool.or_eq_false_iff, Bool.not_eq_false'] at hf
        exact ⟨(s2 x hx).1, (s2 x hx).2, hf.1, hf.2⟩
      · intro x hx h; exact ⟨(s2 x hx).1, tbK3_pass _ _ (s2 x hx).2 h⟩
      · intro x hx; cases hx
  unfold tbFin at hfin
  rw [if_neg (by rw [ht]; exact Bool.false_ne_true)] at hfin
  simp only [pure, Except.pure, Except.ok.injEq] at hfin
  subst hfin
  exact pt_setKids_good box it3 hb ht s3

/-- whenever `tbc` succeeds (any fuel) its result is good -/
theorem pt_tbc_good : ∀ f, pt_TbcOK f := by
  intro f
  induction f with
  | zero =>
    intro box c0 r h _ _
    rw [tbc] at h
    cases h
  | succ f ih =>
    intro box c0 r h hb hc0
    cases ht : isTable box.ty
    · exact pt_tbc_other f ih box c0 r ht hb hc0 h
    · exact pt_tbc_table f ih box c0 r ht hb hc0 h


/-! ### (4) the induction over `anonTable` -/

-- `pt_rawOK` (rawOK plus: every cell child spans at least one column, see `pt_cx1`) is defined in Shape2.lean

theorem pt_rawOK_rawOK (b : Box) (h : allW pt_rawOK b = true) : allW rawOK b = true :=
  pt_allW_mono pt_rawOK rawOK (fun ty a k c h => by
    simp only [pt_rawOK, Bool.and_eq_true] at h; exact h.1) b h

theorem pt_rawOK_iff (ty : Ty) (a : Attrs) (kids cols : List Box) : pt_rawOK ty a kids cols = true ↔
  (((((rawTy ty = true ∧ cols = []) ∧ a.tw = false) ∧ (isParent ty = true ∨ kids = [])) ∧
        ∀ (x : Box), x ∈ kids → rawTy x.ty = true) ∧
      (ty ≠ Ty.tableCell ∨ 1 ≤ a.colspan)) ∧
    ∀ (x : Box), x ∈ kids → x.ty ≠ Ty.tableCell ∨ 1 ≤ x.a.colspan := by
  simp only [pt_rawOK, rawOK, Bool.and_eq_true, Bool.or_eq_true, Bool.not_eq_true', List.all_eq_true,
    List.isEmpty_iff, beq_eq_false_iff_ne, decide_eq_true_eq]

/-- what `anonTable` makes of a raw box -/
def pt_AR (b r : Box) : Prop :=
  pt_Good r ∧ ((isTable b.ty = false ∨ b.a.running = true) → r.ty = b.ty ∧ r.a = b.a) ∧
    (isTable b.ty = true → b.a.running = false → (r.ty = .block ∨ r.ty = .inlineBlock) ∧ r.a.running = false)

theorem pt_kok_of (t : Ty) (run csok : Bool) : rawTy t = true →
    (isTable t = false ∨ run = true) → (t = .tableCell → csok = true) → pt_kok t run csok = true := by
  cases t <;> cases run <;> cases csok <;> decide

theorem pt_C_of_AR (k x : Box) (har : pt_AR k x) (h1 : rawTy k.ty = true)
    (h3 : k.ty ≠ .tableCell ∨ 1 ≤ k.a.colspan) : pt_C x := by
  refine ⟨har.1, ?_⟩
  unfold pt_kidOK
  by_cases hcase : isTable k.ty = false ∨ k.a.running = true
  · obtain ⟨e1, e2⟩ := har.2.1 hcase
    rw [e1, e2]
    apply pt_kok_of _ _ _ h1 hcase
    intro hc
    rcases h3 with h3 | h3
    · exact absurd hc h3
    · simpa using h3
  · have ht : isTable k.ty = true := by
      cases h : isTable k.ty
      · exact absurd (Or.inl h) hcase
      · rfl
    have hr : k.a.running = false := by
      cases h : k.a.running
      · rfl
      · exact absurd (Or.inr h) hcase
    obtain ⟨e1, e2⟩ := har.2.2 ht hr
    rw [e2]
    generalize decide (1 ≤ x.a.colspan) = cs
    rcases e1 with e1 | e1 <;> rw [e1] <;> cases cs <;> decide

mutual
  theorem pt_anonTable_AR : ∀ (b r : Box), allW pt_rawOK b = true → anonTable b = .ok r → pt_AR b r
    | .mk ty a kids cols, r, hraw, h => by
      rw [anonTable] at h
      rw [pt_allW_mk] at hraw
      split at h
      · rename_i hs
        simp only [pure, Except.pure, Except.ok.injEq] at h
        subst h
        refine ⟨?_, fun _ => ⟨rfl, rfl⟩, ?_⟩
        · cases hrun : a.running
          · rw [hrun] at hraw hs
            simp only [Bool.false_or, Bool.and_eq_true, Bool.or_false, Bool.not_eq_true'] at hraw hs
            obtain ⟨⟨⟨⟨⟨⟨r1, r2⟩, r3⟩, r4⟩, _⟩, _⟩, _⟩ := (pt_rawOK_iff _ _ _ _).mp hraw.1.1
            have hs : isParent ty = false := hs
            rw [hs] at r4
            rcases r4 with r4 | r4
            · cases r4
            · subst r4; subst r2
              exact pt_good_leaf ty a r1 r3
          · exact Or.inl hrun
        · intro ht hr
          exfalso
          have ht : isTable ty = true := ht
          have hr : a.running = false := hr
          have hp : isParent ty = true := by
            rcases tb_isTable_cases _ ht with e | e <;> rw [e] <;> rfl
          rw [hp, hr] at hs
          exact absurd hs (by decide)
      · rename_i hs
        have hp : isParent ty = true := by
          cases hpp : isParent ty
          · rw [hpp] at hs; exact absurd rfl hs
          · rfl
        have hrun : a.running = false := by
          cases hrr : a.running
          · rfl
          · rw [hrr] at hs; simp at hs
        obtain ⟨ks, eks, h⟩ := pt_bind_ok h
        rw [hrun] at hraw
        simp only [Bool.false_or, Bool.and_eq_true] at hraw
        obtain ⟨⟨⟨⟨⟨⟨r1, r2⟩, r3⟩, _⟩, r5⟩, r6⟩, r7⟩ := (pt_rawOK_iff _ _ _ _).mp hraw.1.1
        have hlist := pt_anonTableList_AR kids ks hraw.1.2 eks
        have hC : ∀ x ∈ ks, pt_C x := by
          intro x hx
          obtain ⟨k, hk, har⟩ := hlist x hx
          exact pt_C_of_AR k x har (r5 k hk) (r7 k hk)
        have hb : pt_H (.mk ty a kids cols) := ⟨hrun, r3, r1, hp, r2, fun hc => by
          rcases r6 with r6 | r6
          · exact absurd hc r6
          · exact r6⟩
        have hres := pt_tbc_good tbcFuel _ _ _ h hb hC
        refine ⟨hres.1, ?_, fun ht _ => hres.2.2 ht⟩
        intro hcase
        rcases hcase with hcase | hcase
        · exact hres.2.1 hcase
        · have hcase : a.running = true := hcase
          rw [hrun] at hcase; cases hcase
  theorem pt_anonTableList_AR : ∀ (l rs : List Box), allWList pt_rawOK l = true → anonTableList l = .ok rs →
      ∀ x ∈ rs, ∃ k ∈ l, pt_AR k x
    | [], rs, _, h => by
      rw [anonTableList] at h
      simp only [pure, Except.pure, Except.ok.injEq] at h
      subst h
      intro x hx; cases hx
    | k :: ks, rs, hraw, h => by
      rw [anonTableList] at h
      obtain ⟨k', ek, h⟩ := pt_bind_ok h
      obtain ⟨ks', eks, h⟩ := pt_bind_ok h
      simp only [pure, Except.pure, Except.ok.injEq] at h
      subst h
      rw [allWList] at hraw
      simp only [Bool.and_eq_true] at hraw
      intro x hx
      rcases List.mem_cons.mp hx with rfl | hx
      · exact ⟨k, List.mem_cons_self, pt_anonTable_AR k x hraw.1 ek⟩
      · obtain ⟨k0, hk0, har⟩ := pt_anonTableList_AR ks ks' hraw.2 eks x hx
        exact ⟨k0, List.mem_cons_of_mem _ hk0, har⟩
end

/-- the strengthened result: `pt_post` (= `postTable` and "cell children span ≥ 1 column") everywhere -/
theorem anonTable_pt_post (b : Box) (h : allW pt_rawOK b = true)
    (hroot : b.ty ≠ .tableRowGroup ∨ b.a.running = true) :
    ∃ r, anonTable b = .ok r ∧ allW pt_post r = true ∧
      (isTable b.ty = false ∨ b.a.running = true → r.ty = b.ty ∧ r.a = b.a) ∧
      (isTable b.ty = true → b.a.running = false → (r.ty = .block ∨ r.ty = .inlineBlock) ∧ r.a.running = false) := by
  obtain ⟨r, hr⟩ := anonTable_total b
  obtain ⟨g, a1, a2⟩ := pt_anonTable_AR b r h hr
  refine ⟨r, hr, ?_, a1, a2⟩
  by_cases hcase : isTable b.ty = false ∨ b.a.running = true
  · obtain ⟨e1, e2⟩ := a1 hcase
    rcases hroot with hroot | hroot
    · exact pt_good_allW r g (by rw [e1]; exact hroot)
    · rw [pt_allW_eq, e2, hroot]; rfl
  · have ht : isTable b.ty = true := by
      cases h : isTable b.ty
      · exact absurd (Or.inl h) hcase
      · rfl
    have hrn : b.a.running = false := by
      cases h : b.a.running
      · rfl
      · exact absurd (Or.inr h) hcase
    apply pt_good_allW r g
    rcases (a2 ht hrn).1 with e | e <;> rw [e] <;> decide

/-- MAIN (`table_fixup_wf`), with the two hypotheses the counterexamples `pt_cx1` / `pt_cx2` force:
    cell children span at least one column (also when running), and the root is not a bare row group -/
theorem anonTable_postTable' (b : Box) (h : allW pt_rawOK b = true)
    (hroot : b.ty ≠ .tableRowGroup ∨ b.a.running = true) :
    ∃ r, anonTable b = .ok r ∧ allW postTable r = true ∧
      (isTable b.ty = false ∨ b.a.running = true → r.ty = b.ty ∧ r.a.running = b.a.running) ∧
      (isTable b.ty = true → b.a.running = false → (r.ty = .block ∨ r.ty = .inlineBlock)) := by
  obtain ⟨r, hr, hp, a1, a2⟩ := anonTable_pt_post b h hroot
  refine ⟨r, hr, pt_allW_mono pt_post postTable pt_post_postTable r hp, ?_, fun ht hrn => (a2 ht hrn).1⟩
  intro hc
  obtain ⟨e1, e2⟩ := a1 hc
  exact ⟨e1, by rw [e2]⟩

/-- the form used with `wfRoot`: a block-level root is never a bare row group -/
theorem anonTable_postTable_blockRoot (b : Box) (h : allW pt_rawOK b = true) (hb : isBlockLevel b.ty = true) :
    ∃ r, anonTable b = .ok r ∧ allW postTable r = true ∧
      (isTable b.ty = false ∨ b.a.running = true → r.ty = b.ty ∧ r.a.running = b.a.running) ∧
      (isTable b.ty = true → b.a.running = false → (r.ty = .block ∨ r.ty = .inlineBlock)) :=
  anonTable_postTable' b h (Or.inl (by intro e; rw [e] at hb; exact absurd hb (by decide)))

/-! ### non-vacuity -/

/-- a block holding a stray cell (with a text) and a table whose row sits directly in it and has two
    cells, one of them spanning two rows -/
def pt_demo : Box :=
  .mk .block {} [
    .mk .tableCell { colspan := 1, rowspan := 1 } [ .mk .text { text := "x" } [] [] ] [],
    .mk .table {} [
      .mk .tableRow {} [
        .mk .tableCell { colspan := 1, rowspan := 2 } [] [],
        .mk .tableCell { colspan := 2, rowspan := 1 } [] [] ] [] ] [] ] []

theorem pt_demo_raw : allW rawOK pt_demo = true := by decide
theorem pt_demo_raw' : allW pt_rawOK pt_demo = true := by decide
theorem pt_demo_post : (match anonTable pt_demo with | .ok r => allW postTable r | .error _ => false) = true := by
  decide
theorem pt_demo_ok : ∃ r, anonTable pt_demo = .ok r ∧ allW postTable r = true := by
  obtain ⟨r, hr, hp, _⟩ := anonTable_postTable' pt_demo pt_demo_raw' (Or.inl (by decide))
  exact ⟨r, hr, hp⟩


/-
  Summary.

  Proved (no hypotheses other than those shown):
  * `pt_rowsGo_bound`, `pt_rowsGo_gridOKw`, `pt_groupGo_gridOKw` — deliverable (1): slots of the `rowsGo` /
    `groupGo` output stay inside the group, spans ≥ 1, `gridOKw .tableRowGroup out = true`, given
    colspan ≥ 1 of the visible input cells.
  * `pt_loc_attr`, `pt_loc_transfer`, `pt_good_setA`, `pt_allW_setA`, `pt_row_after`, `pt_colgroup_fix`,
    `pt_assignCols_good`, `pt_splitGroups_P`, `pt_groupGo_good`, `pt_groupsGo_good` — deliverable (2):
    the attribute rewrites of `wrapTable` do not disturb the local clauses.
  * `pt_wrapper_good`, `pt_setKids_good`, `pt_wrapTable_good`, `pt_tbc_table`, `pt_tbc_other`,
    `pt_tbc_good` — deliverable (3), for EVERY fuel, in the form "if `tbc f box c0 = .ok r` then …"
    (totality is `tbc_total_res` of LemmasTable.lean).
  * `pt_anonTable_AR` / `pt_anonTableList_AR`, `anonTable_pt_post`, `anonTable_postTable'` — deliverable (4).
  * `pt_post_postTable` : `pt_post → postTable` pointwise; `pt_rawOK_rawOK` : `allW pt_rawOK → allW rawOK`.

  NOT proved, because it is false as stated:
      theorem anonTable_postTable (b : Box) (h : allW rawOK b = true) : ∃ r, anonTable b = .ok r ∧ allW postTable r = true ∧ …
  * `pt_cx1` (`pt_cx1_raw`, `pt_cx1_bad`): block ⊃ table ⊃ row group ⊃ row ⊃ RUNNING cell with colspan 0.
    `allW rawOK` does not visit the running cell, so its `colspan ≥ 1` clause is never checked, but
    `gridOKw` of the row group reads the colspan of every child of a non-running row.
    Repair used here: `pt_rawOK` = `rawOK` ∧ "every `.tableCell` child has colspan ≥ 1" (true of the Go
    constructor).  An alternative repair on the spec side: let `gridOKw`/`gridOK` skip running cells.
  * `pt_cx2` (`pt_cx2_raw`, `pt_cx2_bad`): the root itself is a non-running `.tableRowGroup`; it is never
    handed to `wrapTable`, so its cells keep GridX 0 / the raw rowspan.  Repair used here: hypothesis
    `b.ty ≠ .tableRowGroup ∨ b.a.running = true` (implied by `wfRoot`'s "block-level non-table root",
    e.g. by `isBlockLevel b.ty = true`).
  With these two hypotheses the statement is `anonTable_postTable'`; the conclusion is literally the
  requested one.
-/

end WR.C09
