/-
  C09 — totality of the table fix-up pass (`tbc` / `wrapTable` / `anonTable` of WR/C09/Model.lean):
  the fuel `tbcFuel` is never exhausted, `byType` never meets a non-table child and `rowsGo` never
  indexes out of range.  Core Lean only.
-/
import WR.C09.Spec
namespace WR.C09

/-! ### small facts -/

theorem tb_anon_ty (t : Ty) (a : Attrs) (ks : List Box) : (anon t a ks).ty = t := rfl
theorem tb_anon_a (t : Ty) (a : Attrs) (ks : List Box) : (anon t a ks).a = anonAttrs t a := rfl
theorem tb_setKids_ty (b : Box) (k : List Box) : (b.setKids k).ty = b.ty := rfl

theorem tb_bind_ok {α β : Type} {x : R α} {v : α} (g : α → R β) (h : x = .ok v) :
    (x >>= g) = g v := by subst h; rfl

/-! ### rules 1.3 / 1.4 only remove children -/

theorem rule14_mem : ∀ (cs : List Box) (p : Option Box) (x : Box), x ∈ rule14 p cs → x ∈ cs := by
  intro cs
  induction cs with
  | nil => intro p x h; simp [rule14] at h
  | cons c rest ih =>
    intro p x h
    simp only [rule14] at h
    split at h
    · exact List.mem_cons_of_mem _ (ih _ _ h)
    · rcases List.mem_cons.mp h with h | h
      · subst h; exact List.mem_cons_self
      · exact List.mem_cons_of_mem _ (ih _ _ h)

theorem rule13_mem (cs : List Box) (x : Box) (h : x ∈ rule13 cs) : x ∈ cs := by
  have key : ∀ cs1 : List Box, (∀ y ∈ cs1, y ∈ cs) →
      x ∈ (match cs1 with
            | t :: i :: rest => if internalTableOrCaption i.ty && isWs t then i :: rest else cs1
            | _ => cs1) → x ∈ cs := by
    intro cs1 hs hx
    split at hx
    · split at hx
      · exact hs _ (List.mem_cons_of_mem _ hx)
      · exact hs _ hx
    · exact hs _ hx
  unfold rule13 at h
  apply key _ _ h
  intro y hy
  split at hy
  · split at hy
    · exact List.dropLast_subset _ hy
    · exact hy
  · exact hy

/-! ### the wrapImproper iterator -/

/-- `wrap` is only called on non-empty runs of children failing the test (`Q` holds of them);
    the result consists of passing children and wrappers (`P` holds of both). -/
theorem wrapGo_spec (wrap : List Box → R Box) (flex : Bool) (test : Box → Bool) (Q P : Box → Prop)
    (hw : ∀ l, l ≠ [] → (∀ x ∈ l, Q x) → ∃ w, wrap l = .ok w ∧ P w) :
    ∀ cs imp, (∀ x ∈ cs, test x = false → Q x) → (∀ x ∈ cs, test x = true → P x) →
      (∀ x ∈ imp, Q x) →
      ∃ r, wrapGo wrap flex test cs imp = .ok r ∧ ∀ x ∈ r, P x := by
  intro cs
  induction cs with
  | nil =>
    intro imp _ _ hq
    simp only [wrapGo]
    cases imp with
    | nil => exact ⟨[], rfl, by simp⟩
    | cons i is =>
      obtain ⟨w, hw1, hw2⟩ := hw (i :: is) (by simp) hq
      simp only [List.isEmpty_cons, Bool.false_eq_true, if_false, hw1, bind, Except.bind, pure, Except.pure]
      exact ⟨[w], rfl, by simpa using hw2⟩
  | cons c cs ih =>
    intro imp hf hp hq
    have hf' : ∀ x ∈ cs, test x = false → Q x := fun x hx => hf x (List.mem_cons_of_mem _ hx)
    have hp' : ∀ x ∈ cs, test x = true → P x := fun x hx => hp x (List.mem_cons_of_mem _ hx)
    simp only [wrapGo]
    by_cases ht : test c = true
    · rw [if_pos ht]
      obtain ⟨rest, hr, hpr⟩ := ih [] hf' hp' (by simp)
      have hc : P c := hp c List.mem_cons_self ht
      cases imp with
      | nil =>
        simp only [hr, bind, Except.bind, List.isEmpty_nil, if_true, pure, Except.pure]
        refine ⟨_, rfl, ?_⟩
        intro x hx
        rcases List.mem_cons.mp hx with h | h
        · subst h; exact hc
        · exact hpr x h
      | cons i is =>
        obtain ⟨w, hw1, hw2⟩ := hw (i :: is) (by simp) hq
        simp only [hr, hw1, bind, Except.bind, List.isEmpty_cons, Bool.false_eq_true, if_false, pure, Except.pure]
        refine ⟨_, rfl, ?_⟩
        intro x hx
        rcases List.mem_cons.mp hx with h | h
        · subst h; exact hw2
        · rcases List.mem_cons.mp h with h | h
          · subst h; exact hc
          · exact hpr x h
    · rw [if_neg ht]
      have htf : test c = false := by simpa using ht
      cases flex with
      | true =>
        simp only [if_true]
        exact ih imp hf' hp' hq
      | false =>
        simp only [Bool.false_eq_true, if_false]
        apply ih (imp ++ [c]) hf' hp'
        intro x hx
        rcases List.mem_append.mp hx with h | h
        · exact hq x h
        · have : x = c := by simpa using h
          subst this; exact hf x List.mem_cons_self htf

/-! ### the grid loop never indexes out of range -/

theorem tb_markFirst_length : ∀ (n : Nat) (fs : List (List Nat)) (s : List Nat),
    (markFirst n fs s).length = fs.length := by
  intro n
  induction n with
  | zero => intro fs s; cases fs <;> rfl
  | succ n ih =>
    intro fs s
    cases fs with
    | nil => rfl
    | cons f fs => simp only [markFirst, List.length_cons, ih]

theorem tb_cellsGo_snd_length : ∀ (cells : List Box) (occ : List Nat) (fol : List (List Nat)) (gx : Nat),
    (cellsGo cells occ fol gx).2.length = fol.length := by
  intro cells
  induction cells with
  | nil => intro occ fol gx; rfl
  | cons c cs ih =>
    intro occ fol gx
    simp only [cellsGo]
    rw [ih]
    split
    · rfl
    · exact tb_markFirst_length _ _ _

theorem tb_rowsGo_ok : ∀ (rows : List Box) (occs : List (List Nat)), occs.length = rows.length →
    ∃ r, rowsGo rows occs = .ok r := by
  intro rows
  induction rows with
  | nil => intro occs _; exact ⟨[], rfl⟩
  | cons row rows ih =>
    intro occs h
    cases occs with
    | nil => simp at h
    | cons o fol =>
      have hl : (cellsGo row.kids o fol 0).2.length = rows.length := by
        rw [tb_cellsGo_snd_length]; simpa using h
      obtain ⟨r, hr⟩ := ih _ hl
      simp only [rowsGo, hr, bind, Except.bind, pure, Except.pure]
      exact ⟨_, rfl⟩

theorem tb_groupGo_ok (g : Box) : ∃ r, groupGo g = .ok r ∧ r.ty = g.ty := by
  obtain ⟨r, hr⟩ := tb_rowsGo_ok g.kids (List.replicate g.kids.length []) (by simp)
  simp only [groupGo, hr, bind, Except.bind, pure, Except.pure]
  exact ⟨_, rfl, rfl⟩

theorem tb_groupsGo_ok (P : Ty → Prop) : ∀ (gs : List Box), (∀ x ∈ gs, P x.ty) →
    ∃ r, groupsGo gs = .ok r ∧ ∀ x ∈ r, P x.ty := by
  intro gs
  induction gs with
  | nil => intro _; exact ⟨[], rfl, by simp⟩
  | cons g gs ih =>
    intro h
    obtain ⟨g', hg, hty⟩ := tb_groupGo_ok g
    obtain ⟨r, hr, hP⟩ := ih (fun x hx => h x (List.mem_cons_of_mem _ hx))
    simp only [groupsGo, hg, hr, bind, Except.bind, pure, Except.pure]
    refine ⟨_, rfl, ?_⟩
    intro x hx
    rcases List.mem_cons.mp hx with hx | hx
    · subst hx; rw [hty]; exact h g List.mem_cons_self
    · exact hP x hx

theorem tb_assignCols_ty (P : Ty → Prop) : ∀ (gs : List Box) (gx : Nat), (∀ x ∈ gs, P x.ty) →
    ∀ x ∈ assignCols gx gs, P x.ty := by
  intro gs
  induction gs with
  | nil => intro gx _ x hx; cases hx
  | cons g gs ih =>
    intro gx h x hx
    have hg : P g.ty := h g List.mem_cons_self
    have h' : ∀ x ∈ gs, P x.ty := fun x hx => h x (List.mem_cons_of_mem _ hx)
    simp only [assignCols] at hx
    split at hx
    · rcases List.mem_cons.mp hx with hx | hx
      · subst hx; exact hg
      · exact ih _ h' x hx
    · rcases List.mem_cons.mp hx with hx | hx
      · subst hx; exact hg
      · exact ih _ h' x hx

theorem tb_splitGroups_ty (P : Ty → Prop) : ∀ (gs : List Box) (h f : Option Box) (body : List Box),
    (∀ x ∈ gs, P x.ty) → (∀ x ∈ h.toList, P x.ty) → (∀ x ∈ f.toList, P x.ty) → (∀ x ∈ body, P x.ty) →
    ∀ x ∈ splitGroups gs h f body, P x.ty := by
  intro gs
  induction gs with
  | nil =>
    intro h f body _ hh hf hb x hx
    simp only [splitGroups] at hx
    rcases List.mem_append.mp hx with hx | hx
    · rcases List.mem_append.mp hx with hx | hx
      · exact hh x hx
      · exact hb x hx
    · exact hf x hx
  | cons g gs ih =>
    intro h f body hgs hh hf hb x hx
    have hg : P g.ty := hgs g List.mem_cons_self
    have h' : ∀ x ∈ gs, P x.ty := fun x hx => hgs x (List.mem_cons_of_mem _ hx)
    simp only [splitGroups] at hx
    split at hx
    · refine ih _ _ _ h' ?_ hf hb x hx
      intro y hy
      have : y = g.setA { g.a with hd := true } := by simpa using hy
      subst this; exact hg
    · split at hx
      · refine ih _ _ _ h' hh ?_ hb x hx
        intro y hy
        have : y = g.setA { g.a with ft := true } := by simpa using hy
        subst this; exact hg
      · refine ih _ _ _ h' hh hf ?_ x hx
        intro y hy
        rcases List.mem_append.mp hy with hy | hy
        · exact hb y hy
        · have : y = g := by simpa using hy
          subst this; exact hg

/-! ### `tbc` cut into its stages -/

/-- rules 1.1 / 1.2 -/
def tbPrep0 (box : Box) (children0 : List Box) : List Box :=
  if box.ty == .tableColumn then []
  else if box.ty == .tableColumnGroup then
    let nc := children0.filter (·.ty == .tableColumn)
    if nc.isEmpty then List.replicate (max (colGroupSpan box) 1) (anon .tableColumn box.a []) else nc
  else children0

/-- rules 1.1 – 1.4 -/
def tbPrep (box : Box) (children0 : List Box) : List Box :=
  let children := tbPrep0 box children0
  let children := if tabularContainer box.ty && children.length ≥ 2 then rule13 children else children
  rule14 none children

def tbSt1 (f : Nat) (box : Box) (children : List Box) : R (List Box) :=
  if isTable box.ty then
    wrapGo (fun imp => tbc f (anon .tableRow box.a []) imp) (isFlexContainer box.ty)
      (fun c => properTableChild c.ty) children []
  else if box.ty == .tableRowGroup then
    wrapGo (fun imp => tbc f (anon .tableRow box.a []) imp) (isFlexContainer box.ty)
      (·.ty == .tableRow) children []
  else pure children

def tbSt2 (f : Nat) (box : Box) (it : List Box) : R (List Box) :=
  if box.ty == .tableRow then
    wrapGo (fun imp => tbc f (anon .tableCell box.a []) imp) (isFlexContainer box.ty)
      (·.ty == .tableCell) it []
  else
    wrapGo (fun imp => tbc f (anon .tableRow box.a []) imp) (isFlexContainer box.ty)
      (fun c => !(c.ty == .tableCell)) it []

def tbSt3 (f : Nat) (box : Box) (it : List Box) : R (List Box) :=
  if box.ty == .inline then
    wrapGo (fun imp => tbc f (anon .inlineTable box.a []) imp) (isFlexContainer box.ty)
      (fun c => !properTableChild c.ty) it []
  else
    wrapGo (fun imp => tbc f (anon .table box.a []) imp) (isFlexContainer box.ty)
      (fun c => !properTableChild c.ty || isInProperParents box.ty c.ty) it []

def tbFin (f : Nat) (box : Box) (it : List Box) : R Box :=
  if isTable box.ty then wrapTable (tbc f) box it else pure (box.setKids it)

theorem tbc_succ (f : Nat) (box : Box) (c0 : List Box) :
    tbc (f + 1) box c0 =
      (tbSt1 f box (tbPrep box c0) >>= fun it => tbSt2 f box it >>= fun it =>
        tbSt3 f box it >>= fun it => tbFin f box it) := by
  rw [tbc]
  unfold tbSt1 tbSt2 tbSt3 tbFin
  cases h1 : isTable box.ty <;> cases h2 : (box.ty == .tableRowGroup) <;>
    cases h3 : (box.ty == .tableRow) <;> cases h4 : (box.ty == .inline) <;> rfl

theorem tbPrep_mem (box : Box) (c0 : List Box) (x : Box) (h : x ∈ tbPrep box c0) :
    x ∈ tbPrep0 box c0 := by
  unfold tbPrep at h
  have h := rule14_mem _ _ _ h
  split at h
  · exact rule13_mem _ _ h
  · exact h

theorem tbc_chain (f : Nat) (box : Box) (c0 : List Box) (P1 P2 P3 : List Box → Prop) (PR : Box → Prop)
    (h1 : ∃ it, tbSt1 f box (tbPrep box c0) = .ok it ∧ P1 it)
    (h2 : ∀ it, P1 it → ∃ it', tbSt2 f box it = .ok it' ∧ P2 it')
    (h3 : ∀ it, P2 it → ∃ it', tbSt3 f box it = .ok it' ∧ P3 it')
    (h4 : ∀ it, P3 it → ∃ r, tbFin f box it = .ok r ∧ PR r) :
    ∃ r, tbc (f + 1) box c0 = .ok r ∧ PR r := by
  obtain ⟨it1, e1, p1⟩ := h1
  obtain ⟨it2, e2, p2⟩ := h2 it1 p1
  obtain ⟨it3, e3, p3⟩ := h3 it2 p2
  obtain ⟨r, e4, p4⟩ := h4 it3 p3
  refine ⟨r, ?_, p4⟩
  rw [tbc_succ, tb_bind_ok _ e1, tb_bind_ok _ e2, tb_bind_ok _ e3, e4]

/-! ### the stages at a box of known type -/

theorem tbSt1_table (f : Nat) (box : Box) (cs : List Box) (h : isTable box.ty = true) :
    tbSt1 f box cs = wrapGo (fun imp => tbc f (anon .tableRow box.a []) imp) (isFlexContainer box.ty)
      (fun c => properTableChild c.ty) cs [] := by
  unfold tbSt1; rw [if_pos h]

theorem tbSt1_rowGroup (f : Nat) (box : Box) (cs : List Box) (h : box.ty = .tableRowGroup) :
    tbSt1 f box cs = wrapGo (fun imp => tbc f (anon .tableRow box.a []) imp) (isFlexContainer box.ty)
      (·.ty == .tableRow) cs [] := by
  unfold tbSt1; rw [h]; rfl

theorem tbSt1_other (f : Nat) (box : Box) (cs : List Box) (h : isTable box.ty = false)
    (h2 : box.ty ≠ .tableRowGroup) : tbSt1 f box cs = .ok cs := by
  unfold tbSt1
  rw [if_neg (by rw [h]; exact Bool.false_ne_true), if_neg (by simpa using h2)]; rfl

theorem tbSt2_row (f : Nat) (box : Box) (it : List Box) (h : box.ty = .tableRow) :
    tbSt2 f box it = wrapGo (fun imp => tbc f (anon .tableCell box.a []) imp) (isFlexContainer box.ty)
      (·.ty == .tableCell) it [] := by
  unfold tbSt2; rw [h]; rfl

theorem tbSt2_other (f : Nat) (box : Box) (it : List Box) (h : box.ty ≠ .tableRow) :
    tbSt2 f box it = wrapGo (fun imp => tbc f (anon .tableRow box.a []) imp) (isFlexContainer box.ty)
      (fun c => !(c.ty == .tableCell)) it [] := by
  unfold tbSt2; rw [if_neg (by simpa using h)]

theorem tbSt3_inline (f : Nat) (box : Box) (it : List Box) (h : box.ty = .inline) :
    tbSt3 f box it = wrapGo (fun imp => tbc f (anon .inlineTable box.a []) imp) (isFlexContainer box.ty)
      (fun c => !properTableChild c.ty) it [] := by
  unfold tbSt3; rw [if_pos (by simpa using h)]

theorem tbSt3_other (f : Nat) (box : Box) (it : List Box) (h : box.ty ≠ .inline) :
    tbSt3 f box it = wrapGo (fun imp => tbc f (anon .table box.a []) imp) (isFlexContainer box.ty)
      (fun c => !properTableChild c.ty || isInProperParents box.ty c.ty) it [] := by
  unfold tbSt3; rw [if_neg (by simpa using h)]

theorem tbPrep0_other (box : Box) (c0 : List Box) (h1 : box.ty ≠ .tableColumn)
    (h2 : box.ty ≠ .tableColumnGroup) : tbPrep0 box c0 = c0 := by
  unfold tbPrep0
  rw [if_neg (by simpa using h1), if_neg (by simpa using h2)]

/-- what `tbc` returns at the root: the box itself with new children, or a table wrapper -/
def TbRes (box r : Box) : Prop :=
  (isTable box.ty = false → r.ty = box.ty) ∧
  (isTable box.ty = true → (r.ty = .block ∨ r.ty = .inlineBlock) ∧ r.a.tw = true)

theorem tbFin_other (f : Nat) (box : Box) (it : List Box) (h : isTable box.ty = false) :
    ∃ r, tbFin f box it = .ok r ∧ TbRes box r := by
  refine ⟨box.setKids it, ?_, fun _ => rfl, fun h' => ?_⟩
  · unfold tbFin; rw [if_neg (by rw [h]; exact Bool.false_ne_true)]; rfl
  · rw [h] at h'; exact absurd h' Bool.false_ne_true

/-- all children pass the test: no wrapper is made -/
theorem wrapGo_pass (wrap : List Box → R Box) (flex : Bool) (test : Box → Bool) (P : Box → Prop)
    (cs : List Box) (ht : ∀ x ∈ cs, test x = true) (hp : ∀ x ∈ cs, P x) :
    ∃ r, wrapGo wrap flex test cs [] = .ok r ∧ ∀ x ∈ r, P x := by
  apply wrapGo_spec wrap flex test (fun _ => False) P
  · intro l hl hq
    cases l with
    | nil => exact absurd rfl hl
    | cons y ys => exact (hq y List.mem_cons_self).elim
  · intro x hx hf; rw [ht x hx] at hf; exact absurd hf (by decide)
  · intro x hx _; exact hp x hx
  · intro x hx; cases hx

/-- all children pass the test: the list is returned as it is, whatever `wrap` is -/
theorem wrapGo_all_pass (wrap : List Box → R Box) (flex : Bool) (test : Box → Bool) :
    ∀ (cs : List Box), (∀ x ∈ cs, test x = true) → wrapGo wrap flex test cs [] = .ok cs := by
  intro cs
  induction cs with
  | nil => intro _; rfl
  | cons c cs ih =>
    intro h
    simp only [wrapGo]
    rw [if_pos (h c List.mem_cons_self), ih (fun x hx => h x (List.mem_cons_of_mem _ hx))]
    rfl

/-! ### facts about the finite type `Ty` -/

theorem tb_isTable_cases (t : Ty) (h : isTable t = true) : t = .table ∨ t = .inlineTable := by
  revert h; cases t <;> decide

theorem tb_table_parent (t c : Ty) (h : isTable t = true) (hc : properTableChild c = true) :
    isInProperParents t c = true := by
  rcases tb_isTable_cases t h with h | h <;> subst h <;> revert hc <;> cases c <;> decide

theorem tb_proper_not_cell (c : Ty) (hc : properTableChild c = true) : c ≠ .tableCell := by
  revert hc; cases c <;> decide

/-! ### wrapTable -/

theorem tb_byType_ok : ∀ (cs : List Box), (∀ x ∈ cs, properTableChild x.ty = true) →
    ∃ co ro ca, byType cs = .ok (co, ro, ca) ∧
      (∀ x ∈ co, x.ty = .tableColumn ∨ x.ty = .tableColumnGroup) ∧
      (∀ x ∈ ro, x.ty = .tableRow ∨ x.ty = .tableRowGroup) ∧
      (∀ x ∈ ca, x.ty = .tableCaption) := by
  intro cs
  induction cs with
  | nil => intro _; exact ⟨[], [], [], rfl, by simp, by simp, by simp⟩
  | cons c cs ih =>
    intro h
    obtain ⟨co, ro, ca, e, hco, hro, hca⟩ := ih (fun x hx => h x (List.mem_cons_of_mem _ hx))
    have hc := h c List.mem_cons_self
    simp only [byType, e, bind, Except.bind]
    by_cases h1 : (c.ty == .tableColumn || c.ty == .tableColumnGroup) = true
    · rw [if_pos h1]
      refine ⟨c :: co, ro, ca, rfl, ?_, hro, hca⟩
      intro x hx
      rcases List.mem_cons.mp hx with hx | hx
      · subst hx; simpa using h1
      · exact hco x hx
    · rw [if_neg h1]
      by_cases h2 : (c.ty == .tableRow || c.ty == .tableRowGroup) = true
      · rw [if_pos h2]
        refine ⟨co, c :: ro, ca, rfl, hco, ?_, hca⟩
        intro x hx
        rcases List.mem_cons.mp hx with hx | hx
        · subst hx; simpa using h2
        · exact hro x hx
      · rw [if_neg h2]
        by_cases h3 : (c.ty == .tableCaption) = true
        · rw [if_pos h3]
          refine ⟨co, ro, c :: ca, rfl, hco, hro, ?_⟩
          intro x hx
          rcases List.mem_cons.mp hx with hx | hx
          · subst hx; simpa using h3
          · exact hca x hx
        · exfalso
          revert h1 h2 h3 hc
          generalize c.ty = t
          cases t <;> decide

def TbColGOK (f : Nat) : Prop := ∀ (a : Attrs) (imp : List Box), (∀ x ∈ imp, x.ty = .tableColumn) →
  ∃ r, tbc f (anon .tableColumnGroup a []) imp = .ok r ∧ TbRes (anon .tableColumnGroup a []) r
def TbRowGOK (f : Nat) : Prop := ∀ (a : Attrs) (imp : List Box), (∀ x ∈ imp, x.ty = .tableRow) →
  ∃ r, tbc f (anon .tableRowGroup a []) imp = .ok r ∧ TbRes (anon .tableRowGroup a []) r
def TbTabOK (f : Nat) : Prop := ∀ (t : Ty) (a : Attrs) (imp : List Box), isTable t = true →
  (∀ x ∈ imp, properTableChild x.ty = true) →
  ∃ r, tbc f (anon t a []) imp = .ok r ∧ TbRes (anon t a []) r
def TbCellOK (f : Nat) : Prop := ∀ (a : Attrs) (imp : List Box), (∀ x ∈ imp, x.ty ≠ .tableCell) →
  ∃ r, tbc f (anon .tableCell a []) imp = .ok r ∧ TbRes (anon .tableCell a []) r
def TbRowOK (f : Nat) : Prop := ∀ (a : Attrs) (imp : List Box),
  ∃ r, tbc f (anon .tableRow a []) imp = .ok r ∧ TbRes (anon .tableRow a []) r

/-- the wrapper `wrapTable` returns: captions around the table, whose children are row groups and
    whose `cols` are column groups -/
def TbTableShape (box r : Box) : Prop :=
  ∃ (wa : Attrs) (capT capB : List Box) (a' : Attrs) (rg cg : List Box),
    r = .mk (if box.ty == .inlineTable then Ty.inlineBlock else Ty.block) wa
          (capT ++ [.mk box.ty a' rg cg] ++ capB) [] ∧
    wa.tw = true ∧
    (∀ x ∈ capT, x.ty = .tableCaption) ∧ (∀ x ∈ capB, x.ty = .tableCaption) ∧
    (∀ x ∈ rg, x.ty = .tableRowGroup) ∧ (∀ x ∈ cg, x.ty = .tableColumnGroup)

theorem tb_wrapTable_ok (f : Nat) (hcg : TbColGOK f) (hrg : TbRowGOK f) (box : Box) (it : List Box)
    (hit : ∀ x ∈ it, properTableChild x.ty = true) :
    ∃ r, wrapTable (tbc f) box it = .ok r ∧ ((r.ty = .block ∨ r.ty = .inlineBlock) ∧ r.a.tw = true) ∧
      TbTableShape box r := by
  obtain ⟨co, ro, ca, e, hco, hro, hca⟩ := tb_byType_ok it hit
  obtain ⟨cg, ecg, hcgt⟩ := wrapGo_spec (fun imp => tbc f (anon .tableColumnGroup box.a []) imp) false
    (·.ty == .tableColumnGroup) (fun x => x.ty = .tableColumn) (fun x => x.ty = .tableColumnGroup)
    (fun l _ hq => by obtain ⟨r, hr, hres⟩ := hcg box.a l hq; exact ⟨r, hr, hres.1 rfl⟩) co []
    (by
      intro x hx hf
      rcases hco x hx with h | h
      · exact h
      · rw [h] at hf; exact absurd hf (by decide))
    (fun x _ h => by simpa using h) (by intro x hx; cases hx)
  obtain ⟨rg, erg, hrgt⟩ := wrapGo_spec (fun imp => tbc f (anon .tableRowGroup box.a []) imp) false
    (·.ty == .tableRowGroup) (fun x => x.ty = .tableRow) (fun x => x.ty = .tableRowGroup)
    (fun l _ hq => by obtain ⟨r, hr, hres⟩ := hrg box.a l hq; exact ⟨r, hr, hres.1 rfl⟩) ro []
    (by
      intro x hx hf
      rcases hro x hx with h | h
      · exact h
      · rw [h] at hf; exact absurd hf (by decide))
    (fun x _ h => by simpa using h) (by intro x hx; cases hx)
  obtain ⟨gg, egg, hggt⟩ := tb_groupsGo_ok (fun t => t = .tableRowGroup) (splitGroups rg none none [])
    (tb_splitGroups_ty (fun t => t = .tableRowGroup) rg none none [] hrgt
      (by intro x hx; cases hx) (by intro x hx; cases hx) (by intro x hx; cases hx))
  have hcols := tb_assignCols_ty (fun t => t = .tableColumnGroup) cg 0 hcgt
  simp only [wrapTable, e, ecg, erg, egg, bind, Except.bind, pure, Except.pure]
  refine ⟨_, rfl, ⟨?_, rfl⟩, ⟨_, _, _, _, _, _, rfl, rfl, ?_, ?_, hggt, hcols⟩⟩
  · show (if box.ty == .inlineTable then Ty.inlineBlock else Ty.block) = .block ∨
      (if box.ty == .inlineTable then Ty.inlineBlock else Ty.block) = .inlineBlock
    split
    · exact Or.inr rfl
    · exact Or.inl rfl
  · intro x hx; exact hca x (List.mem_filter.mp hx).1
  · intro x hx; exact hca x (List.mem_filter.mp hx).1

/-! ### the levels of wrapper re-application -/

local macro "tb_ne" : tactic => `(tactic| simp [tb_anon_ty])

/-- level E: an anonymous column group made from a run of columns -/
theorem tb_colGroup_ok (n : Nat) : TbColGOK (n + 1) := by
  intro a imp himp
  apply tbc_chain n _ _ (fun it => ∀ x ∈ it, x.ty = .tableColumn)
    (fun it => ∀ x ∈ it, x.ty = .tableColumn) (fun it => ∀ x ∈ it, True)
  · refine ⟨_, tbSt1_other _ _ _ rfl (by tb_ne), ?_⟩
    intro x hx
    have hx := tbPrep_mem _ _ _ hx
    have e : tbPrep0 (anon .tableColumnGroup a []) imp =
        if (imp.filter (·.ty == .tableColumn)).isEmpty then
          List.replicate (max (colGroupSpan (anon .tableColumnGroup a [])) 1)
            (anon .tableColumn (anon .tableColumnGroup a []).a [])
        else imp.filter (·.ty == .tableColumn) := rfl
    rw [e] at hx
    split at hx
    · rw [List.eq_of_mem_replicate hx]; rfl
    · exact himp x (List.mem_filter.mp hx).1
  · intro it hit
    rw [tbSt2_other _ _ _ (by tb_ne)]
    exact wrapGo_pass _ _ _ _ it (fun x hx => by rw [hit x hx]; rfl) hit
  · intro it hit
    rw [tbSt3_other _ _ _ (by tb_ne)]
    exact wrapGo_pass _ _ _ _ it (fun x hx => by rw [hit x hx]; rfl) (fun _ _ => trivial)
  · intro it _
    exact tbFin_other _ _ _ rfl

/-- level E': an anonymous row group made from a run of rows -/
theorem tb_rowGroup_ok (n : Nat) : TbRowGOK (n + 1) := by
  intro a imp himp
  apply tbc_chain n _ _ (fun it => ∀ x ∈ it, x.ty = .tableRow)
    (fun it => ∀ x ∈ it, x.ty = .tableRow) (fun it => ∀ x ∈ it, True)
  · rw [tbSt1_rowGroup _ _ _ rfl]
    have hp : ∀ x ∈ tbPrep (anon .tableRowGroup a []) imp, x.ty = .tableRow := by
      intro x hx
      have hx := tbPrep_mem _ _ _ hx
      rw [tbPrep0_other _ _ (by tb_ne) (by tb_ne)] at hx
      exact himp x hx
    exact wrapGo_pass _ _ _ _ _ (fun x hx => by rw [hp x hx]; rfl) hp
  · intro it hit
    rw [tbSt2_other _ _ _ (by tb_ne)]
    exact wrapGo_pass _ _ _ _ it (fun x hx => by rw [hit x hx]; rfl) hit
  · intro it hit
    rw [tbSt3_other _ _ _ (by tb_ne)]
    exact wrapGo_pass _ _ _ _ it (fun x hx => by rw [hit x hx]; rfl) (fun _ _ => trivial)
  · intro it _
    exact tbFin_other _ _ _ rfl

/-- a table box: only rule 2.1 can make wrappers (rows), everything after it passes -/
theorem tb_table_core (f : Nat) (box : Box) (c0 : List Box) (ht : isTable box.ty = true)
    (hcg : TbColGOK f) (hrg : TbRowGOK f)
    (hrow : ∀ l, l ≠ [] → (∀ x ∈ l, x ∈ tbPrep box c0 ∧ properTableChild x.ty = false) →
      ∃ r, tbc f (anon .tableRow box.a []) l = .ok r ∧ r.ty = .tableRow) :
    ∃ r, tbc (f + 1) box c0 = .ok r ∧ (TbRes box r ∧ TbTableShape box r) := by
  have hnr : box.ty ≠ .tableRow := by
    intro h; rw [h] at ht; exact absurd ht (by decide)
  have hni : box.ty ≠ .inline := by
    intro h; rw [h] at ht; exact absurd ht (by decide)
  apply tbc_chain f _ _ (fun it => ∀ x ∈ it, properTableChild x.ty = true)
    (fun it => ∀ x ∈ it, properTableChild x.ty = true)
    (fun it => ∀ x ∈ it, properTableChild x.ty = true)
  · rw [tbSt1_table _ _ _ ht]
    apply wrapGo_spec _ _ _ (fun x => x ∈ tbPrep box c0 ∧ properTableChild x.ty = false)
      (fun x => properTableChild x.ty = true)
    · intro l hl hq
      obtain ⟨r, hr, hty⟩ := hrow l hl hq
      exact ⟨r, hr, by rw [hty]; rfl⟩
    · intro x hx hf; exact ⟨hx, hf⟩
    · intro x _ h; exact h
    · intro x hx; cases hx
  · intro it hit
    rw [tbSt2_other _ _ _ hnr]
    refine wrapGo_pass _ _ _ _ it (fun x hx => ?_) hit
    have := tb_proper_not_cell _ (hit x hx)
    simpa using this
  · intro it hit
    rw [tbSt3_other _ _ _ hni]
    refine wrapGo_pass _ _ _ _ it (fun x hx => ?_) hit
    rw [tb_table_parent _ _ ht (hit x hx)]; exact Bool.or_true _
  · intro it hit
    obtain ⟨r, hr, hres, hshape⟩ := tb_wrapTable_ok f hcg hrg box it hit
    refine ⟨r, ?_, ⟨fun h => ?_, fun _ => hres⟩, hshape⟩
    · unfold tbFin; rw [if_pos ht]; exact hr
    · rw [ht] at h; exact absurd h (by decide)

/-- level D: an anonymous table made from a run of proper table children -/
theorem tb_tab_ok (n : Nat) : TbTabOK (n + 2) := by
  intro t a imp ht himp
  suffices h : ∃ r, tbc (n + 1 + 1) (anon t a []) imp = .ok r ∧
      (TbRes (anon t a []) r ∧ TbTableShape (anon t a []) r) by
    obtain ⟨r, hr, hres, _⟩ := h; exact ⟨r, hr, hres⟩
  apply tb_table_core (n + 1) (anon t a []) imp ht (tb_colGroup_ok n) (tb_rowGroup_ok n)
  intro l hl hq
  exfalso
  cases l with
  | nil => exact hl rfl
  | cons y ys =>
    obtain ⟨hy, hf⟩ := hq y List.mem_cons_self
    have hy := tbPrep_mem _ _ _ hy
    have h1 : (anon t a []).ty ≠ .tableColumn := by
      rcases tb_isTable_cases t ht with h | h <;> subst h <;> tb_ne
    have h2 : (anon t a []).ty ≠ .tableColumnGroup := by
      rcases tb_isTable_cases t ht with h | h <;> subst h <;> tb_ne
    rw [tbPrep0_other _ _ h1 h2] at hy
    rw [himp y hy] at hf
    exact absurd hf (by decide)

/-- level C: an anonymous cell made from a run of non-cells -/
theorem tb_cell_ok (n : Nat) : TbCellOK (n + 3) := by
  intro a imp himp
  apply tbc_chain (n + 2) _ _ (fun it => ∀ x ∈ it, x.ty ≠ .tableCell) (fun it => ∀ x ∈ it, True)
    (fun it => ∀ x ∈ it, True)
  · refine ⟨_, tbSt1_other _ _ _ rfl (by tb_ne), ?_⟩
    intro x hx
    have hx := tbPrep_mem _ _ _ hx
    rw [tbPrep0_other _ _ (by tb_ne) (by tb_ne)] at hx
    exact himp x hx
  · intro it hit
    rw [tbSt2_other _ _ _ (by tb_ne)]
    refine wrapGo_pass _ _ _ _ it (fun x hx => ?_) (fun _ _ => trivial)
    simpa using hit x hx
  · intro it _
    rw [tbSt3_other _ _ _ (by tb_ne)]
    apply wrapGo_spec _ _ _ (fun x => properTableChild x.ty = true) (fun _ => True)
    · intro l _ hq
      obtain ⟨r, hr, _⟩ := tb_tab_ok n .table (anon .tableCell a []).a l rfl hq
      exact ⟨r, hr, trivial⟩
    · intro x _ hf
      simp only [Bool.or_eq_false_iff, Bool.not_eq_false'] at hf
      exact hf.1
    · intro _ _ _; trivial
    · intro x hx; cases hx
  · intro it _
    exact tbFin_other _ _ _ rfl

/-- level B: an anonymous row made from an arbitrary run -/
theorem tb_row_ok (n : Nat) : TbRowOK (n + 4) := by
  intro a imp
  apply tbc_chain (n + 3) _ _ (fun it => ∀ x ∈ it, True)
    (fun it => ∀ x ∈ it, x.ty = .tableCell) (fun it => ∀ x ∈ it, True)
  · exact ⟨_, tbSt1_other _ _ _ rfl (by tb_ne), fun _ _ => trivial⟩
  · intro it _
    rw [tbSt2_row _ _ _ rfl]
    apply wrapGo_spec _ _ _ (fun x => x.ty ≠ .tableCell) (fun x => x.ty = .tableCell)
    · intro l _ hq
      obtain ⟨r, hr, hres⟩ := tb_cell_ok n (anon .tableRow a []).a l hq
      exact ⟨r, hr, hres.1 rfl⟩
    · intro x _ hf; simpa using hf
    · intro x _ h; simpa using h
    · intro x hx; cases hx
  · intro it hit
    rw [tbSt3_other _ _ _ (by tb_ne)]
    exact wrapGo_pass _ _ _ _ it (fun x hx => by rw [hit x hx]; rfl) (fun _ _ => trivial)
  · intro it _
    exact tbFin_other _ _ _ rfl

/-- level A: any box, any children -/
theorem tbc_ok (n : Nat) (box : Box) (c0 : List Box) :
    ∃ r, tbc (n + 5) box c0 = .ok r ∧ TbRes box r := by
  have hrow : ∀ (a : Attrs) (l : List Box),
      ∃ r, tbc (n + 4) (anon .tableRow a []) l = .ok r ∧ r.ty = .tableRow := by
    intro a l
    obtain ⟨r, hr, hres⟩ := tb_row_ok n a l
    exact ⟨r, hr, hres.1 rfl⟩
  cases ht : isTable box.ty
  · -- not a table
    apply tbc_chain (n + 4) _ _ (fun it => ∀ x ∈ it, True) (fun it => ∀ x ∈ it, True) (fun it => ∀ x ∈ it, True)
    · by_cases hg : box.ty = .tableRowGroup
      · rw [tbSt1_rowGroup _ _ _ hg]
        apply wrapGo_spec _ _ _ (fun _ => True) (fun _ => True)
        · intro l _ _
          obtain ⟨r, hr, _⟩ := hrow box.a l
          exact ⟨r, hr, trivial⟩
        · intro _ _ _; trivial
        · intro _ _ _; trivial
        · intro _ _; trivial
      · exact ⟨_, tbSt1_other _ _ _ ht hg, fun _ _ => trivial⟩
    · intro it _
      by_cases hr : box.ty = .tableRow
      · rw [tbSt2_row _ _ _ hr]
        apply wrapGo_spec _ _ _ (fun x => x.ty ≠ .tableCell) (fun _ => True)
        · intro l _ hq
          obtain ⟨r, hr, _⟩ := tb_cell_ok (n + 1) box.a l hq
          exact ⟨r, hr, trivial⟩
        · intro x _ hf; simpa using hf
        · intro _ _ _; trivial
        · intro x hx; cases hx
      · rw [tbSt2_other _ _ _ hr]
        apply wrapGo_spec _ _ _ (fun _ => True) (fun _ => True)
        · intro l _ _
          obtain ⟨r, hr, _⟩ := hrow box.a l
          exact ⟨r, hr, trivial⟩
        · intro _ _ _; trivial
        · intro _ _ _; trivial
        · intro _ _; trivial
    · intro it _
      by_cases hi : box.ty = .inline
      · rw [tbSt3_inline _ _ _ hi]
        apply wrapGo_spec _ _ _ (fun x => properTableChild x.ty = true) (fun _ => True)
        · intro l _ hq
          obtain ⟨r, hr, _⟩ := tb_tab_ok (n + 2) .inlineTable box.a l rfl hq
          exact ⟨r, hr, trivial⟩
        · intro x _ hf; simpa using hf
        · intro _ _ _; trivial
        · intro x hx; cases hx
      · rw [tbSt3_other _ _ _ hi]
        apply wrapGo_spec _ _ _ (fun x => properTableChild x.ty = true) (fun _ => True)
        · intro l _ hq
          obtain ⟨r, hr, _⟩ := tb_tab_ok (n + 2) .table box.a l rfl hq
          exact ⟨r, hr, trivial⟩
        · intro x _ hf
          simp only [Bool.or_eq_false_iff, Bool.not_eq_false'] at hf
          exact hf.1
        · intro _ _ _; trivial
        · intro x hx; cases hx
    · intro it _
      exact tbFin_other _ _ _ ht
  · -- a table
    obtain ⟨r, hr, hres, _⟩ := tb_table_core (n + 4) box c0 ht (tb_colGroup_ok (n + 3))
      (tb_rowGroup_ok (n + 3)) (fun l _ _ => hrow box.a l)
    exact ⟨r, hr, hres⟩

/-! ### the shape established at a box that is not a table -/

/-- after rules 1.x / 2.2: no child in a column, only columns in a column group, only rows in a row group -/
def tbK1 (p c : Ty) : Bool :=
  !(p == .tableColumn) && (!(p == .tableColumnGroup) || c == .tableColumn) &&
    (!(p == .tableRowGroup) || c == .tableRow)
/-- after rules 2.3 / 3.1: moreover only cells in a row, and cells only in a row -/
def tbK2 (p c : Ty) : Bool :=
  tbK1 p c && (!(p == .tableRow) || c == .tableCell) && (!(c == .tableCell) || p == .tableRow)
/-- after rule 3.2: moreover every proper table child has a proper parent -/
def tbK3 (p c : Ty) : Bool :=
  tbK2 p c && (!properTableChild c || isInProperParents p c)

theorem tbK3_iff (p c : Ty) : tbK3 p c = true ↔
    (p ≠ .tableColumn ∧ (p = .tableColumnGroup → c = .tableColumn) ∧ (p = .tableRowGroup → c = .tableRow) ∧
     (p = .tableRow → c = .tableCell) ∧ (c = .tableCell → p = .tableRow) ∧
     (properTableChild c = true → isInProperParents p c = true)) := by
  cases p <;> cases c <;> decide

theorem tbK1_of (p c : Ty) : p ≠ .tableColumn → (p = .tableColumnGroup → c = .tableColumn) →
    p ≠ .tableRowGroup → tbK1 p c = true := by
  cases p <;> cases c <;> decide

theorem tbK2_wrap (p : Ty) : tbK1 p .tableCell = true → p ≠ .tableRow → tbK2 p .tableRow = true := by
  cases p <;> decide

theorem tbK2_pass (p c : Ty) : tbK1 p c = true → (!(c == .tableCell)) = true → p ≠ .tableRow →
    tbK2 p c = true := by
  cases p <;> cases c <;> decide

theorem tbK3_wrap (p c : Ty) : tbK2 p c = true → properTableChild c = true →
    isInProperParents p c = false → tbK3 p .block = true ∧ tbK3 p .inlineBlock = true := by
  cases p <;> cases c <;> decide

theorem tbK3_pass (p c : Ty) (h : tbK2 p c = true)
    (h2 : (!properTableChild c || isInProperParents p c) = true) : tbK3 p c = true := by
  unfold tbK3; rw [h, h2]; rfl

theorem tbPrep_K (box : Box) (c0 : List Box) (x : Box) (hx : x ∈ tbPrep box c0) :
    box.ty ≠ .tableColumn ∧ (box.ty = .tableColumnGroup → x.ty = .tableColumn) := by
  have hx := tbPrep_mem _ _ _ hx
  unfold tbPrep0 at hx
  split at hx
  · cases hx
  · rename_i h1
    refine ⟨by simpa using h1, fun _ => ?_⟩
    split at hx
    · dsimp only at hx
      split at hx
      · rw [List.eq_of_mem_replicate hx]; rfl
      · simpa using (List.mem_filter.mp hx).2
    · rename_i h2 h3; exact absurd h3 (by simpa using h2)

/-- the children of a non-table box after `tableBoxesChildren` -/
theorem tbc_shape_ok (n : Nat) (box : Box) (c0 : List Box) (ht : isTable box.ty = false) :
    ∃ it, tbc (n + 5) box c0 = .ok (box.setKids it) ∧ ∀ x ∈ it, tbK3 box.ty x.ty = true := by
  have hrow : ∀ (a : Attrs) (l : List Box),
      ∃ r, tbc (n + 4) (anon .tableRow a []) l = .ok r ∧ r.ty = .tableRow := by
    intro a l
    obtain ⟨r, hr, hres⟩ := tb_row_ok n a l
    exact ⟨r, hr, hres.1 rfl⟩
  have hgoal : ∃ r, tbc (n + 4 + 1) box c0 = .ok r ∧
      ∃ it, r = box.setKids it ∧ ∀ x ∈ it, tbK3 box.ty x.ty = true := by
    apply tbc_chain (n + 4) _ _ (fun it => ∀ x ∈ it, tbK1 box.ty x.ty = true)
      (fun it => ∀ x ∈ it, tbK2 box.ty x.ty = true) (fun it => ∀ x ∈ it, tbK3 box.ty x.ty = true)
    · by_cases hg : box.ty = .tableRowGroup
      · rw [tbSt1_rowGroup _ _ _ hg]
        apply wrapGo_spec _ _ _ (fun _ => True) (fun x => tbK1 box.ty x.ty = true)
        · intro l _ _
          obtain ⟨r, hr, hty⟩ := hrow box.a l
          exact ⟨r, hr, by rw [hty, hg]; rfl⟩
        · intro _ _ _; trivial
        · intro x _ h
          have : x.ty = .tableRow := by simpa using h
          rw [this, hg]; rfl
        · intro _ _; trivial
      · refine ⟨_, tbSt1_other _ _ _ ht hg, ?_⟩
        intro x hx
        obtain ⟨h1, h2⟩ := tbPrep_K _ _ _ hx
        exact tbK1_of _ _ h1 h2 hg
    · intro it hit
      by_cases hr : box.ty = .tableRow
      · rw [tbSt2_row _ _ _ hr]
        apply wrapGo_spec _ _ _ (fun x => x.ty ≠ .tableCell) (fun x => tbK2 box.ty x.ty = true)
        · intro l _ hq
          obtain ⟨r, hr', hres⟩ := tb_cell_ok (n + 1) box.a l hq
          exact ⟨r, hr', by rw [hres.1 rfl, hr]; rfl⟩
        · intro x _ hf; simpa using hf
        · intro x _ h
          have : x.ty = .tableCell := by simpa using h
          rw [this, hr]; rfl
        · intro x hx; cases hx
      · rw [tbSt2_other _ _ _ hr]
        apply wrapGo_spec _ _ _ (fun x => tbK1 box.ty x.ty = true ∧ x.ty = .tableCell)
          (fun x => tbK2 box.ty x.ty = true)
        · intro l hl hq
          obtain ⟨r, hr', hty⟩ := hrow box.a l
          refine ⟨r, hr', ?_⟩
          cases l with
          | nil => exact absurd rfl hl
          | cons y ys =>
            obtain ⟨hk, hy⟩ := hq y List.mem_cons_self
            rw [hy] at hk
            rw [hty]; exact tbK2_wrap _ hk hr
        · intro x hx hf
          exact ⟨hit x hx, by simpa using hf⟩
        · intro x hx h
          exact tbK2_pass _ _ (hit x hx) h hr
        · intro x hx; cases hx
    · intro it hit
      by_cases hi : box.ty = .inline
      · rw [tbSt3_inline _ _ _ hi]
        apply wrapGo_spec _ _ _ (fun x => properTableChild x.ty = true) (fun x => tbK3 box.ty x.ty = true)
        · intro l _ hq
          obtain ⟨r, hr, hres⟩ := tb_tab_ok (n + 2) .inlineTable box.a l rfl hq
          refine ⟨r, hr, ?_⟩
          rcases (hres.2 rfl).1 with h | h <;> rw [h, hi] <;> rfl
        · intro x _ hf; simpa using hf
        · intro x hx h
          refine tbK3_pass _ _ (hit x hx) ?_
          have h : (!properTableChild x.ty) = true := h
          rw [h]; rfl
        · intro x hx; cases hx
      · rw [tbSt3_other _ _ _ hi]
        apply wrapGo_spec _ _ _
          (fun x => tbK2 box.ty x.ty = true ∧ properTableChild x.ty = true ∧
            isInProperParents box.ty x.ty = false)
          (fun x => tbK3 box.ty x.ty = true)
        · intro l hl hq
          have hp : ∀ x ∈ l, properTableChild x.ty = true := fun x hx => (hq x hx).2.1
          obtain ⟨r, hr, hres⟩ := tb_tab_ok (n + 2) .table box.a l rfl hp
          refine ⟨r, hr, ?_⟩
          cases l with
          | nil => exact absurd rfl hl
          | cons y ys =>
            obtain ⟨hk, hy1, hy2⟩ := hq y List.mem_cons_self
            obtain ⟨w1, w2⟩ := tbK3_wrap _ _ hk hy1 hy2
            rcases (hres.2 rfl).1 with h | h <;> rw [h]
            · exact w1
            · exact w2
        · intro x hx hf
          simp only [Bool.or_eq_false_iff, Bool.not_eq_false'] at hf
          exact ⟨hit x hx, hf.1, hf.2⟩
        · intro x hx h
          exact tbK3_pass _ _ (hit x hx) h
        · intro x hx; cases hx
    · intro it hit
      refine ⟨box.setKids it, ?_, it, rfl, hit⟩
      unfold tbFin; rw [if_neg (by rw [ht]; exact Bool.false_ne_true)]; rfl
  obtain ⟨r, hr, it, rfl, hit⟩ := hgoal
  exact ⟨it, hr, hit⟩

/-- the result for a table box: the wrapper, captions, the table with row groups and column groups -/
theorem tbc_shape_table (box : Box) (children : List Box) (ht : isTable box.ty = true) :
    ∃ r, tbc tbcFuel box children = .ok r ∧ TbTableShape box r := by
  obtain ⟨r, hr, _, hs⟩ := tb_table_core 7 box children ht (tb_colGroup_ok 6) (tb_rowGroup_ok 6)
    (fun l _ _ => by
      obtain ⟨r, hr, hres⟩ := tb_row_ok 3 box.a l
      exact ⟨r, hr, hres.1 rfl⟩)
  exact ⟨r, hr, hs⟩

/-- with the fuel of the driver -/
theorem tbc_shape (box : Box) (children : List Box) (ht : isTable box.ty = false) :
    ∃ it, tbc tbcFuel box children = .ok (box.setKids it) ∧ ∀ x ∈ it, tbK3 box.ty x.ty = true :=
  tbc_shape_ok 3 box children ht

/-! ### the theorems -/

/-- `tableBoxesChildren` never fails with the fuel the driver grants, and the root of its result is
    the box itself (same type) or, for a table, its block / inline-block wrapper -/
theorem tbc_total_res (box : Box) (children : List Box) :
    ∃ r, tbc tbcFuel box children = .ok r ∧
      (isTable box.ty = false → r.ty = box.ty) ∧
      (isTable box.ty = true → (r.ty = .block ∨ r.ty = .inlineBlock) ∧ r.a.tw = true) :=
  tbc_ok 3 box children

theorem tbc_total (box : Box) (children : List Box) : ∃ r, tbc tbcFuel box children = .ok r := by
  obtain ⟨r, hr, _⟩ := tbc_total_res box children
  exact ⟨r, hr⟩

/-- more fuel does not matter either: every fuel ≥ 5 is enough -/
theorem tbc_total_of_ge (f : Nat) (hf : 5 ≤ f) (box : Box) (children : List Box) :
    ∃ r, tbc f box children = .ok r := by
  obtain ⟨n, rfl⟩ : ∃ n, f = n + 5 := ⟨f - 5, by omega⟩
  obtain ⟨r, hr, _⟩ := tbc_ok n box children
  exact ⟨r, hr⟩

mutual
  theorem anonTable_total : ∀ (b : Box), ∃ r, anonTable b = .ok r
    | .mk ty a kids cols => by
      rw [anonTable]
      split
      · exact ⟨_, rfl⟩
      · obtain ⟨ks, hks⟩ := anonTableList_total kids
        rw [hks]
        exact tbc_total _ _
  theorem anonTableList_total : ∀ (l : List Box), ∃ r, anonTableList l = .ok r
    | [] => ⟨[], rfl⟩
    | k :: ks => by
      obtain ⟨k', hk⟩ := anonTable_total k
      obtain ⟨ks', hks⟩ := anonTableList_total ks
      rw [anonTableList, hk, hks]
      exact ⟨_, rfl⟩
end

/-- a non-parent or running box is left alone -/
theorem anonTable_skip (b : Box) (h : isParent b.ty = false ∨ b.a.running = true) :
    anonTable b = .ok b := by
  cases b with
  | mk ty a kids cols =>
    have h : isParent ty = false ∨ a.running = true := h
    rw [anonTable, if_pos (by rcases h with h | h <;> simp [h])]; rfl

/-- otherwise the pass is `tbc` on the processed children -/
theorem anonTable_unfold (b : Box) (hp : isParent b.ty = true) (hr : b.a.running = false) :
    ∃ ks, anonTableList b.kids = .ok ks ∧ anonTable b = tbc tbcFuel b ks := by
  cases b with
  | mk ty a kids cols =>
    have hp : isParent ty = true := hp
    have hr : a.running = false := hr
    obtain ⟨ks, hks⟩ := anonTableList_total kids
    refine ⟨ks, hks, ?_⟩
    rw [anonTable, if_neg (by simp [hp, hr]), hks]; rfl

/-- the root of the result of AnonymousTableBoxes -/
theorem anonTable_root (b : Box) : ∃ r, anonTable b = .ok r ∧
    (isTable b.ty = false → r.ty = b.ty) ∧
    (isTable b.ty = true → b.a.running = false →
      (r.ty = .block ∨ r.ty = .inlineBlock) ∧ r.a.tw = true ∧ TbTableShape b r) := by
  by_cases h : isParent b.ty = true ∧ b.a.running = false
  · obtain ⟨ks, _, e⟩ := anonTable_unfold b h.1 h.2
    obtain ⟨r, hr, h1, h2⟩ := tbc_total_res b ks
    refine ⟨r, by rw [e, hr], h1, fun ht _ => ?_⟩
    obtain ⟨r', hr', hs⟩ := tbc_shape_table b ks ht
    have : r' = r := by rw [hr] at hr'; cases hr'; rfl
    subst this
    exact ⟨(h2 ht).1, (h2 ht).2, hs⟩
  · have h' : isParent b.ty = false ∨ b.a.running = true := by
      cases hp : isParent b.ty <;> cases hr : b.a.running <;> simp [hp, hr] at h ⊢
    refine ⟨b, anonTable_skip b h', fun _ => rfl, fun ht hr => ?_⟩
    exfalso
    rcases h' with h' | h'
    · have : isParent b.ty = true := by
        rcases tb_isTable_cases _ ht with e | e <;> rw [e] <;> rfl
      rw [this] at h'; exact absurd h' (by decide)
    · rw [hr] at h'; exact absurd h' (by decide)

/-- the children of a non-table box after AnonymousTableBoxes obey the table model locally -/
theorem anonTable_kids (b : Box) (ht : isTable b.ty = false) (hp : isParent b.ty = true)
    (hr : b.a.running = false) :
    ∃ it, anonTable b = .ok (b.setKids it) ∧ ∀ x ∈ it, tbK3 b.ty x.ty = true := by
  obtain ⟨ks, _, e⟩ := anonTable_unfold b hp hr
  obtain ⟨it, h1, h2⟩ := tbc_shape b ks ht
  exact ⟨it, by rw [e, h1], h2⟩

/-
  Not proved here (statements one may want next):

  * the sub-structure below the wrappers and below the table: in `TbTableShape box r` the children of
    every row group in `rg` are `.tableRow` boxes whose children are `.tableCell` boxes, and the
    children of every column group in `cg` are `.tableColumn` boxes.  For the anonymous groups made by
    `wrapTable` this follows from `tbc_shape_ok` applied to the wrapper (`tbK3 .tableRowGroup` /
    `tbK3 .tableColumnGroup`); for the groups that were already children of the table it needs the
    corresponding fact about the *input* children (they are results of `anonTable`, so it follows
    by the structural induction `anonTable_kids` gives at each of them) and that `assignCols` /
    `splitGroups` / `groupsGo` / `cellsGo` keep the types of kids (`cellsGo_key` in LemmasGrid.lean).
  * `∀ b, wf-table-clauses (anonTable b)`, i.e. `tableKidsOK` and the table part of `childAllowed`
    of WR/C09/Spec.lean at every node of the result: a global induction over `anonTable` /
    `anonTableList` combining `anonTable_kids` (non-table nodes), `TbTableShape` (table nodes) and
    the clause `.table | .inlineTable => pa.tw || c.a.running` (a non-running table child is always
    replaced by its wrapper: `anonTable_root`).  Not attempted.
-/

end WR.C09
