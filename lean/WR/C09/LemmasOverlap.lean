/-
  C09 — the weak grid clause `firstSlotsOK` pins down the only way two cells can share a slot
  (`overlapsOnly175`).  Core Lean only.
-/
import WR.C09.LemmasGrid
namespace WR.C09

/-- the slots of an indexed cell -/
abbrev ov_slots (p : Nat × Box) : List (Nat × Nat) := cellSlots p.1 p.2

theorem ov_groupSlots_eq : ∀ (rows : List Box) (r : Nat),
    groupSlotsFrom r rows = (cellsFrom r rows).flatMap ov_slots := by
  intro rows
  induction rows with
  | nil => intro r; rfl
  | cons row rows ih =>
    intro r
    simp only [groupSlotsFrom, cellsFrom, List.flatMap_append, List.flatMap_map, rowSlots, ih]

theorem ov_count_flatMap_le {α β : Type} [BEq β] [LawfulBEq β] (f : α → List β) (s : β) :
    ∀ (l : List α) (q : α), q ∈ l → List.count s (f q) ≤ List.count s (l.flatMap f) := by
  intro l
  induction l with
  | nil => intro q h; cases h
  | cons a l ih =>
    intro q h
    rw [List.flatMap_cons, List.count_append]
    rcases List.mem_cons.mp h with rfl | h
    · omega
    · have := ih q h; omega

theorem ov_nodup_flatMap_pairwise {α β : Type} (f : α → List β) :
    ∀ (l : List α), (l.flatMap f).Nodup → l.Pairwise (fun a b => ∀ x ∈ f a, x ∉ f b) := by
  intro l
  induction l with
  | nil => intro _; exact List.Pairwise.nil
  | cons a l ih =>
    intro h
    rw [List.flatMap_cons, List.nodup_append] at h
    refine List.Pairwise.cons ?_ (ih h.2.1)
    intro b hb x hx hxb
    exact h.2.2 x hx x (List.mem_flatMap.mpr ⟨b, hb, hxb⟩) rfl

/-- the pair relation checked by `pairsOK` -/
def ov_R (p q : Nat × Box) : Prop := (!sharesSlot p q || overlap175 p q) = true

theorem ov_pairsOK_iff : ∀ (l : List (Nat × Box)), pairsOK l = true ↔ l.Pairwise ov_R := by
  intro l
  induction l with
  | nil => simp [pairsOK]
  | cons p rest ih =>
    simp only [pairsOK, Bool.and_eq_true, List.all_eq_true, List.pairwise_cons, ih]
    rfl

/-- document order plus "cells of one row have disjoint column ranges" -/
def ov_Ord (p q : Nat × Box) : Prop :=
  p.1 ≤ q.1 ∧ (p.1 = q.1 → ∀ x, ¬ ((p.2.a.gridX ≤ x ∧ x < p.2.a.gridX + p.2.a.colspan) ∧
                                    (q.2.a.gridX ≤ x ∧ x < q.2.a.gridX + q.2.a.colspan)))

theorem ov_core (all : List (Nat × Nat)) : ∀ (l : List (Nat × Box)),
    List.Sublist (l.flatMap ov_slots) all →
    (∀ p ∈ l, List.count (p.1, p.2.a.gridX) all ≤ 1) →
    (∀ p ∈ l, 1 ≤ p.2.a.colspan ∧ 1 ≤ p.2.a.rowspan) →
    l.Pairwise ov_Ord → l.Pairwise ov_R := by
  intro l
  induction l with
  | nil => intro _ _ _ _; exact List.Pairwise.nil
  | cons p rest ih =>
    intro hsub hfirst hsp hord
    rw [List.flatMap_cons] at hsub
    rw [List.pairwise_cons] at hord
    refine List.Pairwise.cons ?_
      (ih ((List.sublist_append_right _ _).trans hsub) (fun q hq => hfirst q (List.mem_cons_of_mem _ hq))
        (fun q hq => hsp q (List.mem_cons_of_mem _ hq)) hord.2)
    intro q hq
    unfold ov_R
    by_cases hs : ¬ sharesSlot p q = true
    · simp [hs]
    · have hs' : sharesSlot p q = true := Classical.not_not.mp hs
      unfold sharesSlot at hs'
      rw [List.any_eq_true] at hs'
      obtain ⟨⟨y, x⟩, h1, h2⟩ := hs'
      have h2 : (y, x) ∈ cellSlots q.1 q.2 := List.contains_iff_mem.mp h2
      have m1 := (mem_cellSlots p.1 p.2 y x).mp h1
      have m2 := (mem_cellSlots q.1 q.2 y x).mp h2
      obtain ⟨o1, o2⟩ := hord.1 q hq
      have hspq := hsp q (List.mem_cons_of_mem _ hq)
      have hlt : p.1 < q.1 := by
        rcases Nat.lt_or_ge p.1 q.1 with h | h
        · exact h
        · exact absurd ⟨m1.2, m2.2⟩ (o2 (by omega) x)
      -- the first slot of q is counted once
      have hc1 := hfirst q (List.mem_cons_of_mem _ hq)
      have hc2 := List.Sublist.count_le (q.1, q.2.a.gridX) hsub
      rw [List.count_append] at hc2
      have hc2' : List.count (q.1, q.2.a.gridX) (cellSlots p.1 p.2) +
          List.count (q.1, q.2.a.gridX) (List.flatMap ov_slots rest) ≤ List.count (q.1, q.2.a.gridX) all := hc2
      have hc3 := ov_count_flatMap_le ov_slots (q.1, q.2.a.gridX) rest q hq
      have hc4 : List.count (q.1, q.2.a.gridX) (ov_slots q) = 1 := by
        show List.count (q.1, q.2.a.gridX) (cellSlots q.1 q.2) = 1
        rw [count_cellSlots, if_pos]
        omega
      have hc5 : List.count (q.1, q.2.a.gridX) (cellSlots p.1 p.2) = 0 := by omega
      rw [count_cellSlots] at hc5
      have hneg : ¬ ((p.1 ≤ q.1 ∧ q.1 < p.1 + p.2.a.rowspan) ∧
          (p.2.a.gridX ≤ q.2.a.gridX ∧ q.2.a.gridX < p.2.a.gridX + p.2.a.colspan)) := by
        intro hh; rw [if_pos hh] at hc5; omega
      have : overlap175 p q = true := by
        simp only [overlap175, Bool.and_eq_true, decide_eq_true_eq]
        omega
      simp [this]

theorem ov_go_facts (all : List (Nat × Nat)) : ∀ (rows : List Box) (r : Nat),
    firstSlotsOK.go all r rows = true →
    (∀ p ∈ cellsFrom r rows, r ≤ p.1 ∧
      (p.2.a.rowspan = 0 ∨ p.2.a.colspan = 0 ∨ List.count (p.1, p.2.a.gridX) all = 1)) ∧
    (cellsFrom r rows).Pairwise ov_Ord := by
  intro rows
  induction rows with
  | nil => intro r _; exact ⟨fun p hp => (by cases hp), List.Pairwise.nil⟩
  | cons row rows ih =>
    intro r h
    rw [go_cons] at h
    simp only [Bool.and_eq_true] at h
    obtain ⟨⟨h1, h2⟩, h3⟩ := h
    obtain ⟨i1, i2⟩ := ih (r + 1) h3
    simp only [cellsFrom]
    refine ⟨?_, ?_⟩
    · intro p hp
      rcases List.mem_append.mp hp with hp | hp
      · obtain ⟨c, hc, rfl⟩ := List.mem_map.mp hp
        refine ⟨Nat.le_refl _, ?_⟩
        have := List.all_eq_true.mp h1 c hc
        rw [← List.count_eq_length_filter] at this
        simpa [or_assoc] using this
      · have := i1 p hp
        exact ⟨by omega, this.2⟩
    · rw [List.pairwise_append]
      refine ⟨?_, i2, ?_⟩
      · rw [List.pairwise_map]
        refine List.Pairwise.imp ?_ (ov_nodup_flatMap_pairwise _ _ ((nodup_iff _).mp h2))
        intro a b hab
        refine ⟨Nat.le_refl _, fun _ x hx => ?_⟩
        refine hab (r, x) ?_ ?_
        · exact List.mem_map.mpr ⟨x, List.mem_range'_1.mpr hx.1, rfl⟩
        · exact List.mem_map.mpr ⟨x, List.mem_range'_1.mpr hx.2, rfl⟩
      · intro a ha b hb
        obtain ⟨c, _, rfl⟩ := List.mem_map.mp ha
        have := (i1 b hb).1
        exact ⟨by show r ≤ b.1; omega, fun e => by have e' : r = b.1 := e; omega⟩

theorem ov_mem_cellsFrom : ∀ (rows : List Box) (r : Nat) (p : Nat × Box),
    p ∈ cellsFrom r rows → ∃ row ∈ rows, p.2 ∈ rowCells row := by
  intro rows
  induction rows with
  | nil => intro r p hp; cases hp
  | cons row rows ih =>
    intro r p hp
    simp only [cellsFrom] at hp
    rcases List.mem_append.mp hp with hp | hp
    · obtain ⟨c, hc, rfl⟩ := List.mem_map.mp hp
      exact ⟨row, List.mem_cons_self, hc⟩
    · obtain ⟨row', h1, h2⟩ := ih (r + 1) p hp
      exact ⟨row', List.mem_cons_of_mem _ h1, h2⟩

/-- Prop-level version of the main theorem -/
theorem ov_overlapsOnly175 (kids : List Box) (h : firstSlotsOK kids = true)
    (hsp : ∀ row ∈ kids, ∀ c ∈ rowCells row, 1 ≤ c.a.colspan ∧ 1 ≤ c.a.rowspan) :
    overlapsOnly175 kids = true := by
  have hgo : firstSlotsOK.go (groupSlotsFrom 0 kids) 0 kids = true := h
  obtain ⟨f1, f2⟩ := ov_go_facts _ kids 0 hgo
  have hspans : ∀ p ∈ cellsFrom 0 kids, 1 ≤ p.2.a.colspan ∧ 1 ≤ p.2.a.rowspan := by
    intro p hp
    obtain ⟨row, hr, hc⟩ := ov_mem_cellsFrom kids 0 p hp
    exact hsp row hr p.2 hc
  unfold overlapsOnly175
  rw [ov_pairsOK_iff]
  apply ov_core (groupSlotsFrom 0 kids) _ _ _ hspans f2
  · rw [ov_groupSlots_eq]; exact List.Sublist.refl _
  · intro p hp
    have := (f1 p hp).2
    have := hspans p hp
    omega

theorem overlapsOnly175_of_firstSlotsOK (kids : List Box)
    (h : firstSlotsOK kids = true)
    (hsp : kids.all (fun row => (rowCells row).all (fun c => c.a.colspan ≥ 1 && c.a.rowspan ≥ 1)) = true) :
    overlapsOnly175 kids = true := by
  apply ov_overlapsOnly175 kids h
  intro row hr c hc
  have := List.all_eq_true.mp (List.all_eq_true.mp hsp row hr) c hc
  simpa using this

/-! ### the model's output -/

theorem ov_rowsGo_spans (rows : List Box) : ∀ (occs : List (List Nat)) (out : List Box),
    rowsGo rows occs = .ok out →
    (∀ row ∈ rows, ∀ c ∈ rowCells row, 1 ≤ c.a.colspan) →
    ∀ row ∈ out, ∀ c ∈ rowCells row, 1 ≤ c.a.colspan ∧ 1 ≤ c.a.rowspan := by
  induction rows with
  | nil =>
    intro occs out h _
    rw [rowsGo_nil] at h
    cases h
    intro row hr; cases hr
  | cons row rows ih =>
    intro occs out h hcs
    cases occs with
    | nil => cases h
    | cons occThis following =>
      rw [rowsGo_cons] at h
      cases hr : rowsGo rows (cellsGo row.kids occThis following 0).2 with
      | error e => rw [hr] at h; cases h
      | ok rest =>
        rw [hr] at h
        simp only [Except.bind] at h
        cases h
        intro row' hrow' c hc
        rcases List.mem_cons.mp hrow' with rfl | hrow'
        · refine ⟨?_, (cellsGo_rowspan row.kids occThis following 0 c (rowCells_setKids_mem _ _ c hc)).1⟩
          revert c
          apply rowCells_setKids_of row _ (fun c => 1 ≤ c.a.colspan)
          · intro c hc
            obtain ⟨d, hd, e⟩ := cellsGo_colspan row.kids occThis following 0 c hc
            exact ⟨d, hd, fun hp => by omega⟩
          · exact hcs row List.mem_cons_self
        · exact ih _ rest hr (fun row' h' => hcs row' (List.mem_cons_of_mem _ h')) row' hrow' c hc

theorem groupGo_overlapsOnly175 (g g' : Box) (h : groupGo g = .ok g')
    (hc : ∀ row ∈ g.kids, ∀ c ∈ rowCells row, 1 ≤ c.a.colspan) : overlapsOnly175 g'.kids = true := by
  have hf := groupGo_firstSlotsOK g g' h
  rw [groupGo_eq] at h
  cases hr : rowsGo g.kids (List.replicate g.kids.length []) with
  | error e => rw [hr] at h; cases h
  | ok rows =>
    rw [hr] at h
    simp only [Except.bind] at h
    cases h
    exact ov_overlapsOnly175 _ hf (ov_rowsGo_spans g.kids _ rows hr hc)

end WR.C09
