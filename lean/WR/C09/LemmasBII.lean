import WR.C09.Shape
/-
  C09 — BlockInInline (`blockInInline` / `biiKids` / `innerBII` / `innerKids` / `resumeLoop`).
  * the resume-stack loop ends within its fuel `c.size + 1` (`resumeLoop_ok`, `remaining_lt_size`,
    `innerBII_progress_free`);
  * the pass is total when line boxes are alone (`blockInInline_total*`), every line of the result is
    free of in-flow block-level boxes (`blockInInline_linesClean*`), and the block-container clause is
    preserved (`blockInInline_bcOK*`);
  * `allB p` = "p at every box the pass visits" is the exact hypothesis; it follows from `allAll p`
    (p everywhere, also below running boxes) and from `allN p` + no running line box;
  * a running inline box is opaque (never entered by `innerBII`/`innerKids`): `linesCleanR` /
    `noFlowBlockR` are `linesClean` / `noFlowBlock` that do not look below running inline boxes;
  * witnesses: `running_inline_kept` (a running inline box is kept unchanged),
    `running_line_witness` (a running line box is entered: `allN` hypotheses alone are not enough).
-/
namespace WR.C09

def splitWitness : Box :=
  .mk .block {} [ .mk .line {} [ .mk .inline { running := true } [ .mk .text { text := "a" } [] [], .mk .block {} [ .mk .text { text := "b" } [] [] ] [], .mk .text { text := "c" } [] [] ] [] ] [] ] []

/-- regression example: a running inline box inside a line is not split any more -/
theorem running_inline_kept :
    ∃ b', blockInInline splitWitness = .ok b' ∧ allN bcOK b' = true ∧ b' = splitWitness :=
  ⟨splitWitness, rfl, by decide, rfl⟩

mutual
  /-- `noFlowBlock` with running inline boxes opaque -/
  def noFlowBlockR : Box → Bool
    | .mk _ _ kids _ => noFlowBlockRList kids
  def noFlowBlockRList : List Box → Bool
    | [] => true
    | c :: cs => !(isBlockLevel c.ty && inNormalFlow c.a) &&
        (!(c.ty == .inline && !c.a.running) || noFlowBlockR c) && noFlowBlockRList cs
end

/-- `linesClean` with running inline boxes opaque -/
def linesCleanR (_ : Ty) (_ : Attrs) (kids : List Box) : Bool :=
  kids.all (fun c => !(c.ty == .line) || noFlowBlockR c)

mutual
  def allAll (p : Ty → Attrs → List Box → Bool) : Box → Bool
    | .mk ty a kids _ => p ty a kids && allAllList p kids
  def allAllList (p : Ty → Attrs → List Box → Bool) : List Box → Bool
    | [] => true
    | k :: ks => allAll p k && allAllList p ks
end

def validStack : Box → List Nat → Bool
  | _, [] => true
  | b, k :: r => r.isEmpty || (match b.kids[k]? with
      | some c => (c.ty == .inline && !c.a.running) && validStack c r
      | none => false)

mutual
  def remaining : Box → List Nat → Nat
    | .mk _ _ kids _, st =>
      match st with
      | [] => remKids kids 0 0 []
      | k :: r => remKids kids 0 k r
  def remKids : List Box → Nat → Nat → List Nat → Nat
    | [], _, _, _ => 0
    | c :: cs, idx, skip, st =>
      if idx < skip then remKids cs (idx + 1) skip st
      else if isBlockLevel c.ty && inNormalFlow c.a then 1 + remKids cs (idx + 1) skip []
      else if c.ty == .inline && !c.a.running then remaining c st + remKids cs (idx + 1) skip []
      else remKids cs (idx + 1) skip []
end

theorem resumeLoop_spec (pa : Attrs) (step : Resume → R (Box × Option (Box × Resume)))
    (P F : Box → Prop) (I : Resume → Prop) (μ : Resume → Nat)
    (hstep : ∀ st, I st → ∃ nl r, step st = .ok (nl, r) ∧ P nl ∧
      ∀ blk st', r = some (blk, st') → F blk ∧ I st' ∧ μ st' < μ st)
    (hPF : ∀ nl, P nl → F (anonBlock pa [nl])) :
    ∀ (fuel : Nat) (st : Resume) (acc : List Box), I st → μ st < fuel → (∀ x ∈ acc, F x) →
      ∃ frags last, resumeLoop pa step fuel st acc = .ok (frags, last) ∧ P last ∧ ∀ x ∈ frags, F x
  | 0, _, _, _, h, _ => by omega
  | fuel + 1, st, acc, hI, hμ, hacc => by
    obtain ⟨nl, r, he, hP, hr⟩ := hstep st hI
    unfold resumeLoop
    simp only [he, bind, Except.bind]
    cases r with
    | none => exact ⟨acc, nl, rfl, hP, hacc⟩
    | some p =>
      obtain ⟨blk, st'⟩ := p
      obtain ⟨hF, hI', hlt⟩ := hr blk st' rfl
      apply resumeLoop_spec pa step P F I μ hstep hPF fuel st' _ hI' (by omega)
      intro x hx
      simp only [List.mem_append, List.mem_cons, List.mem_nil_iff, or_false] at hx
      rcases hx with hx | hx | hx
      · exact hacc x hx
      · subst hx; exact hPF nl hP
      · subst hx; exact hF

theorem resumeLoop_ok (pa : Attrs) (step : Resume → R (Box × Option (Box × Resume)))
    (I : Resume → Prop) (μ : Resume → Nat)
    (hstep : ∀ st, I st → ∃ nl r, step st = .ok (nl, r) ∧
      ∀ blk st', r = some (blk, st') → I st' ∧ μ st' < μ st)
    (fuel : Nat) (st₀ : Resume) (acc : List Box) (h0 : I st₀) (hfuel : μ st₀ < fuel) :
    ∃ res, resumeLoop pa step fuel st₀ acc = .ok res := by
  obtain ⟨frags, last, he, _, _⟩ :=
    resumeLoop_spec pa step (fun _ => True) (fun _ => True) I μ
      (fun st hI => by
        obtain ⟨nl, r, he, hr⟩ := hstep st hI
        exact ⟨nl, r, he, trivial, fun blk st' h => ⟨trivial, hr blk st' h⟩⟩)
      (fun _ _ => trivial) fuel st₀ acc h0 hfuel (fun _ _ => trivial)
  exact ⟨_, he⟩

/-! ### basic facts -/

theorem validStack_nil (b : Box) : validStack b [] = true := by
  unfold validStack; rfl

theorem validStack_cons (b : Box) (k : Nat) (r : List Nat) :
    validStack b (k :: r) = true ↔
      r = [] ∨ ∃ c, b.kids[k]? = some c ∧ (c.ty == .inline && !c.a.running) = true ∧
        validStack c r = true := by
  rw [validStack]
  cases r with
  | nil => simp
  | cons x xs =>
    cases h : b.kids[k]? with
    | none => simp
    | some c => simp

/-- validity of the pair `(skip, st)` for the suffix `cs` of a child list that starts at index `idx` -/
def validAt (cs : List Box) (idx skip : Nat) (st : List Nat) : Prop :=
  st = [] ∨ (idx ≤ skip ∧ ∃ c, cs[skip - idx]? = some c ∧ (c.ty == .inline && !c.a.running) = true ∧
    validStack c st = true)

theorem validAt_cons_lt (c : Box) (cs : List Box) (idx skip : Nat) (st : List Nat) (h : idx < skip) :
    validAt (c :: cs) idx skip st ↔ validAt cs (idx + 1) skip st := by
  have e : skip - idx = (skip - (idx + 1)) + 1 := by omega
  unfold validAt
  rw [e, List.getElem?_cons_succ]
  constructor
  · rintro (h0 | ⟨_, h2⟩)
    · exact Or.inl h0
    · exact Or.inr ⟨by omega, h2⟩
  · rintro (h0 | ⟨_, h2⟩)
    · exact Or.inl h0
    · exact Or.inr ⟨by omega, h2⟩

theorem validAt_head (c : Box) (cs : List Box) (idx skip : Nat) (st : List Nat) (h : ¬ idx < skip)
    (hv : validAt (c :: cs) idx skip st) :
    st = [] ∨ ((c.ty == .inline && !c.a.running) = true ∧ validStack c st = true) := by
  rcases hv with h0 | ⟨h1, c', h2, h3, h4⟩
  · exact Or.inl h0
  · have e : skip - idx = 0 := by omega
    rw [e] at h2
    simp at h2
    subst h2
    exact Or.inr ⟨h3, h4⟩

theorem remKids_skip_irrel : ∀ (cs : List Box) (idx skip skip' : Nat) (st : List Nat),
    skip ≤ idx → skip' ≤ idx → remKids cs idx skip st = remKids cs idx skip' st
  | [], _, _, _, _, _, _ => by simp [remKids]
  | c :: cs, idx, skip, skip', st, h1, h2 => by
    have e := remKids_skip_irrel cs (idx + 1) skip skip' [] (by omega) (by omega)
    have n1 : ¬ idx < skip := by omega
    have n2 : ¬ idx < skip' := by omega
    rw [remKids, remKids]
    simp only [n1, n2, if_false, e]

theorem remKids_cons_lt (c : Box) (cs : List Box) (idx skip : Nat) (st : List Nat) (h : idx < skip) :
    remKids (c :: cs) idx skip st = remKids cs (idx + 1) skip st := by
  rw [remKids]; simp only [h, if_true]

theorem remKids_cons_ge (c : Box) (cs : List Box) (idx skip : Nat) (st : List Nat) (h : ¬ idx < skip) :
    remKids cs (idx + 1) skip [] ≤ remKids (c :: cs) idx skip st := by
  rw [remKids]; simp only [h, if_false]
  split
  · omega
  · split <;> omega

mutual
  theorem remaining_lt_size : (b : Box) → (st : List Nat) → remaining b st < b.size
    | .mk ty a kids cols, st => by
      cases st with
      | nil => have := remKids_le_size kids 0 0 []; simp only [remaining, Box.size]; omega
      | cons k r => have := remKids_le_size kids 0 k r; simp only [remaining, Box.size]; omega
  theorem remKids_le_size : (cs : List Box) → (idx skip : Nat) → (st : List Nat) →
      remKids cs idx skip st ≤ Box.sizeList cs
    | [], _, _, _ => by simp [remKids]
    | c :: cs, idx, skip, st => by
      have h1 := remKids_le_size cs (idx + 1) skip st
      have h2 := remKids_le_size cs (idx + 1) skip []
      have h3 := remaining_lt_size c st
      rw [remKids]; simp only [Box.sizeList]
      split
      · omega
      · split
        · omega
        · split <;> omega
end

/-- the result clause of `innerKids`: an extracted block is block-level and clean, the returned stack is
    non-empty, valid, points further right and has fewer remaining blocks -/
def ROK (cs : List Box) (idx skip : Nat) (st : List Nat) (r : Option (Box × Resume)) : Prop :=
  ∀ blk st', r = some (blk, st') →
    isBlockLevel blk.ty = true ∧ allN linesCleanR blk = true ∧
    ∃ k rr, st' = k :: rr ∧ idx ≤ k ∧ skip ≤ k ∧ validAt cs idx k rr ∧
      remKids cs idx k rr < remKids cs idx skip st

theorem ROK_skip (c : Box) (cs : List Box) (idx skip : Nat) (st : List Nat) (r) (h : idx < skip)
    (hr : ROK cs (idx + 1) skip st r) : ROK (c :: cs) idx skip st r := by
  intro blk st' e
  obtain ⟨h1, h2, k, rr, e', hk1, hk2, hv, hlt⟩ := hr blk st' e
  refine ⟨h1, h2, k, rr, e', by omega, hk2, ?_, ?_⟩
  · exact (validAt_cons_lt c cs idx k rr (by omega)).2 hv
  · rw [remKids_cons_lt c cs idx k rr (by omega), remKids_cons_lt c cs idx skip st h]; exact hlt

theorem ROK_continue (c : Box) (cs : List Box) (idx skip : Nat) (st : List Nat) (r) (h : ¬ idx < skip)
    (hr : ROK cs (idx + 1) skip [] r) : ROK (c :: cs) idx skip st r := by
  intro blk st' e
  obtain ⟨h1, h2, k, rr, e', hk1, hk2, hv, hlt⟩ := hr blk st' e
  refine ⟨h1, h2, k, rr, e', by omega, hk2, ?_, ?_⟩
  · exact (validAt_cons_lt c cs idx k rr (by omega)).2 hv
  · rw [remKids_cons_lt c cs idx k rr (by omega)]
    exact Nat.lt_of_lt_of_le hlt (remKids_cons_ge c cs idx skip st h)

/-! ### the main mutual induction -/

def noLineKid (ks : List Box) : Bool := ks.all (fun c => !(c.ty == .line))

def KOK (ks : List Box) : Prop :=
  noFlowBlockRList ks = true ∧ allNList linesCleanR ks = true ∧ noLineKid ks = true

theorem KOK_nil : KOK [] := ⟨by simp [noFlowBlockRList], by simp [allNList], by simp [noLineKid]⟩

theorem KOK_cons (c : Box) (rest : List Box)
    (hb : (isBlockLevel c.ty && inNormalFlow c.a) = false)
    (hi : (c.ty == .inline && !c.a.running) = true → noFlowBlockR c = true)
    (hcl : allN linesCleanR c = true) (hl : (c.ty == .line) = false) (hk : KOK rest) :
    KOK (c :: rest) := by
  obtain ⟨k1, k2, k3⟩ := hk
  refine ⟨?_, ?_, ?_⟩
  · rw [noFlowBlockRList, hb, k1]
    cases h : (c.ty == .inline && !c.a.running) with
    | false => simp
    | true => simp [hi h]
  · rw [allNList, hcl, k2]; rfl
  · unfold noLineKid at k3 ⊢; rw [List.all_cons, hl, k3]; rfl

theorem linesClean_of_noLineKid (ty : Ty) (a : Attrs) (ks : List Box) (h : noLineKid ks = true) :
    linesCleanR ty a ks = true := by
  unfold linesCleanR; unfold noLineKid at h
  rw [List.all_eq_true] at h ⊢
  intro x hx
  have := h x hx
  simp only [Bool.not_eq_true'] at this
  simp [this]

theorem bii_singleLine_length (kids : List Box) (h : singleLine kids = true) : kids.length = 1 := by
  cases kids with
  | nil => simp [singleLine] at h
  | cons x xs => cases xs with
    | nil => rfl
    | cons y ys => simp [singleLine] at h

theorem bii_blockLevel_not_line (t : Ty) (h : isBlockLevel t = true) : (t == .line) = false := by
  cases t <;> simp_all [isCls]

theorem bii_singleLine_iff (kids : List Box) (h : singleLine kids = true) :
    ∃ l, kids = [l] ∧ (l.ty == .line) = true := by
  cases kids with
  | nil => simp [singleLine] at h
  | cons x xs => cases xs with
    | nil => exact ⟨x, rfl, by simpa [singleLine] using h⟩
    | cons y ys => simp [singleLine] at h

theorem bii_allNList_append (p : Ty → Attrs → List Box → Bool) (xs ys : List Box) :
    allNList p (xs ++ ys) = (allNList p xs && allNList p ys) := by
  induction xs with
  | nil => simp [allNList]
  | cons x xs ih => simp [allNList, ih, Bool.and_assoc]

theorem bii_allNList_of_forall (p : Ty → Attrs → List Box → Bool) (xs : List Box)
    (h : ∀ x ∈ xs, allN p x = true) : allNList p xs = true := by
  induction xs with
  | nil => simp [allNList]
  | cons x xs ih =>
    rw [allNList, h x (by simp), ih (fun y hy => h y (by simp [hy]))]; rfl

/- `allB p`: `p` holds at every box that `blockInInline` visits: like `allN`, but a line box is entered
   even when it is running, and so is every non-running inline box reachable from a line box through
   non-running inline boxes (the descent of `innerBII`). -/
mutual
  def allB (p : Ty → Attrs → List Box → Bool) : Box → Bool
    | .mk ty a kids _ => kids.isEmpty || a.running || (p ty a kids && allBKids p kids)
  def allBKids (p : Ty → Attrs → List Box → Bool) : List Box → Bool
    | [] => true
    | c :: cs => (if c.ty == .line then allBInner p c else allB p c) && allBKids p cs
  def allBInner (p : Ty → Attrs → List Box → Bool) : Box → Bool
    | .mk ty a kids _ => p ty a kids && allBInnerKids p kids
  def allBInnerKids (p : Ty → Attrs → List Box → Bool) : List Box → Bool
    | [] => true
    | c :: cs => (if c.ty == .inline && !c.a.running then allBInner p c else allB p c) && allBInnerKids p cs
end

theorem allBInner_kids (p : Ty → Attrs → List Box → Bool) (c : Box) (h : allBInner p c = true) :
    p c.ty c.a c.kids = true ∧ allBInnerKids p c.kids = true := by
  cases c with
  | mk ty a kids cols => rw [allBInner, Bool.and_eq_true] at h; exact h

theorem inner_of_nonBC (c : Box) (h : allBInner linesAlone c = true) (hbc : isBlockContainer c.ty = false) :
    allBInnerKids linesAlone c.kids = true ∧ noLineKid c.kids = true := by
  obtain ⟨h1, h2⟩ := allBInner_kids _ c h
  refine ⟨h2, ?_⟩
  unfold linesAlone at h1
  rw [hbc] at h1
  simpa [noLineKid] using h1

abbrev biiBLall (ks : List Box) : Bool := ks.all (fun c => isBlockLevel c.ty)

mutual
  theorem bii_main : (b : Box) → allB linesAlone b = true →
      ∃ b', blockInInline b = .ok b' ∧ b'.ty = b.ty ∧ b'.a = b.a ∧ allN linesCleanR b' = true ∧
        (allB bcOK b = true → allN bcOK b' = true)
    | .mk ty a kids cols, h => by
      rw [blockInInline]
      by_cases hc : (kids.isEmpty || a.running) = true
      · rw [if_pos hc]
        refine ⟨_, rfl, rfl, rfl, ?_, fun _ => ?_⟩
        · rw [allN]
          rcases Bool.or_eq_true_iff.1 hc with h1 | h1
          · have : kids = [] := List.isEmpty_iff.1 h1
            subst this; simp [linesCleanR, allNList]
          · simp [h1]
        · rw [allN]
          rcases Bool.or_eq_true_iff.1 hc with h1 | h1
          · have : kids = [] := List.isEmpty_iff.1 h1
            subst this; simp [bcOK, blockContainerOK, allNList]
          · simp [h1]
      · rw [if_neg hc]
        have hc' : (kids.isEmpty || a.running) = false := by simpa using hc
        rw [allB, hc', Bool.false_or, Bool.and_eq_true] at h
        obtain ⟨hla, hkids⟩ := h
        have hn : kids.length = 1 ∨ noLineKid kids = true := by
          unfold linesAlone at hla
          rcases Bool.or_eq_true_iff.1 hla with h | h
          · exact Or.inr h
          · rw [Bool.and_eq_true] at h; exact Or.inl (bii_singleLine_length kids h.2)
        obtain ⟨ks, he, h1, h2, h3⟩ := biiKids_main a kids.length kids hkids hn
        refine ⟨.mk ty a ks cols, ?_, rfl, rfl, ?_, ?_⟩
        · simp [he, bind, Except.bind, pure, Except.pure]
        · rw [allN]; simp [linesCleanR, h1, h2]
        · intro hb
          rw [allB, hc', Bool.false_or, Bool.and_eq_true] at hb
          obtain ⟨g1, g2, g3⟩ := h3 hb.2
          rw [allN, g1]
          have hb1 := hb.1
          unfold bcOK blockContainerOK at hb1 ⊢
          rcases Bool.or_eq_true_iff.1 hb1 with h | h
          · rcases Bool.or_eq_true_iff.1 h with h | h
            · simp [h]
            · have := g2 h; simp only [biiBLall] at this; simp [this]
          · obtain ⟨l, e, hl⟩ := bii_singleLine_iff kids h
            rcases g3 l e hl with q | q
            · simp only [biiBLall] at q; simp [q]
            · simp [q]
  theorem biiKids_main (pa : Attrs) (n : Nat) : (cs : List Box) → allBKids linesAlone cs = true →
      (n = 1 ∨ noLineKid cs = true) →
      ∃ ks, biiKids pa n cs = .ok ks ∧
        ks.all (fun c => !(c.ty == .line) || noFlowBlockR c) = true ∧ allNList linesCleanR ks = true ∧
        (allBKids bcOK cs = true → allNList bcOK ks = true ∧ (biiBLall cs = true → biiBLall ks = true) ∧
          (∀ l, cs = [l] → (l.ty == .line) = true → biiBLall ks = true ∨ singleLine ks = true))
    | [], _, _ => ⟨[], by simp [biiKids, pure, Except.pure], by simp, by simp [allNList],
        fun _ => ⟨by simp [allNList], fun _ => rfl, fun l e => by cases e⟩⟩
    | c :: cs, h, hn => by
      rw [allBKids, Bool.and_eq_true] at h
      obtain ⟨hc, hcs⟩ := h
      have hn' : n = 1 ∨ noLineKid cs = true := by
        rcases hn with h | h
        · exact Or.inl h
        · right; simp only [noLineKid, List.all_cons, Bool.and_eq_true] at h ⊢; exact h.2
      obtain ⟨rest, hrest, hr1, hr2, hr3⟩ := biiKids_main pa n cs hcs hn'
      rw [biiKids]
      by_cases hl : (c.ty == .line) = true
      · have hn1 : n = 1 := by
          rcases hn with h | h
          · exact h
          · simp [noLineKid, hl] at h
        rw [if_pos hl] at hc ⊢
        have hne : (n != 1) = false := by simp [hn1]
        rw [hne]
        simp only [Bool.false_eq_true, if_false]
        have hnbc : isBlockContainer c.ty = false := by rw [eq_of_beq hl]; rfl
        have hck := inner_of_nonBC c hc hnbc
        obtain ⟨frags, last, he, ⟨hP1, hP2, hP3, hP4⟩, hF⟩ := resumeLoop_spec pa (fun st => innerBII c st)
          (fun nl => nl.ty = c.ty ∧ noFlowBlockR nl = true ∧ allN linesCleanR nl = true ∧
            (allBInnerKids bcOK c.kids = true → allN bcOK nl = true))
          (fun x => isBlockLevel x.ty = true ∧ allN linesCleanR x = true ∧
            (allBInnerKids bcOK c.kids = true → allN bcOK x = true))
          (fun st => validStack c st = true) (remaining c)
          (fun st hI => by
            obtain ⟨c', r, he, h1, h2, h3, hr, hbc⟩ := innerBII_main c st hck.1 hck.2 hI
            exact ⟨c', r, he, ⟨h1, h2, h3, fun hH => (hbc hnbc hH).1⟩, fun blk st' e => by
              obtain ⟨q1, q2, q3, q4, q5⟩ := hr blk st' e
              exact ⟨⟨q1, q2, fun hH => (hbc hnbc hH).2 blk st' e⟩, q4, q5⟩⟩)
          (fun nl hp => by
            obtain ⟨p1, p2, p3, p4⟩ := hp
            refine ⟨rfl, ?_, fun hH => ?_⟩
            · simp [anonBlock, anon, allN, allNList, linesCleanR, anonAttrs, p2, p3]
            · simp [anonBlock, anon, allN, allNList, bcOK, blockContainerOK, singleLine, anonAttrs,
                p1, eq_of_beq hl, p4 hH])
          (c.size + 1) [] [] (validStack_nil c) (by have := remaining_lt_size c []; omega) (by simp)
        have hlast : (last.ty == .line) = true := by rw [hP1]; exact hl
        have hnc : ∀ nc : Box, nc = (if frags.isEmpty = true then last else anonBlock pa [last]) →
            (!(nc.ty == .line) || noFlowBlockR nc) = true ∧ allN linesCleanR nc = true ∧
            (allBInnerKids bcOK c.kids = true → allN bcOK nc = true) := by
          intro nc e
          split at e
          · subst e; simp [hP2, hP3]; exact hP4
          · subst e
            refine ⟨?_, ?_, fun hH => ?_⟩
            · simp [anonBlock, anon, Box.ty]
            · simp [anonBlock, anon, allN, allNList, linesCleanR, anonAttrs, hP2, hP3]
            · simp [anonBlock, anon, allN, allNList, bcOK, blockContainerOK, singleLine, anonAttrs,
                hlast, hP4 hH]
        refine ⟨frags ++ (if frags.isEmpty = true then last else anonBlock pa [last]) :: rest, ?_, ?_, ?_, ?_⟩
        · simp [he, hrest, bind, Except.bind, pure, Except.pure]
        · rw [List.all_append, List.all_cons, hr1, (hnc _ rfl).1]
          have : frags.all (fun c => !(c.ty == .line) || noFlowBlockR c) = true :=
            List.all_eq_true.2 (fun x hx => by simp [bii_blockLevel_not_line _ (hF x hx).1])
          rw [this]; rfl
        · rw [bii_allNList_append, allNList, hr2, (hnc _ rfl).2.1,
            bii_allNList_of_forall _ frags (fun x hx => (hF x hx).2.1)]; rfl
        · intro hb
          rw [allBKids, if_pos hl, Bool.and_eq_true] at hb
          have hH := (allBInner_kids _ c hb.1).2
          obtain ⟨g1, _, _⟩ := hr3 hb.2
          refine ⟨?_, fun hbl => ?_, fun l e _ => ?_⟩
          · rw [bii_allNList_append, allNList, g1, (hnc _ rfl).2.2 hH,
              bii_allNList_of_forall _ frags (fun x hx => (hF x hx).2.2 hH)]; rfl
          · simp [biiBLall, eq_of_beq hl, isCls] at hbl
          · have hcs0 : cs = [] := by cases e; rfl
            subst hcs0
            have hrest0 : rest = [] := by
              simp [biiKids, pure, Except.pure] at hrest; exact hrest
            subst hrest0
            cases hfe : frags.isEmpty with
            | true =>
              right
              have : frags = [] := List.isEmpty_iff.1 hfe
              subst this
              simp [singleLine, hlast]
            | false =>
              left
              have : frags.all (fun c => isBlockLevel c.ty) = true :=
                List.all_eq_true.2 (fun x hx => (hF x hx).1)
              simp only [biiBLall, List.all_append, this, List.all_cons, List.all_nil]
              simp [anonBlock, anon, Box.ty, isCls]
      · rw [if_neg hl] at hc ⊢
        obtain ⟨c', he, hty, ha, hcl, hcb⟩ := bii_main c hc
        refine ⟨c' :: rest, ?_, ?_, ?_, ?_⟩
        · simp [he, hrest, bind, Except.bind, pure, Except.pure]
        · rw [List.all_cons, hr1, hty]; simp [hl]
        · rw [allNList, hcl, hr2]; rfl
        · intro hb
          rw [allBKids, if_neg hl, Bool.and_eq_true] at hb
          obtain ⟨g1, g2, _⟩ := hr3 hb.2
          refine ⟨?_, fun hbl => ?_, fun l e hl' => ?_⟩
          · rw [allNList, hcb hb.1, g1]; rfl
          · simp only [biiBLall, List.all_cons, Bool.and_eq_true] at hbl ⊢
            exact ⟨by rw [hty]; exact hbl.1, g2 hbl.2⟩
          · cases e; exact absurd hl' hl
  theorem innerBII_main : (c : Box) → (st : Resume) → allBInnerKids linesAlone c.kids = true →
      noLineKid c.kids = true → validStack c st = true →
      ∃ c' r, innerBII c st = .ok (c', r) ∧ c'.ty = c.ty ∧ noFlowBlockR c' = true ∧
        allN linesCleanR c' = true ∧
        (∀ blk st', r = some (blk, st') → isBlockLevel blk.ty = true ∧ allN linesCleanR blk = true ∧
          st' ≠ [] ∧ validStack c st' = true ∧ remaining c st' < remaining c st) ∧
        (isBlockContainer c.ty = false → allBInnerKids bcOK c.kids = true →
          allN bcOK c' = true ∧ ∀ blk st', r = some (blk, st') → allN bcOK blk = true)
    | .mk ty a kids cols, st, hA, hL, hv => by
      simp only [Box.kids] at hA hL
      have key : ∀ skip rest, validAt kids 0 skip rest →
          remKids kids 0 skip rest = remaining (.mk ty a kids cols) st →
          innerBII (.mk ty a kids cols) st =
            (innerKids kids 0 skip rest >>= fun p => pure (.mk ty a p.1 cols, p.2)) →
          ∃ c' r, innerBII (.mk ty a kids cols) st = .ok (c', r) ∧ c'.ty = ty ∧ noFlowBlockR c' = true ∧
            allN linesCleanR c' = true ∧
            (∀ blk st', r = some (blk, st') → isBlockLevel blk.ty = true ∧ allN linesCleanR blk = true ∧
              st' ≠ [] ∧ validStack (.mk ty a kids cols) st' = true ∧
              remaining (.mk ty a kids cols) st' < remaining (.mk ty a kids cols) st) ∧
            (isBlockContainer ty = false → allBInnerKids bcOK kids = true →
              allN bcOK c' = true ∧ ∀ blk st', r = some (blk, st') → allN bcOK blk = true) := by
        intro skip rest hva hrem hm
        obtain ⟨ks, r, he, ⟨k1, k2, k3⟩, hr, hbk⟩ := innerKids_main kids 0 skip rest hA hL hva
        refine ⟨.mk ty a ks cols, r, ?_, rfl, ?_, ?_, ?_, ?_⟩
        · rw [hm, he]; rfl
        · rw [noFlowBlockR]; exact k1
        · rw [allN, linesClean_of_noLineKid ty a ks k3, k2]; simp
        · intro blk st' e
          obtain ⟨q1, q2, k, rr, e', _, _, hv', hlt⟩ := hr blk st' e
          subst e'
          refine ⟨q1, q2, by simp, ?_, ?_⟩
          · rw [validStack_cons]
            rcases hv' with h | ⟨_, c, h2, h3, h4⟩
            · exact Or.inl h
            · exact Or.inr ⟨c, by simpa [Box.kids] using h2, h3, h4⟩
          · rw [← hrem]; simp only [remaining]; exact hlt
        · intro hnb hH
          obtain ⟨g1, g2⟩ := hbk hH
          refine ⟨?_, g2⟩
          rw [allN]; simp [bcOK, blockContainerOK, hnb, g1]
      cases st with
      | nil => exact key 0 [] (Or.inl rfl) (by simp only [remaining]) (by rw [innerBII])
      | cons skip rest =>
        refine key skip rest ?_ (by simp only [remaining]) (by rw [innerBII])
        rcases (validStack_cons _ skip rest).1 hv with h | ⟨c, h2, h3, h4⟩
        · exact Or.inl h
        · exact Or.inr ⟨Nat.zero_le _, c, by simpa [Box.kids] using h2, h3, h4⟩
  theorem innerKids_main : (cs : List Box) → (idx skip : Nat) → (st : Resume) →
      allBInnerKids linesAlone cs = true → noLineKid cs = true → validAt cs idx skip st →
      ∃ ks r, innerKids cs idx skip st = .ok (ks, r) ∧ KOK ks ∧ ROK cs idx skip st r ∧
        (allBInnerKids bcOK cs = true →
          allNList bcOK ks = true ∧ ∀ blk st', r = some (blk, st') → allN bcOK blk = true)
    | [], idx, skip, st, _, _, _ =>
      ⟨[], none, by simp [innerKids, pure, Except.pure], KOK_nil, (by intro _ _ e; cases e),
        fun _ => ⟨by simp [allNList], (by intro _ _ e; cases e)⟩⟩
    | c :: cs, idx, skip, st, hA, hL, hv => by
      rw [allBInnerKids, Bool.and_eq_true] at hA
      obtain ⟨hAc, hAcs⟩ := hA
      have hLc : (c.ty == .line) = false ∧ noLineKid cs = true := by
        simpa [noLineKid] using hL
      rw [innerKids]
      by_cases h1 : idx < skip
      · rw [if_pos h1]
        obtain ⟨ks, r, he, hk, hr, hbk⟩ := innerKids_main cs (idx + 1) skip st hAcs hLc.2
          ((validAt_cons_lt c cs idx skip st h1).1 hv)
        refine ⟨ks, r, he, hk, ROK_skip c cs idx skip st r h1 hr, fun hb => ?_⟩
        rw [allBInnerKids, Bool.and_eq_true] at hb
        exact hbk hb.2
      · rw [if_neg h1]
        have hhead := validAt_head c cs idx skip st h1 hv
        by_cases h2 : (isBlockLevel c.ty && inNormalFlow c.a) = true
        · rw [if_pos h2]
          have hni : (c.ty == .inline) = false := by
            have := (Bool.and_eq_true_iff.1 h2).1
            cases hc : c.ty <;> simp_all [isCls]
          have hst : st = [] := by
            rcases hhead with h | ⟨h, _⟩
            · exact h
            · simp [hni] at h
          subst hst
          have hni' : (c.ty == .inline && !c.a.running) = false := by rw [hni]; rfl
          rw [hni'] at hAc
          simp only [Bool.false_eq_true, if_false] at hAc
          obtain ⟨blk, he, hty, ha, hcl, hcb⟩ := bii_main c hAc
          refine ⟨[], some (blk, [idx + 1]), ?_, KOK_nil, ?_, fun hb => ?_⟩
          · simp [he, bind, Except.bind, pure, Except.pure]
          · intro blk' st' e
            cases e
            refine ⟨by rw [hty]; exact (Bool.and_eq_true_iff.1 h2).1, hcl, idx + 1, [], rfl,
              by omega, by omega, Or.inl rfl, ?_⟩
            rw [remKids_cons_lt c cs idx (idx + 1) [] (by omega)]
            rw [remKids]
            simp only [h1, if_false, h2, if_true]
            rw [remKids_skip_irrel cs (idx + 1) (idx + 1) skip [] (by omega) (by omega)]
            omega
          · rw [allBInnerKids, hni', Bool.and_eq_true] at hb
            simp only [Bool.false_eq_true, if_false] at hb
            refine ⟨by simp [allNList], ?_⟩
            intro blk' st' e
            cases e
            exact hcb hb.1
        · rw [if_neg h2]
          by_cases h3 : (c.ty == .inline && !c.a.running) = true
          · rw [if_pos h3] at hAc ⊢
            have h3i : c.ty = .inline := eq_of_beq (Bool.and_eq_true_iff.1 h3).1
            have hcv : validStack c st = true := by
              rcases hhead with h | ⟨_, h⟩
              · subst h; exact validStack_nil c
              · exact h
            have hnbc : isBlockContainer c.ty = false := by rw [h3i]; rfl
            have hck := inner_of_nonBC c hAc hnbc
            obtain ⟨c', r, he, hty, hnf, hcl, hr, hcb⟩ := innerBII_main c st hck.1 hck.2 hcv
            have hb' : (isBlockLevel c'.ty && inNormalFlow c'.a) = false := by
              rw [hty, h3i]; rfl
            have hl' : (c'.ty == .line) = false := by rw [hty, h3i]; rfl
            cases r with
            | some p =>
              obtain ⟨blk, rs⟩ := p
              obtain ⟨q1, q2, q3, q4, q5⟩ := hr blk rs rfl
              refine ⟨[c'], some (blk, idx :: rs), ?_, KOK_cons c' [] hb' (fun _ => hnf) hcl hl' KOK_nil,
                ?_, fun hb => ?_⟩
              · simp [he, bind, Except.bind, pure, Except.pure]
              · intro blk' st' e
                cases e
                refine ⟨q1, q2, idx, rs, rfl, Nat.le_refl _, by omega,
                  Or.inr ⟨Nat.le_refl _, c, by simp, h3, q4⟩, ?_⟩
                rw [remKids, remKids]
                simp only [Nat.lt_irrefl, h1, if_false, h2, h3, if_true, Bool.false_eq_true]
                rw [remKids_skip_irrel cs (idx + 1) idx skip [] (by omega) (by omega)]
                omega
              · rw [allBInnerKids, if_pos h3, Bool.and_eq_true] at hb
                obtain ⟨g1, g2⟩ := hcb hnbc (allBInner_kids _ c hb.1).2
                refine ⟨by rw [allNList, g1]; rfl, ?_⟩
                intro blk' st' e
                cases e
                exact g2 blk rs rfl
            | none =>
              obtain ⟨rest, r', he', hk', hr', hbk'⟩ :=
                innerKids_main cs (idx + 1) skip [] hAcs hLc.2 (Or.inl rfl)
              refine ⟨c' :: rest, r', ?_, KOK_cons c' rest hb' (fun _ => hnf) hcl hl' hk',
                ROK_continue c cs idx skip st r' h1 hr', fun hb => ?_⟩
              · simp [he, he', bind, Except.bind, pure, Except.pure]
              · rw [allBInnerKids, if_pos h3, Bool.and_eq_true] at hb
                obtain ⟨g1, _⟩ := hcb hnbc (allBInner_kids _ c hb.1).2
                obtain ⟨g3, g4⟩ := hbk' hb.2
                exact ⟨by rw [allNList, g1, g3]; rfl, g4⟩
          · rw [if_neg h3] at hAc ⊢
            have hst : st = [] := by
              rcases hhead with h | ⟨h, _⟩
              · exact h
              · exact absurd h h3
            subst hst
            obtain ⟨c', he, hty, ha, hcl, hcb⟩ := bii_main c hAc
            obtain ⟨rest, r', he', hk', hr', hbk'⟩ :=
              innerKids_main cs (idx + 1) skip [] hAcs hLc.2 (Or.inl rfl)
            refine ⟨c' :: rest, r', ?_, KOK_cons c' rest ?_ ?_ hcl ?_ hk',
              ROK_continue c cs idx skip [] r' h1 hr', fun hb => ?_⟩
            · simp [he, he', bind, Except.bind, pure, Except.pure]
            · rw [hty, ha]; simpa using h2
            · intro h; rw [hty, ha] at h; exact absurd h h3
            · rw [hty]; exact hLc.1
            · rw [allBInnerKids, if_neg h3, Bool.and_eq_true] at hb
              obtain ⟨g3, g4⟩ := hbk' hb.2
              exact ⟨by rw [allNList, hcb hb.1, g3]; rfl, g4⟩
end

/-! ### from the tree-shape predicates to `allB` -/

/-- a line box is never running (line boxes are anonymous boxes made by InlineInBlock) -/
def linesNotRunning (_ : Ty) (_ : Attrs) (kids : List Box) : Bool :=
  kids.all (fun c => !(c.ty == .line) || !c.a.running)

mutual
  theorem allB_of_allAll (p : Ty → Attrs → List Box → Bool) : (b : Box) → allAll p b = true → allB p b = true
    | .mk ty a kids cols, h => by
      rw [allAll, Bool.and_eq_true] at h
      rw [allB, h.1, allBKids_of_allAll p kids h.2]; simp
  theorem allBKids_of_allAll (p : Ty → Attrs → List Box → Bool) :
      (cs : List Box) → allAllList p cs = true → allBKids p cs = true
    | [], _ => by simp [allBKids]
    | c :: cs, h => by
      rw [allAllList, Bool.and_eq_true] at h
      rw [allBKids, allBKids_of_allAll p cs h.2, allB_of_allAll p c h.1, allBInner_of_allAll p c h.1]; simp
  theorem allBInner_of_allAll (p : Ty → Attrs → List Box → Bool) :
      (c : Box) → allAll p c = true → allBInner p c = true
    | .mk ty a kids cols, h => by
      rw [allAll, Bool.and_eq_true] at h
      rw [allBInner, h.1, allBInnerKids_of_allAll p kids h.2]; rfl
  theorem allBInnerKids_of_allAll (p : Ty → Attrs → List Box → Bool) :
      (cs : List Box) → allAllList p cs = true → allBInnerKids p cs = true
    | [], _ => by simp [allBInnerKids]
    | c :: cs, h => by
      rw [allAllList, Bool.and_eq_true] at h
      rw [allBInnerKids, allBInnerKids_of_allAll p cs h.2, allB_of_allAll p c h.1,
        allBInner_of_allAll p c h.1]; simp
end

mutual
  theorem allB_of_allN (p : Ty → Attrs → List Box → Bool) : (b : Box) → allN p b = true →
      allN linesNotRunning b = true → allB p b = true
    | .mk ty a kids cols, h1, h3 => by
      rw [allB]
      cases hr : a.running with
      | true => simp
      | false =>
        rw [allN, hr, Bool.false_or, Bool.and_eq_true] at h1 h3
        rw [h1.1, allBKids_of_allN p kids h1.2 h3.2 h3.1]; simp
  theorem allBKids_of_allN (p : Ty → Attrs → List Box → Bool) : (cs : List Box) → allNList p cs = true →
      allNList linesNotRunning cs = true →
      cs.all (fun c => !(c.ty == .line) || !c.a.running) = true → allBKids p cs = true
    | [], _, _, _ => by simp [allBKids]
    | c :: cs, h1, h3, h5 => by
      rw [allNList, Bool.and_eq_true] at h1 h3
      rw [List.all_cons, Bool.and_eq_true] at h5
      rw [allBKids, allBKids_of_allN p cs h1.2 h3.2 h5.2, Bool.and_true]
      by_cases hl : (c.ty == .line) = true
      · rw [if_pos hl]
        have g5 := h5.1
        simp [hl] at g5
        exact allBInner_of_allN p c h1.1 h3.1 g5
      · rw [if_neg hl]; exact allB_of_allN p c h1.1 h3.1
  theorem allBInner_of_allN (p : Ty → Attrs → List Box → Bool) : (c : Box) → allN p c = true →
      allN linesNotRunning c = true → c.a.running = false → allBInner p c = true
    | .mk ty a kids cols, h1, h3, hr => by
      simp only [Box.a] at hr
      rw [allN, hr, Bool.false_or, Bool.and_eq_true] at h1 h3
      rw [allBInner, h1.1, allBInnerKids_of_allN p kids h1.2 h3.2]; rfl
  theorem allBInnerKids_of_allN (p : Ty → Attrs → List Box → Bool) : (cs : List Box) →
      allNList p cs = true → allNList linesNotRunning cs = true → allBInnerKids p cs = true
    | [], _, _ => by simp [allBInnerKids]
    | c :: cs, h1, h3 => by
      rw [allNList, Bool.and_eq_true] at h1 h3
      rw [allBInnerKids, allBInnerKids_of_allN p cs h1.2 h3.2, Bool.and_true]
      by_cases hi : (c.ty == .inline && !c.a.running) = true
      · rw [if_pos hi]
        have g : c.a.running = false := by simpa using (Bool.and_eq_true_iff.1 hi).2
        exact allBInner_of_allN p c h1.1 h3.1 g
      · rw [if_neg hi]; exact allB_of_allN p c h1.1 h3.1
end

/-! ### item 1: `innerBII` — success on valid stacks, validity and progress of the returned stack -/

theorem innerBII_ok (c : Box) (st : Resume) (hA : allBInnerKids linesAlone c.kids = true)
    (hL : noLineKid c.kids = true) (hv : validStack c st = true) : ∃ res, innerBII c st = .ok res := by
  obtain ⟨c', r, he, _⟩ := innerBII_main c st hA hL hv
  exact ⟨_, he⟩

theorem innerBII_progress (c : Box) (st : Resume) (hA : allBInnerKids linesAlone c.kids = true)
    (hL : noLineKid c.kids = true) (hv : validStack c st = true) (c' blk : Box) (st' : Resume)
    (h : innerBII c st = .ok (c', some (blk, st'))) :
    st' ≠ [] ∧ validStack c st' = true ∧ remaining c st' < remaining c st := by
  obtain ⟨c'', r, he, _, _, _, hr, _⟩ := innerBII_main c st hA hL hv
  rw [he] at h
  injection h with h
  injection h with _ h2
  obtain ⟨_, _, q3, q4, q5⟩ := hr blk st' h2
  exact ⟨q3, q4, q5⟩

theorem remaining_le_size (c : Box) : remaining c [] ≤ c.size :=
  Nat.le_of_lt (remaining_lt_size c [])

/-! ### items 3–5 -/

theorem blockInInline_total_allB (b : Box) (h : allB linesAlone b = true) :
    ∃ b', blockInInline b = .ok b' ∧ b'.ty = b.ty ∧ b'.a = b.a := by
  obtain ⟨b', he, h1, h2, _⟩ := bii_main b h
  exact ⟨b', he, h1, h2⟩

/-- item 3, variant (a): the hypothesis holds everywhere, also below running boxes -/
theorem blockInInline_total (b : Box) (h : allAll linesAlone b = true) :
    ∃ b', blockInInline b = .ok b' ∧ b'.ty = b.ty ∧ b'.a = b.a :=
  blockInInline_total_allB b (allB_of_allAll _ b h)

/-- item 3, variant (b), with the extra hypothesis that line boxes are not running (needed, see
    `running_line_witness`) -/
theorem blockInInline_total' (b : Box) (h : allN linesAlone b = true)
    (h4 : allN linesNotRunning b = true) :
    ∃ b', blockInInline b = .ok b' ∧ b'.ty = b.ty ∧ b'.a = b.a :=
  blockInInline_total_allB b (allB_of_allN _ b h h4)

theorem blockInInline_linesClean_allB (b b' : Box) (hb : blockInInline b = .ok b')
    (h : allB linesAlone b = true) : allN linesCleanR b' = true := by
  obtain ⟨b'', he, _, _, h3, _⟩ := bii_main b h
  rw [he] at hb; injection hb with hb; subst hb; exact h3

theorem blockInInline_linesClean (b b' : Box) (hb : blockInInline b = .ok b')
    (h : allAll linesAlone b = true) : allN linesCleanR b' = true :=
  blockInInline_linesClean_allB b b' hb (allB_of_allAll _ b h)

theorem blockInInline_linesClean' (b b' : Box) (hb : blockInInline b = .ok b')
    (h : allN linesAlone b = true) (h4 : allN linesNotRunning b = true) :
    allN linesCleanR b' = true :=
  blockInInline_linesClean_allB b b' hb (allB_of_allN _ b h h4)

theorem blockInInline_bcOK_allB (b b' : Box) (hb : blockInInline b = .ok b')
    (h1 : allB bcOK b = true) (h2 : allB linesAlone b = true) : allN bcOK b' = true := by
  obtain ⟨b'', he, _, _, _, h5⟩ := bii_main b h2
  rw [he] at hb; injection hb with hb; subst hb; exact h5 h1

/-- item 5, with the extra hypothesis `h4` that line boxes are not running (without it the statement is
    false, see `running_line_witness`) -/
theorem blockInInline_bcOK (b b' : Box) (hb : blockInInline b = .ok b')
    (h1 : allN bcOK b = true) (h2 : allN linesAlone b = true)
    (h4 : allN linesNotRunning b = true) :
    allN bcOK b' = true :=
  blockInInline_bcOK_allB b b' hb (allB_of_allN _ b h1 h4) (allB_of_allN _ b h2 h4)

theorem blockInInline_bcOK_allAll (b b' : Box) (hb : blockInInline b = .ok b')
    (h1 : allAll bcOK b = true) (h2 : allAll linesAlone b = true) : allN bcOK b' = true :=
  blockInInline_bcOK_allB b b' hb (allB_of_allAll _ b h1) (allB_of_allAll _ b h2)

/-- a running *line box* is entered by `blockInInline` although `allN` does not look below it: the
    hypotheses `h1 h2` of item 5 alone (even with `allN linesNoRunningInline`) do not give `allN bcOK`
    of the result, and `allN linesAlone` (even with `allN linesNoRunningInline`) does not give totality. -/
def runningLineWitness : Box :=
  .mk .block {} [ .mk .line { running := true } [ .mk .block {} [ .mk .text { text := "b" } [] [] ] [] ] [] ] []

def runningLineWitness2 : Box :=
  .mk .block {} [ .mk .line { running := true }
    [ .mk .block {} [ .mk .line {} [] [], .mk .text { text := "b" } [] [] ] [] ] [] ] []

theorem running_line_witness :
    (∃ b', blockInInline runningLineWitness = .ok b' ∧ allN bcOK runningLineWitness = true ∧
      allN linesAlone runningLineWitness = true ∧ allN linesNoRunningInline runningLineWitness = true ∧
      allN bcOK b' = false) ∧
    (allN linesAlone runningLineWitness2 = true ∧ allN linesNoRunningInline runningLineWitness2 = true ∧
      blockInInline runningLineWitness2 = .error "Line boxes should have no siblings at this stage") := by
  exact ⟨⟨_, rfl, by decide, by decide, by decide, by decide⟩, by decide, by decide, rfl⟩

/-! ### item 1 again, without any hypothesis on the tree: whenever `innerBII` returns a block, the
    returned stack is non-empty, valid, and strictly decreases `remaining` -/

def PROG (cs : List Box) (idx skip : Nat) (st : List Nat) (r : Option (Box × Resume)) : Prop :=
  ∀ blk st', r = some (blk, st') →
    ∃ k rr, st' = k :: rr ∧ idx ≤ k ∧ skip ≤ k ∧ validAt cs idx k rr ∧
      remKids cs idx k rr < remKids cs idx skip st

theorem PROG_skip (c : Box) (cs : List Box) (idx skip : Nat) (st : List Nat) (r) (h : idx < skip)
    (hr : PROG cs (idx + 1) skip st r) : PROG (c :: cs) idx skip st r := by
  intro blk st' e
  obtain ⟨k, rr, e', hk1, hk2, hv, hlt⟩ := hr blk st' e
  refine ⟨k, rr, e', by omega, hk2, ?_, ?_⟩
  · exact (validAt_cons_lt c cs idx k rr (by omega)).2 hv
  · rw [remKids_cons_lt c cs idx k rr (by omega), remKids_cons_lt c cs idx skip st h]; exact hlt

theorem PROG_continue (c : Box) (cs : List Box) (idx skip : Nat) (st : List Nat) (r) (h : ¬ idx < skip)
    (hr : PROG cs (idx + 1) skip [] r) : PROG (c :: cs) idx skip st r := by
  intro blk st' e
  obtain ⟨k, rr, e', hk1, hk2, hv, hlt⟩ := hr blk st' e
  refine ⟨k, rr, e', by omega, hk2, ?_, ?_⟩
  · exact (validAt_cons_lt c cs idx k rr (by omega)).2 hv
  · rw [remKids_cons_lt c cs idx k rr (by omega)]
    exact Nat.lt_of_lt_of_le hlt (remKids_cons_ge c cs idx skip st h)

mutual
  theorem innerBII_progress_free : (c : Box) → (st : Resume) → (c' blk : Box) → (st' : Resume) →
      innerBII c st = .ok (c', some (blk, st')) →
      st' ≠ [] ∧ validStack c st' = true ∧ remaining c st' < remaining c st
    | .mk ty a kids cols, st, c', blk, st', h => by
      have key : ∀ skip rest, remKids kids 0 skip rest = remaining (.mk ty a kids cols) st →
          innerBII (.mk ty a kids cols) st =
            (innerKids kids 0 skip rest >>= fun p => pure (.mk ty a p.1 cols, p.2)) →
          st' ≠ [] ∧ validStack (.mk ty a kids cols) st' = true ∧
            remaining (.mk ty a kids cols) st' < remaining (.mk ty a kids cols) st := by
        intro skip rest hrem hm
        rw [hm] at h
        cases hk : innerKids kids 0 skip rest with
        | error e => simp [hk, bind, Except.bind] at h
        | ok p =>
          obtain ⟨ks, r⟩ := p
          simp [hk, bind, Except.bind, pure, Except.pure] at h
          obtain ⟨k, rr, e', _, _, hv', hlt⟩ := innerKids_progress_free kids 0 skip rest ks r hk blk st' h.2
          subst e'
          refine ⟨by simp, ?_, ?_⟩
          · rw [validStack_cons]
            rcases hv' with h | ⟨_, c, h2, h3, h4⟩
            · exact Or.inl h
            · exact Or.inr ⟨c, by simpa [Box.kids] using h2, h3, h4⟩
          · rw [← hrem]; simp only [remaining]; exact hlt
      cases st with
      | nil => exact key 0 [] (by simp only [remaining]) (by rw [innerBII])
      | cons skip rest => exact key skip rest (by simp only [remaining]) (by rw [innerBII])
  theorem innerKids_progress_free : (cs : List Box) → (idx skip : Nat) → (st : Resume) →
      (ks : List Box) → (r : Option (Box × Resume)) →
      innerKids cs idx skip st = .ok (ks, r) → PROG cs idx skip st r
    | [], idx, skip, st, ks, r, h => by
      simp [innerKids, pure, Except.pure] at h
      intro blk st' e
      rw [← h.2] at e; cases e
    | c :: cs, idx, skip, st, ks, r, h => by
      rw [innerKids] at h
      by_cases h1 : idx < skip
      · rw [if_pos h1] at h
        exact PROG_skip c cs idx skip st r h1 (innerKids_progress_free cs (idx + 1) skip st ks r h)
      · rw [if_neg h1] at h
        by_cases h2 : (isBlockLevel c.ty && inNormalFlow c.a) = true
        · rw [if_pos h2] at h
          cases hs : st.isEmpty with
          | false => simp [hs, throw, throwThe, MonadExceptOf.throw] at h
          | true =>
            cases hb : blockInInline c with
            | error e => simp [hs, hb, bind, Except.bind] at h
            | ok v =>
              simp [hs, hb, bind, Except.bind, pure, Except.pure] at h
              intro blk st' e
              rw [← h.2] at e
              cases e
              refine ⟨idx + 1, [], rfl, by omega, by omega, Or.inl rfl, ?_⟩
              rw [remKids_cons_lt c cs idx (idx + 1) [] (by omega)]
              rw [remKids]
              simp only [h1, if_false, h2, if_true]
              rw [remKids_skip_irrel cs (idx + 1) (idx + 1) skip [] (by omega) (by omega)]
              omega
        · rw [if_neg h2] at h
          by_cases h3 : (c.ty == .inline && !c.a.running) = true
          · rw [if_pos h3] at h
            cases hi : innerBII c st with
            | error e => simp [hi, bind, Except.bind] at h
            | ok p =>
              obtain ⟨c', r0⟩ := p
              cases r0 with
              | some q =>
                obtain ⟨blk0, rs⟩ := q
                simp [hi, bind, Except.bind, pure, Except.pure] at h
                obtain ⟨q3, q4, q5⟩ := innerBII_progress_free c st c' blk0 rs hi
                intro blk st' e
                rw [← h.2] at e
                cases e
                refine ⟨idx, rs, rfl, Nat.le_refl _, by omega,
                  Or.inr ⟨Nat.le_refl _, c, by simp, h3, q4⟩, ?_⟩
                rw [remKids, remKids]
                simp only [Nat.lt_irrefl, h1, if_false, h2, h3, if_true, Bool.false_eq_true]
                rw [remKids_skip_irrel cs (idx + 1) idx skip [] (by omega) (by omega)]
                omega
              | none =>
                cases hk : innerKids cs (idx + 1) skip [] with
                | error e => simp [hi, hk, bind, Except.bind] at h
                | ok p2 =>
                  obtain ⟨rest, r'⟩ := p2
                  simp [hi, hk, bind, Except.bind, pure, Except.pure] at h
                  rw [← h.2]
                  exact PROG_continue c cs idx skip st r' h1
                    (innerKids_progress_free cs (idx + 1) skip [] rest r' hk)
          · rw [if_neg h3] at h
            cases hs : st.isEmpty with
            | false => simp [hs, throw, throwThe, MonadExceptOf.throw] at h
            | true =>
              cases hb : blockInInline c with
              | error e => simp [hs, hb, bind, Except.bind] at h
              | ok v =>
                cases hk : innerKids cs (idx + 1) skip [] with
                | error e => simp [hs, hb, hk, bind, Except.bind] at h
                | ok p2 =>
                  obtain ⟨rest, r'⟩ := p2
                  simp [hs, hb, hk, bind, Except.bind, pure, Except.pure] at h
                  rw [← h.2]
                  exact PROG_continue c cs idx skip st r' h1
                    (innerKids_progress_free cs (idx + 1) skip [] rest r' hk)
end

end WR.C09

/-
  Status (model with opaque running inline boxes: `innerKids` enters an inline box only when it is not
  running).
  * `validStack`, `remaining`/`remKids`, `allBInnerKids` follow the new condition
    `c.ty == .inline && !c.a.running`.
  * `blockInInline_total` is variant (a): hypothesis `allAll linesAlone b`.  Variant (b) needs only
    `allN linesAlone b` and `allN linesNotRunning b` (`blockInInline_total'`); the former hypothesis
    `allN linesNoRunningInline b` is gone.  `allN linesNotRunning` is still needed (second half of
    `running_line_witness`: a running line box is still scanned by `biiKids`).
  * `blockInInline_linesClean*` conclude `allN linesCleanR b'` (`linesClean` with running inline boxes
    opaque: a running inline box inside a line keeps its in-flow block children, see
    `running_inline_kept`); they need a hypothesis (a line box nested in a line box is not cleaned):
    `allAll linesAlone b` (or the `allB` / `allN`+h4 variants).
  * `blockInInline_bcOK` with only `h1 h2` is FALSE (first half of `running_line_witness`); it is
    proved with the extra hypothesis `h4 : allN linesNotRunning b = true`; also `_allAll` and `_allB`.
  * `innerBII_ok` (success on valid stacks) assumes the tree shape (`linesAlone` at the visited boxes)
    instead of "all recursive blockInInline calls succeed"; `innerBII_progress_free` has no hypothesis.
  * removed: `running_inline_split_witness` (now false), replaced by `running_inline_kept`.
-/
