/-
  C09 — predicates for the composition of the five passes (traversal exactly as `wf`: kids and cols,
  not below running boxes).
-/
import WR.C09.Shape
namespace WR.C09

mutual
  /-- `p` holds at every box reachable through `kids` and `cols` without entering a running box
      (the traversal of `wf`) -/
  def allW (p : Ty → Attrs → List Box → List Box → Bool) : Box → Bool
    | .mk ty a kids cols => a.running || (p ty a kids cols && allWList p kids && allWList p cols)
  def allWList (p : Ty → Attrs → List Box → List Box → Bool) : List Box → Bool
    | [] => true
    | k :: ks => allW p k && allWList p ks
end

/-- box types that elementToBox can produce (all concrete types but line / margin / page / plain replaced);
    each is block-level, inline-level or an internal table type -/
def rawTy (t : Ty) : Bool := !(t == .line || t == .margin || t == .page || t == .replaced || t == .footnoteArea)

/-- the raw-tree shape (`RawOK`): no column groups stored yet, no wrapper flag, leaves are leaves, only raw
    types, cells span at least one column (integerAttribute's minimum) -/
def rawOK (ty : Ty) (a : Attrs) (kids cols : List Box) : Bool :=
  rawTy ty && cols.isEmpty && !a.tw && (isParent ty || kids.isEmpty) &&
  kids.all (fun c => rawTy c.ty) &&
  (!(ty == .tableCell) || decide (1 ≤ a.colspan))

/-- `RawOK` as the composition theorem needs it: `rawOK` plus every cell child spans at least one column,
    also a running one (`rawOK` alone says it only of cells that are not running; boxes_tree.go gives every
    cell `Colspan ≥ 1`).  The harness evaluates this predicate on every real raw tree. -/
def pt_rawOK (ty : Ty) (a : Attrs) (kids cols : List Box) : Bool :=
  rawOK ty a kids cols && kids.all (fun c => !(c.ty == .tableCell) || decide (1 ≤ c.a.colspan))

/-- the grid clause that does hold (see `grid_disjoint_partial`): first columns exclusive, rows
    internally disjoint, spans non-empty and inside the group -/
def gridOKw (ty : Ty) (kids : List Box) : Bool :=
  !(ty == .tableRowGroup) ||
    (firstSlotsOK kids &&
     (groupSlotsFrom 0 kids).all (fun s => s.1 < kids.length) &&
     kids.all (fun row => (rowCells row).all (fun c => c.a.colspan ≥ 1 && c.a.rowspan ≥ 1)))

/-- what the table pass establishes at every box: only raw types (wrappers are blocks / inline-blocks,
    the anonymous table parts are raw types too), leaves are leaves, the table-model
    clauses of `WF` (`childAllowed`, `tableKidsOK`), the weakened grid clause, columns are empty (rule 1.1) -/
def postTable (ty : Ty) (a : Attrs) (kids cols : List Box) : Bool :=
  rawTy ty && (isParent ty || kids.isEmpty) &&
  kids.all (fun c => rawTy c.ty) &&
  kids.all (childAllowed ty a) && tableKidsOK ty a kids cols && gridOKw ty kids &&
  (!(ty == .tableColumn) || kids.isEmpty)

/-- after FlexBoxes and GridBoxes -/
def postGrid (ty : Ty) (a : Attrs) (kids cols : List Box) : Bool :=
  postTable ty a kids cols && flexGridOK ty kids

/-- `nodeOK` of the spec with the grid clause weakened to `gridOKw` -/
def nodeOKw (ty : Ty) (a : Attrs) (kids cols : List Box) : Bool :=
  blockContainerOK ty kids && inlineOK ty kids && flexGridOK ty kids &&
  kids.all (childAllowed ty a) && tableKidsOK ty a kids cols && gridOKw ty kids &&
  (isParent ty || kids.isEmpty)

/-- `WF` with the weakened grid clause -/
def wfw (b : Box) : Bool := allW nodeOKw b

mutual
  theorem wf_eq_allW : ∀ b : Box, wf b = allW nodeOK b
    | .mk ty a kids cols => by
      unfold wf allW
      rw [wfList_eq_allW kids, wfList_eq_allW cols]
  theorem wfList_eq_allW : ∀ ks : List Box, wfList ks = allWList nodeOK ks
    | [] => by unfold wfList allWList; rfl
    | k :: ks => by
      unfold wfList allWList
      rw [wf_eq_allW k, wfList_eq_allW ks]
end

end WR.C09
