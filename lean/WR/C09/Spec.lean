/-
  C09 — the well-formedness of the "before layout" box tree, written from the property text and from
  CSS 2.1 §9.2 (block containers / inline boxes), §17.2 (table model), css-flexbox-1 §4, css-grid §6.
  Every clause is a decidable (Bool) function so that the same definition judges the trees the
  real code produces (driver request `wf`).

  Reading decisions (stated here because they are part of the trusted base):
  * "inline-level content": a child of a line box or inline box is inline-level, or it is out of
    flow (float / absolutely positioned / running) — CSS 2.1 §9.2.1.1 only splits inline boxes
    around *in-flow* block-level boxes; floats and abs-pos boxes stay in the line.
  * a running element (`position: running(x)`, GCPM) is taken out of the tree by layout and its
    box subtree is completed when it is placed in a margin box; the passes skip it.  `WF` therefore
    does not look below a running box, and a running table needs no wrapper here.
  * "blockified items": every child of a flex or grid container is block-level.
-/
import WR.C09.Model
namespace WR.C09

/-- one line box and nothing else -/
def singleLine (kids : List Box) : Bool :=
  match kids with
  | [l] => l.ty == .line
  | _ => false

/-- a block container holds either only block-level boxes or a single line box -/
def blockContainerOK (ty : Ty) (kids : List Box) : Bool :=
  !isBlockContainer ty || kids.all (fun c => isBlockLevel c.ty) || singleLine kids

/-- line boxes and inline boxes hold only inline-level content (or out-of-flow boxes) -/
def inlineOK (ty : Ty) (kids : List Box) : Bool :=
  !(ty == .line || ty == .inline) || kids.all (fun c => isInlineLevel c.ty || !inNormalFlow c.a)

/-- flex and grid containers hold only blockified items -/
def flexGridOK (ty : Ty) (kids : List Box) : Bool :=
  !(isFlexContainer ty || isGridContainer ty) || kids.all (fun c => isBlockLevel c.ty)

/-- which parents a child of the given type may have:
    line boxes only in block containers; every (non-running) table in a wrapper; captions in a wrapper;
    row groups in tables; rows in row groups; cells in rows; columns in column groups;
    column groups only in `cols` of a table (never among the children). -/
def childAllowed (pty : Ty) (pa : Attrs) (c : Box) : Bool :=
  match c.ty with
  | .line => isBlockContainer pty
  | .table | .inlineTable => pa.tw || c.a.running
  | .tableCaption => pa.tw
  | .tableRowGroup => isTable pty
  | .tableRow => pty == .tableRowGroup
  | .tableCell => pty == .tableRow
  | .tableColumn => pty == .tableColumnGroup
  | .tableColumnGroup => false
  | _ => true

/-- what a table-ish parent may contain: wrapper = captions + exactly one table (and it is a block or
    inline-block); table ⊃ row groups; row group ⊃ rows; row ⊃ cells; column group ⊃ columns -/
def tableKidsOK (ty : Ty) (a : Attrs) (kids cols : List Box) : Bool :=
  (!a.tw || ((ty == .block || ty == .inlineBlock) &&
             kids.all (fun c => c.ty == .tableCaption || isTable c.ty) &&
             (kids.filter (fun c => isTable c.ty)).length == 1)) &&
  (!isTable ty || (kids.all (fun c => c.ty == .tableRowGroup) &&
                   cols.all (fun g => g.ty == .tableColumnGroup && (g.a.running || g.kids.all (fun c => c.ty == .tableColumn))))) &&
  (!(ty == .tableRowGroup) || kids.all (fun c => c.ty == .tableRow)) &&
  (!(ty == .tableRow) || kids.all (fun c => c.ty == .tableCell)) &&
  (!(ty == .tableColumnGroup) || kids.all (fun c => c.ty == .tableColumn)) &&
  (isTable ty || cols.isEmpty)

/-- the grid slots (row, column) a cell occupies when it sits in row `r` -/
def cellSlots (r : Nat) (c : Box) : List (Nat × Nat) :=
  (List.range' r c.a.rowspan).flatMap fun y => (List.range' c.a.gridX c.a.colspan).map fun x => (y, x)

/-- the cells of a row that the grid clauses look at (a running row is opaque) -/
def rowCells (row : Box) : List Box := if row.a.running then [] else row.kids

def rowSlots (r : Nat) (row : Box) : List (Nat × Nat) := (rowCells row).flatMap (cellSlots r)

def groupSlotsFrom : Nat → List Box → List (Nat × Nat)
  | _, [] => []
  | r, row :: rows => rowSlots r row ++ groupSlotsFrom (r + 1) rows

def nodup : List (Nat × Nat) → Bool
  | [] => true
  | x :: xs => !xs.contains x && nodup xs

/-- no two cells of a row group on the same grid slot (a cell spanning several slots counts once per
    slot); every cell spans at least one row and one column and stays inside its row group -/
def gridOK (ty : Ty) (kids : List Box) : Bool :=
  !(ty == .tableRowGroup) ||
    (nodup (groupSlotsFrom 0 kids) &&
     (groupSlotsFrom 0 kids).all (fun s => s.1 < kids.length) &&
     kids.all (fun row => (rowCells row).all (fun c => c.a.colspan ≥ 1 && c.a.rowspan ≥ 1)))

/-- weaker grid facts that hold even when a column-spanning cell runs into a row-spanning cell of an
    earlier row (the case CSS 2.1 §17.5 leaves undefined): the first column of every cell is held by
    that cell alone, and the cells of one row do not overlap each other -/
def firstSlotsOK (kids : List Box) : Bool :=
  let all := groupSlotsFrom 0 kids
  let rec go : Nat → List Box → Bool
    | _, [] => true
    | r, row :: rows =>
      (rowCells row).all (fun c => c.a.rowspan == 0 || c.a.colspan == 0 || (all.filter (· == (r, c.a.gridX))).length == 1) &&
      nodup ((rowCells row).flatMap fun c => (List.range' c.a.gridX c.a.colspan).map fun x => (r, x)) &&
      go (r + 1) rows
  go 0 kids

/-- the visible cells of a row group, each with the index of its row -/
def cellsFrom : Nat → List Box → List (Nat × Box)
  | _, [] => []
  | r, row :: rows => (rowCells row).map (fun c => (r, c)) ++ cellsFrom (r + 1) rows

def sharesSlot (p q : Nat × Box) : Bool :=
  (cellSlots p.1 p.2).any (fun s => (cellSlots q.1 q.2).contains s)

/-- the ONE situation in which two cells share a slot in this code base (left undefined by CSS 2.1 §17.5,
    expected by the repository's own TestColspanRowspan1): `p` is a cell of an earlier row that spans
    several rows, `q` a cell of a later row that spans several columns and starts left of `p` -/
def overlap175 (p q : Nat × Box) : Bool :=
  p.1 < q.1 && p.2.a.rowspan > 1 && q.2.a.colspan > 1 && q.2.a.gridX < p.2.a.gridX

/-- every two distinct cells (by position, `p` before `q` in document order) that share a slot are in
    that situation -/
def pairsOK : List (Nat × Box) → Bool
  | [] => true
  | p :: rest => rest.all (fun q => !sharesSlot p q || overlap175 p q) && pairsOK rest

def overlapsOnly175 (kids : List Box) : Bool := pairsOK (cellsFrom 0 kids)

/-- all local clauses at one box -/
def nodeOK (ty : Ty) (a : Attrs) (kids cols : List Box) : Bool :=
  blockContainerOK ty kids && inlineOK ty kids && flexGridOK ty kids &&
  kids.all (childAllowed ty a) && tableKidsOK ty a kids cols && gridOK ty kids &&
  (isParent ty || kids.isEmpty)

mutual
  /-- `WF` below a box (running boxes are opaque) -/
  def wf : Box → Bool
    | .mk ty a kids cols => a.running || (nodeOK ty a kids cols && wfList kids && wfList cols)
  def wfList : List Box → Bool
    | [] => true
    | k :: ks => wf k && wfList ks
end

/-- the root of the formatting structure is a block-level box that is not itself a table -/
def wfRoot (b : Box) : Bool := isBlockLevel b.ty && !isTable b.ty && wf b

def WF (b : Box) : Prop := wfRoot b = true

/-! ### the same clauses with reasons, for the judge -/

def nodeReasons (ty : Ty) (a : Attrs) (kids cols : List Box) : List String :=
  (if blockContainerOK ty kids then [] else ["block container holds neither only block-level boxes nor a single line box"]) ++
  (if inlineOK ty kids then [] else ["line/inline box holds an in-flow box that is not inline-level"]) ++
  (if flexGridOK ty kids then [] else ["flex/grid container holds a child that is not block-level"]) ++
  (if kids.all (childAllowed ty a) then [] else ["child not allowed under this parent (table model / line box placement)"]) ++
  (if tableKidsOK ty a kids cols then [] else ["table wrapper / table / row group / row / column group has a wrong child"]) ++
  (if gridOK ty kids then []
   else if nodup (groupSlotsFrom 0 kids) then ["a cell span is empty or leaves the row group"]
   else if overlapsOnly175 kids then ["two cells on the same grid slot: a column-spanning cell runs into a row-spanning cell of an earlier row"]
   else ["two cells on the same grid slot"]) ++
  (if isParent ty || kids.isEmpty then [] else ["non-parent box has children"])

mutual
  /-- (element code of the offending box, reason) -/
  def reasons : Box → List (Int × String)
    | .mk ty a kids cols =>
      if a.running then [] else (nodeReasons ty a kids cols).map (fun r => (a.el, r)) ++ reasonsList kids ++ reasonsList cols
  def reasonsList : List Box → List (Int × String)
    | [] => []
    | k :: ks => reasons k ++ reasonsList ks
end

def rootReasons (b : Box) : List (Int × String) :=
  (if isBlockLevel b.ty && !isTable b.ty then [] else [(b.a.el, "root box is not a block-level non-table box")]) ++ reasons b

end WR.C09
