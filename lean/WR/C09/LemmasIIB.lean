/-
  C09 — `inlineInBlock` never fails on a tree of shape `preIIB` and establishes the block-container
  clause (`bcOK`) and the line-box placement (`linesAlone`) at every box.
-/
import WR.C09.Shape
namespace WR.C09

/-! ### `allN` / `allNList` plumbing -/

theorem allNList_iff (p : Ty → Attrs → List Box → Bool) :
    ∀ ks : List Box, allNList p ks = true ↔ ∀ k ∈ ks, allN p k = true
  | [] => by simp [allNList]
  | k :: ks => by simp [allNList, allNList_iff p ks]

theorem allNList_append (p : Ty → Attrs → List Box → Bool) (xs ys : List Box) :
    allNList p (xs ++ ys) = (allNList p xs && allNList p ys) := by
  induction xs with
  | nil => simp [allNList]
  | cons x xs ih => simp [allNList, ih, Bool.and_assoc]

theorem allN_mk (p : Ty → Attrs → List Box → Bool) (ty : Ty) (a : Attrs) (kids cols : List Box) :
    allN p (.mk ty a kids cols) = (a.running || (p ty a kids && allNList p kids)) := by
  rw [allN]

theorem allN_anon (p : Ty → Attrs → List Box → Bool) (t : Ty) (pa : Attrs) (ks : List Box) :
    allN p (anon t pa ks) = (p t (anonAttrs t pa) ks && allNList p ks) := by
  simp [anon, allN_mk, anonAttrs]

theorem lineBox_ty (pa : Attrs) (ks : List Box) : (lineBox pa ks).ty = .line := rfl
theorem anonBlock_ty (pa : Attrs) (ks : List Box) : (anonBlock pa ks).ty = .block := rfl

/-- both target predicates hold below the box -/
def Good (b : Box) : Prop := allN bcOK b = true ∧ allN linesAlone b = true

theorem good_lineBox (pa : Attrs) (line : List Box)
    (hl : ∀ l ∈ line, l.ty ≠ .line ∧ Good l) : Good (lineBox pa line) := by
  constructor
  · rw [lineBox, allN_anon]
    simp only [bcOK, blockContainerOK, Bool.and_eq_true]
    refine ⟨by simp [isCls], ?_⟩
    rw [allNList_iff]; intro k hk; exact (hl k hk).2.1
  · rw [lineBox, allN_anon]
    simp only [linesAlone, Bool.and_eq_true, Bool.or_eq_true]
    refine ⟨Or.inl ?_, ?_⟩
    · rw [List.all_eq_true]; intro k hk; simp [(hl k hk).1]
    · rw [allNList_iff]; intro k hk; exact (hl k hk).2.2

theorem good_anonBlock (pa : Attrs) (line : List Box)
    (hl : ∀ l ∈ line, l.ty ≠ .line ∧ Good l) : Good (anonBlock pa [lineBox pa line]) := by
  have hg := good_lineBox pa line hl
  constructor
  · rw [anonBlock, allN_anon]
    simp [bcOK, blockContainerOK, singleLine, lineBox_ty, allNList, hg.1]
  · rw [anonBlock, allN_anon]
    simp [linesAlone, singleLine, lineBox_ty, allNList, hg.2, isCls]

end WR.C09
