/-
  C09 — `inlineInBlock` never fails on a tree of shape `preIIB` and establishes the block-container
  clause (`bcOK`) and the line-box placement (`linesAlone`) at every box.
-/
import WR.C09.Shape
namespace WR.C09

/-! ### `allN` / `allNList` plumbing -/

theorem allNList_iff (p : Ty → Attrs → List Box → Bool) :
    ∀ ks : List Box, allNList p ks = true ↔ ∀ k ∈ ks, allN p k = true
  | [] => by simp [allNList]
  | k :: ks => by simp [allNList, allNList_iff p ks]

theorem allNList_append (p : Ty → Attrs → List Box → Bool) (xs ys : List Box) :
    allNList p (xs ++ ys) = (allNList p xs && allNList p ys) := by
  induction xs with
  | nil => simp [allNList]
  | cons x xs ih => simp [allNList, ih, Bool.and_assoc]

theorem allN_mk (p : Ty → Attrs → List Box → Bool) (ty : Ty) (a : Attrs) (kids cols : List Box) :
    allN p (.mk ty a kids cols) = (a.running || (p ty a kids && allNList p kids)) := by
  rw [allN]

theorem allN_anon (p : Ty → Attrs → List Box → Bool) (t : Ty) (pa : Attrs) (ks : List Box) :
    allN p (anon t pa ks) = (p t (anonAttrs t pa) ks && allNList p ks) := by
  simp [anon, allN_mk, anonAttrs]

theorem lineBox_ty (pa : Attrs) (ks : List Box) : (lineBox pa ks).ty = .line := rfl
theorem anonBlock_ty (pa : Attrs) (ks : List Box) : (anonBlock pa ks).ty = .block := rfl

/-- both target predicates hold below the box -/
def Good (b : Box) : Prop := allN bcOK b = true ∧ allN linesAlone b = true

theorem good_lineBox (pa : Attrs) (line : List Box)
    (hl : ∀ l ∈ line, l.ty ≠ .line ∧ Good l) : Good (lineBox pa line) := by
  constructor
  · rw [lineBox, allN_anon]
    simp only [bcOK, blockContainerOK, Bool.and_eq_true]
    refine ⟨by simp [isCls], ?_⟩
    rw [allNList_iff]; intro k hk; exact (hl k hk).2.1
  · rw [lineBox, allN_anon]
    simp only [linesAlone, Bool.and_eq_true, Bool.or_eq_true]
    refine ⟨Or.inl ?_, ?_⟩
    · rw [List.all_eq_true]; intro k hk; simp [(hl k hk).1]
    · rw [allNList_iff]; intro k hk; exact (hl k hk).2.2

theorem good_anonBlock (pa : Attrs) (line : List Box)
    (hl : ∀ l ∈ line, l.ty ≠ .line ∧ Good l) : Good (anonBlock pa [lineBox pa line]) := by
  have hg := good_lineBox pa line hl
  constructor
  · rw [anonBlock, allN_anon]
    simp [bcOK, blockContainerOK, singleLine, lineBox_ty, allNList, hg.1]
  · rw [anonBlock, allN_anon]
    simp [linesAlone, singleLine, lineBox_ty, allNList, hg.2, isCls]

/-! ### the second loop -/

theorem not_line_of_level {t : Ty} (h : isBlockLevel t = true ∨ isInlineLevel t = true) : t ≠ .line := by
  cases t <;> simp_all [isCls]

theorem iibLoop_good (pa : Attrs) : ∀ (cs line out : List Box),
    (∀ c ∈ cs, c.ty ≠ .line ∧ (isBlockLevel c.ty = true ∨ isInlineLevel c.ty = true) ∧ Good c) →
    (∀ o ∈ out, isBlockLevel o.ty = true ∧ Good o) →
    (∀ l ∈ line, l.ty ≠ .line ∧ Good l) →
    ∃ r, iibLoop pa cs line out = .ok r ∧
      ((∀ o ∈ r, isBlockLevel o.ty = true ∧ Good o) ∨ (∃ l, r = [l] ∧ l.ty = .line ∧ Good l))
  | [], line, out, _, ho, hl => by
    rw [iibLoop]
    cases hline : line.isEmpty
    · cases hout : out.isEmpty
      · simp only [Bool.not_false, Bool.false_eq_true, if_false, if_true, pure, Except.pure]
        refine ⟨_, rfl, Or.inl ?_⟩
        intro o hm
        rcases List.mem_append.1 hm with hm | hm
        · exact ho o hm
        · rw [List.mem_singleton] at hm; subst hm
          exact ⟨by simp [anonBlock_ty, isCls], good_anonBlock pa line hl⟩
      · simp only [Bool.not_true, Bool.false_eq_true, if_false, pure, Except.pure]
        exact ⟨_, rfl, Or.inr ⟨_, rfl, lineBox_ty _ _, good_lineBox pa line hl⟩⟩
    · simp only [if_true, pure, Except.pure]
      exact ⟨_, rfl, Or.inl ho⟩
  | c :: cs, line, out, hc, ho, hl => by
    have hc0 := hc c (List.mem_cons_self ..)
    have hcs : ∀ c' ∈ cs, c'.ty ≠ .line ∧ (isBlockLevel c'.ty = true ∨ isInlineLevel c'.ty = true) ∧ Good c' :=
      fun c' h' => hc c' (List.mem_cons_of_mem _ h')
    have hl' : ∀ l ∈ line ++ [c], l.ty ≠ .line ∧ Good l := by
      intro l hm
      rcases List.mem_append.1 hm with hm | hm
      · exact hl l hm
      · rw [List.mem_singleton] at hm; subst hm; exact ⟨hc0.1, hc0.2.2⟩
    rw [iibLoop]
    have hne : (c.ty == Ty.line) = false := by simpa using hc0.1
    simp only [hne, Bool.false_eq_true, if_false]
    split
    · exact iibLoop_good pa cs _ _ hcs ho hl'
    · split
      · split
        · exact iibLoop_good pa cs _ _ hcs ho hl'
        · exact iibLoop_good pa cs _ _ hcs ho hl
      · rename_i hnil
        have hbl : isBlockLevel c.ty = true := by
          rcases hc0.2.1 with h | h
          · exact h
          · exfalso; apply hnil; simp [h]
        apply iibLoop_good pa cs _ _ hcs
        · intro o hm
          rcases List.mem_append.1 hm with hm | hm
          · split at hm
            · rcases List.mem_append.1 hm with hm | hm
              · exact ho o hm
              · rw [List.mem_singleton] at hm; subst hm
                exact ⟨by simp [anonBlock_ty, isCls], good_anonBlock pa line hl⟩
            · exact ho o hm
          · rw [List.mem_singleton] at hm; subst hm; exact ⟨hbl, hc0.2.2⟩
        · intro l hm; cases hm

/-! ### the pass -/

theorem preIIB_kids {ty : Ty} {a : Attrs} {kids : List Box} (h : preIIB ty a kids = true) :
    (∀ k ∈ kids, k.ty ≠ .line) ∧
    (isBlockContainer ty = true → ∀ k ∈ kids, isBlockLevel k.ty = true ∨ isInlineLevel k.ty = true) := by
  simp only [preIIB, Bool.and_eq_true, Bool.or_eq_true, List.all_eq_true] at h
  refine ⟨fun k hk => by simpa using h.1 k hk, fun hb k hk => ?_⟩
  rcases h.2 with h2 | h2
  · simp [hb] at h2
  · exact h2 k hk

theorem bcOK_of_result {ty : Ty} {a : Attrs} {r : List Box}
    (h : (∀ o ∈ r, isBlockLevel o.ty = true ∧ Good o) ∨ (∃ l, r = [l] ∧ l.ty = .line ∧ Good l)) :
    bcOK ty a r = true ∧ allNList bcOK r = true ∧ allNList linesAlone r = true ∧
      (isBlockContainer ty = true → linesAlone ty a r = true) := by
  rcases h with h | ⟨l, rfl, hty, hg⟩
  · refine ⟨?_, ?_, ?_, fun _ => ?_⟩
    · simp only [bcOK, blockContainerOK, Bool.or_eq_true, List.all_eq_true]
      exact Or.inl (Or.inr fun o ho => (h o ho).1)
    · rw [allNList_iff]; exact fun k hk => (h k hk).2.1
    · rw [allNList_iff]; exact fun k hk => (h k hk).2.2
    · simp only [linesAlone, Bool.or_eq_true, List.all_eq_true]
      refine Or.inl fun o ho => ?_
      have := not_line_of_level (Or.inl (h o ho).1)
      simpa using this
  · refine ⟨?_, ?_, ?_, fun hb => ?_⟩
    · simp [bcOK, blockContainerOK, singleLine, hty]
    · simp [allNList, hg.1]
    · simp [allNList, hg.2]
    · simp [linesAlone, singleLine, hty, hb]

mutual
  theorem inlineInBlock_wf_aux : ∀ (b : Box), allN preIIB b = true →
      ∃ b', inlineInBlock b = .ok b' ∧ b'.ty = b.ty ∧ b'.a = b.a ∧ Good b'
    | .mk ty a kids cols, h => by
      rw [inlineInBlock]
      rw [allN_mk] at h
      cases hr : a.running
      · rw [hr] at h
        simp only [Bool.false_or, Bool.and_eq_true] at h
        obtain ⟨hp, hks⟩ := h
        cases kids with
        | nil =>
          simp only [List.isEmpty_nil, Bool.true_or, if_true, pure, Except.pure]
          refine ⟨_, rfl, rfl, rfl, ?_, ?_⟩
          · simp [allN_mk, bcOK, blockContainerOK, allNList]
          · simp [allN_mk, linesAlone, allNList]
        | cons k0 kt =>
          obtain ⟨ks', hok, hbc, hla, hpres⟩ := inlineInBlockList_wf_aux (k0 :: kt) hks
          obtain ⟨hnl, hlev⟩ := preIIB_kids hp
          simp only [List.isEmpty_cons, Bool.false_or, Bool.false_eq_true, if_false, hok, bind, Except.bind]
          cases hb : isBlockContainer ty
          · simp only [Bool.not_false, if_true, pure, Except.pure]
            refine ⟨_, rfl, rfl, rfl, ?_, ?_⟩
            · simp [allN_mk, bcOK, blockContainerOK, hb, hbc]
            · simp only [allN_mk, hla, Bool.and_true, Bool.or_eq_true, linesAlone, List.all_eq_true]
              refine Or.inr (Or.inl fun k' hk' => ?_)
              obtain ⟨k, hk, hty, _⟩ := hpres k' hk'
              simpa [hty] using hnl k hk
          · simp only [Bool.not_true, Bool.false_eq_true, if_false]
            have hcs : ∀ c ∈ ks', c.ty ≠ .line ∧
                (isBlockLevel c.ty = true ∨ isInlineLevel c.ty = true) ∧ Good c := by
              intro c hc
              obtain ⟨k, hk, hty, _⟩ := hpres c hc
              refine ⟨by rw [hty]; exact hnl k hk, by rw [hty]; exact hlev hb k hk, ?_, ?_⟩
              · exact (allNList_iff _ _).1 hbc c hc
              · exact (allNList_iff _ _).1 hla c hc
            obtain ⟨r, hr', hres⟩ := iibLoop_good a ks' [] [] hcs (fun _ h => nomatch h) (fun _ h => nomatch h)
            obtain ⟨h1, h2, h3, h4⟩ := bcOK_of_result (ty := ty) (a := a) hres
            simp only [hr', pure, Except.pure]
            refine ⟨_, rfl, rfl, rfl, ?_, ?_⟩
            · simp [allN_mk, h1, h2]
            · simp [allN_mk, h3, h4 hb]
      · simp only [Bool.or_true, if_true, pure, Except.pure]
        exact ⟨_, rfl, rfl, rfl, by simp [allN_mk, hr], by simp [allN_mk, hr]⟩
  theorem inlineInBlockList_wf_aux : ∀ (ks : List Box), allNList preIIB ks = true →
      ∃ ks', inlineInBlockList ks = .ok ks' ∧ allNList bcOK ks' = true ∧ allNList linesAlone ks' = true ∧
        (∀ k' ∈ ks', ∃ k ∈ ks, k'.ty = k.ty ∧ k'.a = k.a)
    | [], _ => by
      rw [inlineInBlockList]
      exact ⟨[], rfl, by simp [allNList], by simp [allNList], fun _ h => nomatch h⟩
    | k :: ks, h => by
      rw [allNList, Bool.and_eq_true] at h
      obtain ⟨ks', hok, hbc, hla, hpres⟩ := inlineInBlockList_wf_aux ks h.2
      rw [inlineInBlockList]
      split
      · refine ⟨ks', hok, hbc, hla, fun k' hk' => ?_⟩
        obtain ⟨k1, hk1, h1⟩ := hpres k' hk'
        exact ⟨k1, List.mem_cons_of_mem _ hk1, h1⟩
      · obtain ⟨k', hok', hty, ha, hg⟩ := inlineInBlock_wf_aux k h.1
        simp only [hok', hok, bind, Except.bind, pure, Except.pure]
        refine ⟨_, rfl, by simp [allNList, hg.1, hbc], by simp [allNList, hg.2, hla], fun x hx => ?_⟩
        rcases List.mem_cons.1 hx with rfl | hx
        · exact ⟨k, List.mem_cons_self .., hty, ha⟩
        · obtain ⟨k1, hk1, h1⟩ := hpres x hx
          exact ⟨k1, List.mem_cons_of_mem _ hk1, h1⟩
end

/-- `inlineInBlock` never fails on a tree of shape `preIIB`, keeps the type and attributes of the root,
    and establishes `bcOK` and `linesAlone` at every box (outside running subtrees). -/
theorem inlineInBlock_wf (b : Box) (h : allN preIIB b = true) :
    ∃ b', inlineInBlock b = .ok b' ∧ b'.ty = b.ty ∧ b'.a = b.a ∧
      allN bcOK b' = true ∧ allN linesAlone b' = true := by
  obtain ⟨b', h1, h2, h3, h4, h5⟩ := inlineInBlock_wf_aux b h
  exact ⟨b', h1, h2, h3, h4, h5⟩

/-- list version: the surviving children keep their types and attributes -/
theorem inlineInBlockList_wf (ks : List Box) (h : allNList preIIB ks = true) :
    ∃ ks', inlineInBlockList ks = .ok ks' ∧ allNList bcOK ks' = true ∧ allNList linesAlone ks' = true ∧
      (∀ k' ∈ ks', ∃ k ∈ ks, k'.ty = k.ty ∧ k'.a = k.a) :=
  inlineInBlockList_wf_aux ks h

/-! ### non-vacuity -/

/-- a block holding text "a", a block with a text child, text "b" -/
def exIIB : Box :=
  .mk .block {} [
    .mk .text { text := "a" } [] [],
    .mk .block {} [.mk .text { text := "c" } [] []] [],
    .mk .text { text := "b" } [] []] []

example : allN preIIB exIIB = true := by decide

/-- the pass wraps the two text runs in anonymous blocks holding one line box each, and the inner
    block's text in a line box -/
example : ∃ b', inlineInBlock exIIB = .ok b' ∧ allN bcOK b' = true ∧ allN linesAlone b' = true ∧
    (b'.kids.map Box.ty) = [.block, .block, .block] ∧
    (b'.kids.map fun k => k.kids.map Box.ty) = [[.line], [.line], [.line]] :=
  ⟨_, rfl, by decide, by decide, by decide, by decide⟩

end WR.C09
