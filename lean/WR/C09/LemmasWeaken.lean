/-
  C09 — the weakened spec (`gridOKw` / `nodeOKw` / `wfw` of Shape2.lean) really is weaker than the
  spec (`gridOK` / `nodeOK` / `wf` of Spec.lean).  Core Lean only.
-/
import WR.C09.LemmasGrid
import WR.C09.Shape2
namespace WR.C09

/-- the top-row slots of a cell that spans at least one row are the first block of its slots -/
theorem wk_top_sublist_cell (r : Nat) (c : Box) (h : 1 ≤ c.a.rowspan) :
    ((List.range' c.a.gridX c.a.colspan).map fun x => (r, x)).Sublist (cellSlots r c) := by
  unfold cellSlots
  obtain ⟨n, hn⟩ : ∃ n, c.a.rowspan = n + 1 := ⟨c.a.rowspan - 1, by omega⟩
  rw [hn, List.range'_succ, List.flatMap_cons]
  exact List.sublist_append_left _ _

theorem wk_top_sublist_cells (r : Nat) (cells : List Box) (h : ∀ c ∈ cells, 1 ≤ c.a.rowspan) :
    (cells.flatMap fun c => (List.range' c.a.gridX c.a.colspan).map fun x => (r, x)).Sublist
      (cells.flatMap (cellSlots r)) := by
  induction cells with
  | nil => exact List.Sublist.refl _
  | cons c cs ih =>
    rw [List.flatMap_cons, List.flatMap_cons]
    exact List.Sublist.append (wk_top_sublist_cell r c (h c List.mem_cons_self))
      (ih (fun d hd => h d (List.mem_cons_of_mem _ hd)))

/-- the generalised statement: `groupSlotsFrom r rows` is a part of the duplicate-free `all` -/
theorem wk_go (all : List (Nat × Nat)) (hall : all.Nodup) :
    ∀ (rows : List Box) (r : Nat), (groupSlotsFrom r rows).Sublist all →
      (∀ row ∈ rows, ∀ c ∈ rowCells row, 1 ≤ c.a.colspan ∧ 1 ≤ c.a.rowspan) →
      firstSlotsOK.go all r rows = true := by
  intro rows
  induction rows with
  | nil => intro r _ _; rfl
  | cons row rows ih =>
    intro r hsub hsp
    rw [go_cons]
    simp only [Bool.and_eq_true]
    have hsub' : (rowSlots r row ++ groupSlotsFrom (r + 1) rows).Sublist all := hsub
    have hrow : (rowSlots r row).Sublist all := (List.sublist_append_left _ _).trans hsub'
    have hrest : (groupSlotsFrom (r + 1) rows).Sublist all := (List.sublist_append_right _ _).trans hsub'
    have hcells := hsp row List.mem_cons_self
    refine ⟨⟨?_, ?_⟩, ih (r + 1) hrest (fun row' h' => hsp row' (List.mem_cons_of_mem _ h'))⟩
    · rw [List.all_eq_true]
      intro c hc
      have hc1 := hcells c hc
      have hmem : (r, c.a.gridX) ∈ all := by
        apply hrow.subset
        simp only [rowSlots, List.mem_flatMap]
        refine ⟨c, hc, (mem_cellSlots r c r c.a.gridX).mpr ?_⟩
        omega
      have hcnt : List.count (r, c.a.gridX) all = 1 := by
        rw [hall.count, if_pos hmem]
      rw [List.count_eq_length_filter] at hcnt
      rw [hcnt]
      simp
    · rw [nodup_iff]
      have hs := wk_top_sublist_cells r (rowCells row) (fun c hc => (hcells c hc).2)
      have hs2 : (rowSlots r row).Nodup := List.Nodup.sublist hrow hall
      exact List.Nodup.sublist hs hs2

theorem wk_firstSlotsOK (kids : List Box) (hn : nodup (groupSlotsFrom 0 kids) = true)
    (hsp : kids.all (fun row => (rowCells row).all (fun c => c.a.colspan ≥ 1 && c.a.rowspan ≥ 1)) = true) :
    firstSlotsOK kids = true := by
  unfold firstSlotsOK
  apply wk_go _ ((nodup_iff _).mp hn) kids 0 (List.Sublist.refl _)
  intro row hrow c hc
  rw [List.all_eq_true] at hsp
  have h1 := hsp row hrow
  rw [List.all_eq_true] at h1
  have h2 := h1 c hc
  simp only [ge_iff_le, Bool.and_eq_true, decide_eq_true_eq] at h2
  exact h2

theorem gridOKw_of_gridOK (ty : Ty) (kids : List Box) (h : gridOK ty kids = true) : gridOKw ty kids = true := by
  unfold gridOK at h
  unfold gridOKw
  cases hty : (ty == Ty.tableRowGroup)
  · simp
  · rw [hty] at h
    simp only [Bool.not_true, Bool.false_or, Bool.and_eq_true] at h ⊢
    obtain ⟨⟨h1, h2⟩, h3⟩ := h
    exact ⟨⟨wk_firstSlotsOK kids h1 h3, h2⟩, h3⟩

theorem nodeOKw_of_nodeOK (ty : Ty) (a : Attrs) (kids cols : List Box) (h : nodeOK ty a kids cols = true) :
    nodeOKw ty a kids cols = true := by
  unfold nodeOK at h
  unfold nodeOKw
  simp only [Bool.and_eq_true] at h ⊢
  obtain ⟨⟨⟨⟨⟨⟨h1, h2⟩, h3⟩, h4⟩, h5⟩, h6⟩, h7⟩ := h
  exact ⟨⟨⟨⟨⟨⟨h1, h2⟩, h3⟩, h4⟩, h5⟩, gridOKw_of_gridOK ty kids h6⟩, h7⟩

mutual
  theorem wk_allW_mono (p q : Ty → Attrs → List Box → List Box → Bool)
      (hpq : ∀ ty a kids cols, p ty a kids cols = true → q ty a kids cols = true) :
      ∀ b : Box, allW p b = true → allW q b = true
    | .mk ty a kids cols => by
      intro h
      unfold allW at h ⊢
      simp only [Bool.or_eq_true, Bool.and_eq_true] at h ⊢
      rcases h with h | ⟨⟨h1, h2⟩, h3⟩
      · exact Or.inl h
      · exact Or.inr ⟨⟨hpq _ _ _ _ h1, wk_allWList_mono p q hpq kids h2⟩, wk_allWList_mono p q hpq cols h3⟩
  theorem wk_allWList_mono (p q : Ty → Attrs → List Box → List Box → Bool)
      (hpq : ∀ ty a kids cols, p ty a kids cols = true → q ty a kids cols = true) :
      ∀ ks : List Box, allWList p ks = true → allWList q ks = true
    | [] => by intro _; unfold allWList; rfl
    | k :: ks => by
      intro h
      unfold allWList at h ⊢
      simp only [Bool.and_eq_true] at h ⊢
      exact ⟨wk_allW_mono p q hpq k h.1, wk_allWList_mono p q hpq ks h.2⟩
end

theorem wfw_of_wf (b : Box) (h : wf b = true) : wfw b = true := by
  rw [wf_eq_allW] at h
  exact wk_allW_mono nodeOK nodeOKw nodeOKw_of_nodeOK b h

end WR.C09
