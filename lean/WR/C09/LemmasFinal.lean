/-
  C09 — the composition of the five passes (uses every lemma file).
-/
import WR.C09.LemmasPostTable
import WR.C09.LemmasPostGrid
import WR.C09.LemmasPostInline
namespace WR.C09

theorem createAnonymous_of_stages (b t i o : Box) (h1 : anonTable b = .ok t)
    (h2 : inlineInBlock (gridBoxes (flexBoxes t)) = .ok i) (h3 : blockInInline i = .ok o) :
    createAnonymousBox b = .ok o := by
  simp [createAnonymousBox, createAnonymousStages, h1, h2, h3, bind, Except.bind, pure, Except.pure]

theorem root_after_table (b r : Box) (h : anonTable b = .ok r) (hb : isBlockLevel b.ty = true)
    (hi : b.ty ≠ .inlineTable) (hr : b.a.running = false) :
    isBlockLevel r.ty = true ∧ isTable r.ty = false := by
  obtain ⟨r', h', h1, h2⟩ := anonTable_root b
  rw [h] at h'; injection h' with h'; subst h'
  cases ht : isTable b.ty with
  | false =>
    rw [h1 ht]; exact ⟨hb, ht⟩
  | true =>
    obtain ⟨_, _, wa, capT, capB, a', rg, cg, hshape, _⟩ := h2 ht hr
    have hne : (b.ty == Ty.inlineTable) = false := by
      cases hty : b.ty <;> simp_all
    rw [hshape]
    show isBlockLevel (if (b.ty == Ty.inlineTable) = true then Ty.inlineBlock else Ty.block) = true ∧
         isTable (if (b.ty == Ty.inlineTable) = true then Ty.inlineBlock else Ty.block) = false
    rw [hne]
    decide

/-- the composition of the five passes on every raw tree -/
theorem createAnonymous_wfw (b : Box) (h : allW pt_rawOK b = true) (hb : isBlockLevel b.ty = true)
    (hi : b.ty ≠ .inlineTable) (hr : b.a.running = false) :
    ∃ r, createAnonymousBox b = .ok r ∧ wfw r = true ∧ isBlockLevel r.ty = true ∧ isTable r.ty = false := by
  obtain ⟨t, ht, hpt, _, _⟩ := anonTable_postTable_blockRoot b h hb
  obtain ⟨hroot1, hroot2⟩ := root_after_table b t ht hb hi hr
  obtain ⟨hpg, hty, _⟩ := flexGrid_postGrid t hpt
  obtain ⟨i, o, hi1, ho1, hoty, _, hok⟩ := inlinePasses_wfw_blockLevel _ hpg (by rw [hty]; exact hroot1)
  refine ⟨o, createAnonymous_of_stages b t i o ht hi1 ho1, hok, ?_, ?_⟩
  · rw [hoty, hty]; exact hroot1
  · rw [hoty, hty]; exact hroot2

end WR.C09
