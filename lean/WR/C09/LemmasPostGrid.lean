/-
  C09 — FlexBoxes ∘ GridBoxes take the shape left by the table pass (`postTable` at every box reachable
  through kids and cols, `allW`) to `postGrid` (= `postTable` + the flex/grid clause of `WF`).

  Structure (as in LemmasFlex, but for `allW`, which also walks `cols`, and for a predicate that is not
  attribute-blind):
  * `postTable` reads of the children only `ty`, `a` (`pg_strip`) and, at a row group, the attributes of
    the cells of the non-running rows (`pg_sig`); the recursive calls preserve both (`pg_postTable_congr`);
  * `postTable` reads of the box's own attributes only `tw` (`pg_postTable_attrs`), so setting `fi`/`gi`
    is invisible;
  * type analysis at a flex/grid container (`pg_kid_level`), then `flexKids_blockified` /
    `gridKids_blockified`; the anonymous wrappers satisfy `postTable` (`pg_postTable_block`);
  * `cols` are not touched by the passes; below a table they hold column groups of columns, none of which
    is a flex/grid container (`pg_col`, `pg_cols_ok`);
  * two passes, each a `mutual` pair over `Box` / `List Box`, with the intermediate predicate `pg_midPG`.
-/
import WR.C09.LemmasFlex
import WR.C09.Shape2
namespace WR.C09

/-- a box without its children and columns -/
def pg_strip (c : Box) : Box := .mk c.ty c.a [] []

/-- what the grid clauses read of a row: the attributes of the cells looked at -/
def pg_sig (row : Box) : List Attrs := (rowCells row).map Box.a

theorem pg_all_strip (q : Box → Bool) (hq : ∀ c, q c = q (pg_strip c)) {ks' ks : List Box}
    (h : ks'.map pg_strip = ks.map pg_strip) : ks'.all q = ks.all q := by
  have e : ∀ l : List Box, l.all q = (l.map pg_strip).all q := by
    intro l; rw [List.all_map]; congr 1; funext c; exact hq c
  rw [e ks', e ks, h]

theorem pg_filter_strip (q : Box → Bool) (hq : ∀ c, q c = q (pg_strip c)) {ks' ks : List Box}
    (h : ks'.map pg_strip = ks.map pg_strip) : (ks'.filter q).length = (ks.filter q).length := by
  have e : ∀ l : List Box, (l.filter q).length = ((l.map pg_strip).filter q).length := by
    intro l; rw [List.filter_map, List.length_map]; congr 2; funext c; exact hq c
  rw [e ks', e ks, h]

theorem pg_length_of_map {α β : Type} (f : α → β) {ks' ks : List α} (h : ks'.map f = ks.map f) :
    ks'.length = ks.length := by
  have := congrArg List.length h
  simpa using this

theorem pg_isEmpty_of_map {α β : Type} (f : α → β) {ks' ks : List α} (h : ks'.map f = ks.map f) :
    ks'.isEmpty = ks.isEmpty := by
  have := pg_length_of_map f h
  cases ks' <;> cases ks <;> simp_all

/-! ### the grid clause only reads `pg_sig` of the rows -/

theorem pg_row_all (g : Attrs → Bool) {row' row : Box} (hs : pg_sig row' = pg_sig row) :
    (rowCells row').all (fun c => g c.a) = (rowCells row).all (fun c => g c.a) := by
  have e : ∀ r : Box, (rowCells r).all (fun c => g c.a) = (pg_sig r).all g := by
    intro r; unfold pg_sig; rw [List.all_map]; rfl
  rw [e, e, hs]

theorem pg_row_flatMap {β : Type} (g : Attrs → List β) {row' row : Box} (hs : pg_sig row' = pg_sig row) :
    (rowCells row').flatMap (fun c => g c.a) = (rowCells row).flatMap (fun c => g c.a) := by
  have e : ∀ r : Box, (rowCells r).flatMap (fun c => g c.a) = (pg_sig r).flatMap g := by
    intro r; unfold pg_sig; rw [List.flatMap_map]
  rw [e, e, hs]

theorem pg_rowSlots (r : Nat) {row' row : Box} (hs : pg_sig row' = pg_sig row) :
    rowSlots r row' = rowSlots r row :=
  pg_row_flatMap (fun a => (List.range' r a.rowspan).flatMap fun y => (List.range' a.gridX a.colspan).map fun x => (y, x)) hs

theorem pg_groupSlotsFrom : ∀ (ks' ks : List Box) (r : Nat), ks'.map pg_sig = ks.map pg_sig →
    groupSlotsFrom r ks' = groupSlotsFrom r ks
  | [], [], _, _ => rfl
  | [], _ :: _, _, h => by simp at h
  | _ :: _, [], _, h => by simp at h
  | k' :: ks', k :: ks, r, h => by
    simp only [List.map_cons, List.cons.injEq] at h
    unfold groupSlotsFrom
    rw [pg_rowSlots r h.1, pg_groupSlotsFrom ks' ks (r + 1) h.2]

theorem pg_go (all : List (Nat × Nat)) : ∀ (ks' ks : List Box) (r : Nat), ks'.map pg_sig = ks.map pg_sig →
    firstSlotsOK.go all r ks' = firstSlotsOK.go all r ks
  | [], [], _, _ => rfl
  | [], _ :: _, _, h => by simp at h
  | _ :: _, [], _, h => by simp at h
  | k' :: ks', k :: ks, r, h => by
    simp only [List.map_cons, List.cons.injEq] at h
    unfold firstSlotsOK.go
    rw [pg_go all ks' ks (r + 1) h.2,
      pg_row_all (fun a => a.rowspan == 0 || a.colspan == 0 || (all.filter (· == (r, a.gridX))).length == 1) h.1,
      pg_row_flatMap (fun a => (List.range' a.gridX a.colspan).map fun x => (r, x)) h.1]

theorem pg_rows_all : ∀ (ks' ks : List Box), ks'.map pg_sig = ks.map pg_sig →
    ks'.all (fun row => (rowCells row).all (fun c => decide (c.a.colspan ≥ 1) && decide (c.a.rowspan ≥ 1))) =
    ks.all (fun row => (rowCells row).all (fun c => decide (c.a.colspan ≥ 1) && decide (c.a.rowspan ≥ 1)))
  | [], [], _ => rfl
  | [], _ :: _, h => by simp at h
  | _ :: _, [], h => by simp at h
  | k' :: ks', k :: ks, h => by
    simp only [List.map_cons, List.cons.injEq] at h
    rw [List.all_cons, List.all_cons, pg_rows_all ks' ks h.2,
      pg_row_all (fun a => decide (a.colspan ≥ 1) && decide (a.rowspan ≥ 1)) h.1]

theorem pg_gridOKw (ty : Ty) {ks' ks : List Box} (h : ks'.map pg_sig = ks.map pg_sig) :
    gridOKw ty ks' = gridOKw ty ks := by
  unfold gridOKw firstSlotsOK
  simp only
  rw [pg_groupSlotsFrom ks' ks 0 h, pg_go _ ks' ks 0 h, pg_rows_all ks' ks h, pg_length_of_map _ h]


theorem pg_beq (x y : Ty) : (x == y) = decide (x = y) := by cases h : x == y <;> simp_all

/-! ### `postTable` reads of the children only `ty`, `a` and (at a row group) `pg_sig` -/

theorem pg_childAllowed_strip (ty : Ty) (a : Attrs) (c : Box) : childAllowed ty a c = childAllowed ty a (pg_strip c) := by
  cases c; rfl

theorem pg_postTable_congr (ty : Ty) (a : Attrs) {ks' ks : List Box} (cols : List Box)
    (h : ks'.map pg_strip = ks.map pg_strip) (hs : ty = .tableRowGroup → ks'.map pg_sig = ks.map pg_sig) :
    postTable ty a ks' cols = postTable ty a ks cols := by
  have hg : gridOKw ty ks' = gridOKw ty ks := by
    by_cases ht : ty = .tableRowGroup
    · exact pg_gridOKw ty (hs ht)
    · have : (ty == Ty.tableRowGroup) = false := by simpa using ht
      simp [gridOKw, this]
  unfold postTable tableKidsOK
  rw [hg, pg_isEmpty_of_map _ h,
    pg_all_strip (fun c => rawTy c.ty) (fun c => by cases c; rfl) h,
    pg_all_strip (childAllowed ty a) (pg_childAllowed_strip ty a) h,
    pg_all_strip (fun c => c.ty == .tableCaption || isTable c.ty) (fun c => by cases c; rfl) h,
    pg_all_strip (fun c => c.ty == .tableRowGroup) (fun c => by cases c; rfl) h,
    pg_all_strip (fun c => c.ty == .tableRow) (fun c => by cases c; rfl) h,
    pg_all_strip (fun c => c.ty == .tableCell) (fun c => by cases c; rfl) h,
    pg_all_strip (fun c => c.ty == .tableColumn) (fun c => by cases c; rfl) h,
    pg_filter_strip (fun c => isTable c.ty) (fun c => by cases c; rfl) h]

/-- `postTable` reads of the box's own attributes only `tw` -/
theorem pg_postTable_attrs (ty : Ty) {a' a : Attrs} (ks cols : List Box) (h : a'.tw = a.tw) :
    postTable ty a' ks cols = postTable ty a ks cols := by
  have hc : childAllowed ty a' = childAllowed ty a := by
    funext c; unfold childAllowed; rw [h]
  unfold postTable tableKidsOK
  rw [hc, h]

/-- at a flex or grid container the table clause does not look at the children -/
theorem pg_tableKidsOK_fg (ty : Ty) (a : Attrs) (ks ks' cols : List Box)
    (hc : (isFlexContainer ty || isGridContainer ty) = true) :
    tableKidsOK ty a ks' cols = tableKidsOK ty a ks cols := by
  cases ty <;> first | (simp [isCls] at hc; done) | rfl

theorem pg_gridOKw_fg (ty : Ty) (ks : List Box) (hc : (isFlexContainer ty || isGridContainer ty) = true) :
    gridOKw ty ks = true := by
  cases ty <;> first | (simp [isCls] at hc; done) | rfl

/-- type analysis: below a flex or grid container satisfying `postTable` every child is block-level or
    inline-level -/
theorem pg_kid_level (ty : Ty) (a : Attrs) (ks cols : List Box) (c : Box)
    (hc : (isFlexContainer ty || isGridContainer ty) = true)
    (ht : tableKidsOK ty a ks cols = true) (hr : rawTy c.ty = true) (ha : childAllowed ty a c = true) :
    (isBlockLevel c.ty || isInlineLevel c.ty) = true := by
  have htw : a.tw = false := by
    cases ty <;> first | (simp [isCls] at hc; done) | (simp [tableKidsOK, isCls] at ht; exact ht.1)
  cases c with
  | mk t ca k cl =>
    simp only [Box.ty] at *
    cases ty <;> first | (simp [isCls] at hc; done) | (cases t <;> simp [childAllowed, Box.ty, htw, isCls, rawTy] at ha hr ⊢)


/-! ### `allW` helpers -/

theorem pg_allW_mk (p : Ty → Attrs → List Box → List Box → Bool) (ty : Ty) (a : Attrs) (kids cols : List Box) :
    allW p (.mk ty a kids cols) = (a.running || (p ty a kids cols && allWList p kids && allWList p cols)) := by
  rw [allW]

theorem pg_allWList_cons (p : Ty → Attrs → List Box → List Box → Bool) (k : Box) (ks : List Box) :
    allWList p (k :: ks) = (allW p k && allWList p ks) := by
  rw [allWList]

theorem pg_allWList_nil (p : Ty → Attrs → List Box → List Box → Bool) : allWList p [] = true := by
  rw [allWList]

mutual
  theorem pg_allW_mono (p q : Ty → Attrs → List Box → List Box → Bool)
      (hpq : ∀ ty a ks cs, p ty a ks cs = true → q ty a ks cs = true) :
      ∀ b : Box, allW p b = true → allW q b = true
    | .mk ty a kids cols, h => by
      rw [pg_allW_mk] at h ⊢
      cases hr : a.running with
      | true => rfl
      | false =>
        simp only [hr, Bool.false_or, Bool.and_eq_true] at h ⊢
        exact ⟨⟨hpq _ _ _ _ h.1.1, pg_allWList_mono p q hpq kids h.1.2⟩, pg_allWList_mono p q hpq cols h.2⟩
  theorem pg_allWList_mono (p q : Ty → Attrs → List Box → List Box → Bool)
      (hpq : ∀ ty a ks cs, p ty a ks cs = true → q ty a ks cs = true) :
      ∀ ks : List Box, allWList p ks = true → allWList q ks = true
    | [], _ => pg_allWList_nil q
    | k :: ks, h => by
      rw [pg_allWList_cons, Bool.and_eq_true] at h ⊢
      exact ⟨pg_allW_mono p q hpq k h.1, pg_allWList_mono p q hpq ks h.2⟩
end

/-- changing attributes other than `running` and `tw` does not change `allW p` when `p` reads only `tw` -/
theorem pg_allW_setA (p : Ty → Attrs → List Box → List Box → Bool)
    (hp : ∀ ty (a a' : Attrs) ks cs, a'.tw = a.tw → p ty a' ks cs = p ty a ks cs) :
    ∀ (k : Box) (a' : Attrs), a'.running = k.a.running → a'.tw = k.a.tw → allW p (k.setA a') = allW p k
  | .mk ty a kids cols, a', h, h2 => by
    simp only [Box.setA, Box.ty, Box.kids, Box.cols, Box.a] at h h2 ⊢
    rw [pg_allW_mk, pg_allW_mk, h, hp ty a a' kids cols h2]

/-! ### the intermediate predicate -/

/-- between the two passes: `postTable`, and flex containers are already blockified -/
def pg_midPG (ty : Ty) (a : Attrs) (kids cols : List Box) : Bool :=
  postTable ty a kids cols && (!isFlexContainer ty || kids.all (fun c => isBlockLevel c.ty))

theorem pg_midPG_attrs (ty : Ty) (a a' : Attrs) (ks cs : List Box) (h : a'.tw = a.tw) :
    pg_midPG ty a' ks cs = pg_midPG ty a ks cs := by
  unfold pg_midPG; rw [pg_postTable_attrs ty ks cs h]

theorem pg_postGrid_attrs (ty : Ty) (a a' : Attrs) (ks cs : List Box) (h : a'.tw = a.tw) :
    postGrid ty a' ks cs = postGrid ty a ks cs := by
  unfold postGrid; rw [pg_postTable_attrs ty ks cs h]

/-- an anonymous block around one inline-level box satisfies `postTable` -/
theorem pg_postTable_block (wa : Attrs) (c : Box) (hw : wa.tw = false) (hi : isInlineLevel c.ty = true)
    (hr : rawTy c.ty = true) : postTable .block wa [c] [] = true := by
  cases c with
  | mk t ca k cl =>
    simp only [Box.ty] at hi hr
    cases t <;> first
      | (simp [isCls] at hi; done)
      | (simp [rawTy] at hr; simp [postTable, tableKidsOK, gridOKw, childAllowed, hw, isCls, rawTy, Box.ty, Box.a])

theorem pg_midPG_block (wa : Attrs) (c : Box) (hw : wa.tw = false) (hi : isInlineLevel c.ty = true)
    (hr : rawTy c.ty = true) : pg_midPG .block wa [c] [] = true := by
  unfold pg_midPG; rw [pg_postTable_block wa c hw hi hr]; rfl

theorem pg_postGrid_block (wa : Attrs) (c : Box) (hw : wa.tw = false) (hi : isInlineLevel c.ty = true)
    (hr : rawTy c.ty = true) : postGrid .block wa [c] [] = true := by
  unfold postGrid; rw [pg_postTable_block wa c hw hi hr]; rfl


/-! ### flexKids / gridKids -/

/-- what `postTable` asks of every child beyond `childAllowed` -/
abbrev pg_rawKid (c : Box) : Bool := rawTy c.ty

theorem pg_flexKids_all (q : Box → Bool)
    (hq : ∀ (c : Box) (a' : Attrs), a'.running = c.a.running → q (c.setA a') = q c)
    (hb : ∀ (wa : Attrs) (k : Box), q (.mk .block wa [k] []) = true) (pa : Attrs) :
    ∀ ks : List Box, ks.all q = true → (flexKids pa ks).all q = true
  | [], _ => by simp [flexKids]
  | k :: ks, h => by
    rw [List.all_cons, Bool.and_eq_true] at h
    have ih := pg_flexKids_all q hq hb pa ks h.2
    have hc1 : q (if !k.a.absPos then k.setA { k.a with fi := true } else k) = true := by
      split
      · exact (hq k _ (by rfl)).trans h.1
      · exact h.1
    unfold flexKids
    simp only
    split
    · exact ih
    · split
      · rw [List.all_cons, hb, ih]; rfl
      · rw [List.all_cons, hc1, ih]; rfl

theorem pg_gridKids_all (q : Box → Bool)
    (hq : ∀ (c : Box) (a' : Attrs), a'.running = c.a.running → q (c.setA a') = q c)
    (hb : ∀ (wa : Attrs) (k : Box), q (.mk .block wa [k] []) = true) :
    ∀ ks : List Box, ks.all q = true → (gridKids ks).all q = true
  | [], _ => by simp [gridKids]
  | k :: ks, h => by
    rw [List.all_cons, Bool.and_eq_true] at h
    have ih := pg_gridKids_all q hq hb ks h.2
    have hc1 : q (if !k.a.absPos then k.setA { k.a with gi := true } else k) = true := by
      split
      · exact (hq k _ (by rfl)).trans h.1
      · exact h.1
    unfold gridKids
    simp only
    split
    · exact ih
    · split
      · rw [List.all_cons, hb, ih]; rfl
      · rw [List.all_cons, hc1, ih]; rfl

theorem pg_rawKid_setA (c : Box) (a' : Attrs) (h : a'.running = c.a.running) : pg_rawKid (c.setA a') = pg_rawKid c := by
  cases c; rfl

theorem pg_childAllowed_setA (ty : Ty) (a : Attrs) (c : Box) (a' : Attrs) (h : a'.running = c.a.running) :
    childAllowed ty a (c.setA a') = childAllowed ty a c := by
  cases c; simp only [childAllowed, Box.setA, Box.ty, Box.a] at h ⊢; rw [h]

/-- flexKids keeps `allW p` when `p` reads only `tw` of the attributes and accepts an anonymous block
    around one inline-level child -/
theorem pg_flexKids_allW (p : Ty → Attrs → List Box → List Box → Bool)
    (hp : ∀ ty (a a' : Attrs) ks cs, a'.tw = a.tw → p ty a' ks cs = p ty a ks cs)
    (hb : ∀ (wa : Attrs) (c : Box), wa.tw = false → isInlineLevel c.ty = true → pg_rawKid c = true →
      p .block wa [c] [] = true) (pa : Attrs) :
    ∀ ks : List Box, ks.all pg_rawKid = true → allWList p ks = true → allWList p (flexKids pa ks) = true
  | [], _, _ => by simp [flexKids, allWList]
  | k :: ks, hq, h => by
    rw [List.all_cons, Bool.and_eq_true] at hq
    rw [pg_allWList_cons, Bool.and_eq_true] at h
    have ih := pg_flexKids_allW p hp hb pa ks hq.2 h.2
    have hc1 : allW p (if !k.a.absPos then k.setA { k.a with fi := true } else k) = true := by
      split
      · exact (pg_allW_setA p hp k _ (by rfl) (by rfl)).trans h.1
      · exact h.1
    have hc2 : pg_rawKid (if !k.a.absPos then k.setA { k.a with fi := true } else k) = true := by
      split
      · exact (pg_rawKid_setA k _ (by rfl)).trans hq.1
      · exact hq.1
    have hc3 : (if !k.a.absPos then k.setA { k.a with fi := true } else k).ty = k.ty := by
      split <;> rfl
    unfold flexKids
    simp only
    split
    · exact ih
    · split
      · rename_i hi
        rw [pg_allWList_cons, pg_allW_mk, pg_allWList_cons, pg_allWList_nil, hc1, ih,
          hb _ _ (by rfl) (by rw [hc3]; exact hi) hc2]
        simp
      · rw [pg_allWList_cons, hc1, ih]; rfl

/-- gridKids likewise (the wrapper copies `running` from the child — QUIRK — which only makes
    `allW p wrapper` true outright) -/
theorem pg_gridKids_allW (p : Ty → Attrs → List Box → List Box → Bool)
    (hp : ∀ ty (a a' : Attrs) ks cs, a'.tw = a.tw → p ty a' ks cs = p ty a ks cs)
    (hb : ∀ (wa : Attrs) (c : Box), wa.tw = false → isInlineLevel c.ty = true → pg_rawKid c = true →
      p .block wa [c] [] = true) :
    ∀ ks : List Box, ks.all pg_rawKid = true → allWList p ks = true → allWList p (gridKids ks) = true
  | [], _, _ => by simp [gridKids, allWList]
  | k :: ks, hq, h => by
    rw [List.all_cons, Bool.and_eq_true] at hq
    rw [pg_allWList_cons, Bool.and_eq_true] at h
    have ih := pg_gridKids_allW p hp hb ks hq.2 h.2
    have hc1 : allW p (if !k.a.absPos then k.setA { k.a with gi := true } else k) = true := by
      split
      · exact (pg_allW_setA p hp k _ (by rfl) (by rfl)).trans h.1
      · exact h.1
    have hc2 : allW p (k.setA { k.a with gi := false }) = true :=
      (pg_allW_setA p hp k _ (by rfl) (by rfl)).trans h.1
    have hc3 : pg_rawKid (k.setA { k.a with gi := false }) = true :=
      (pg_rawKid_setA k _ (by rfl)).trans hq.1
    unfold gridKids
    simp only
    split
    · exact ih
    · split
      · rename_i hi
        rw [pg_allWList_cons, pg_allW_mk, pg_allWList_cons, pg_allWList_nil, hc2, ih,
          hb _ _ (by rfl) (by exact hi) hc3]
        simp
      · rw [pg_allWList_cons, hc1, ih]; rfl


/-! ### what the passes preserve of a list of boxes -/

theorem pg_flexBoxesList_strip : ∀ ks : List Box, (flexBoxesList ks).map pg_strip = ks.map pg_strip
  | [] => by simp [flexBoxesList]
  | k :: ks => by
    unfold flexBoxesList
    simp only [List.map_cons]
    rw [pg_flexBoxesList_strip ks]
    congr 1
    unfold pg_strip
    rw [(flexBoxes_ty k).1, (flexBoxes_ty k).2]

theorem pg_gridBoxesList_strip : ∀ ks : List Box, (gridBoxesList ks).map pg_strip = ks.map pg_strip
  | [] => by simp [gridBoxesList]
  | k :: ks => by
    unfold gridBoxesList
    simp only [List.map_cons]
    rw [pg_gridBoxesList_strip ks]
    congr 1
    unfold pg_strip
    rw [(gridBoxes_ty k).1, (gridBoxes_ty k).2]

theorem pg_flexBoxesList_a : ∀ ks : List Box, (flexBoxesList ks).map Box.a = ks.map Box.a
  | [] => by simp [flexBoxesList]
  | k :: ks => by
    unfold flexBoxesList
    simp only [List.map_cons]
    rw [pg_flexBoxesList_a ks, (flexBoxes_ty k).2]

theorem pg_gridBoxesList_a : ∀ ks : List Box, (gridBoxesList ks).map Box.a = ks.map Box.a
  | [] => by simp [gridBoxesList]
  | k :: ks => by
    unfold gridBoxesList
    simp only [List.map_cons]
    rw [pg_gridBoxesList_a ks, (gridBoxes_ty k).2]

theorem pg_flexBoxes_sig : ∀ b : Box, isFlexContainer b.ty = false → pg_sig (flexBoxes b) = pg_sig b
  | .mk ty a kids cols, h => by
    simp only [Box.ty] at h
    unfold flexBoxes
    split
    · rfl
    · simp only [h, Bool.false_eq_true, if_false]
      cases hr : a.running with
      | true => simp [pg_sig, rowCells, Box.a, hr]
      | false => simpa [pg_sig, rowCells, Box.a, Box.kids, hr] using pg_flexBoxesList_a kids

theorem pg_gridBoxes_sig : ∀ b : Box, isGridContainer b.ty = false → pg_sig (gridBoxes b) = pg_sig b
  | .mk ty a kids cols, h => by
    simp only [Box.ty] at h
    unfold gridBoxes
    split
    · rfl
    · simp only [h, Bool.false_eq_true, if_false]
      cases hr : a.running with
      | true => simp [pg_sig, rowCells, Box.a, hr]
      | false => simpa [pg_sig, rowCells, Box.a, Box.kids, hr] using pg_gridBoxesList_a kids

theorem pg_flexBoxesList_sig : ∀ ks : List Box, (∀ k ∈ ks, isFlexContainer k.ty = false) →
    (flexBoxesList ks).map pg_sig = ks.map pg_sig
  | [], _ => by simp [flexBoxesList]
  | k :: ks, h => by
    unfold flexBoxesList
    simp only [List.map_cons]
    rw [pg_flexBoxesList_sig ks (fun x hx => h x (List.mem_cons_of_mem _ hx)),
      pg_flexBoxes_sig k (h k (List.mem_cons_self ..))]

theorem pg_gridBoxesList_sig : ∀ ks : List Box, (∀ k ∈ ks, isGridContainer k.ty = false) →
    (gridBoxesList ks).map pg_sig = ks.map pg_sig
  | [], _ => by simp [gridBoxesList]
  | k :: ks, h => by
    unfold gridBoxesList
    simp only [List.map_cons]
    rw [pg_gridBoxesList_sig ks (fun x hx => h x (List.mem_cons_of_mem _ hx)),
      pg_gridBoxes_sig k (h k (List.mem_cons_self ..))]

/-! ### destructing `postTable` -/

theorem pg_postTable_parts {ty : Ty} {a : Attrs} {kids cols : List Box} (h : postTable ty a kids cols = true) :
    rawTy ty = true ∧ (isParent ty || kids.isEmpty) = true ∧ kids.all pg_rawKid = true ∧
    kids.all (childAllowed ty a) = true ∧ tableKidsOK ty a kids cols = true ∧ gridOKw ty kids = true ∧
    (!(ty == .tableColumn) || kids.isEmpty) = true := by
  unfold postTable at h
  simp only [Bool.and_eq_true] at h
  obtain ⟨⟨⟨⟨⟨⟨h1, h2⟩, h3⟩, h4⟩, h5⟩, h6⟩, h7⟩ := h
  exact ⟨h1, h2, h3, h4, h5, h6, h7⟩

theorem pg_postTable_mk {ty : Ty} {a : Attrs} {kids cols : List Box}
    (h1 : rawTy ty = true) (h2 : (isParent ty || kids.isEmpty) = true) (h3 : kids.all pg_rawKid = true)
    (h4 : kids.all (childAllowed ty a) = true) (h5 : tableKidsOK ty a kids cols = true) (h6 : gridOKw ty kids = true)
    (h7 : (!(ty == .tableColumn) || kids.isEmpty) = true) : postTable ty a kids cols = true := by
  unfold postTable
  simp only [Bool.and_eq_true]
  exact ⟨⟨⟨⟨⟨⟨h1, h2⟩, h3⟩, h4⟩, h5⟩, h6⟩, h7⟩

theorem pg_tk_cols_nil {ty : Ty} {a : Attrs} {kids cols : List Box} (h : tableKidsOK ty a kids cols = true)
    (hn : isTable ty = false) : cols = [] := by
  unfold tableKidsOK at h
  simp only [Bool.and_eq_true] at h
  simpa [hn] using h.2

theorem pg_tk_rows {a : Attrs} {kids cols : List Box} (h : tableKidsOK .tableRowGroup a kids cols = true) :
    ∀ k ∈ kids, k.ty = .tableRow := by
  unfold tableKidsOK at h
  simp only [Bool.and_eq_true] at h
  simpa using h.1.1.1.2

theorem pg_tk_columns {a : Attrs} {kids cols : List Box} (h : tableKidsOK .tableColumnGroup a kids cols = true) :
    ∀ k ∈ kids, k.ty = .tableColumn := by
  unfold tableKidsOK at h
  simp only [Bool.and_eq_true] at h
  simpa using h.1.2

theorem pg_tk_colgroups {ty : Ty} {a : Attrs} {kids cols : List Box} (h : tableKidsOK ty a kids cols = true)
    (ht : isTable ty = true) : ∀ g ∈ cols, g.ty = .tableColumnGroup := by
  unfold tableKidsOK at h
  simp only [Bool.and_eq_true] at h
  have := h.1.1.1.1.2
  simp only [ht, Bool.not_true, Bool.false_or, Bool.and_eq_true, List.all_eq_true] at this
  intro g hg
  simpa using (this.2 g hg).1

/-! ### the column groups stored in `cols` are not touched and contain no flex/grid container -/

mutual
  theorem pg_col : ∀ b : Box, (b.ty = .tableColumn ∨ b.ty = .tableColumnGroup) →
      allW postTable b = true → allW postGrid b = true
    | .mk ty a kids cols, ht, h => by
      rw [pg_allW_mk] at h ⊢
      cases hr : a.running with
      | true => rfl
      | false =>
        simp only [hr, Bool.false_or, Bool.and_eq_true] at h ⊢
        obtain ⟨⟨hp, hk⟩, hc⟩ := h
        simp only [Box.ty] at ht
        obtain ⟨_, _, _, _, h5, _, h7⟩ := pg_postTable_parts hp
        have hnt : isTable ty = false := by rcases ht with rfl | rfl <;> rfl
        have hcols : cols = [] := pg_tk_cols_nil h5 hnt
        have hkids : ∀ k ∈ kids, (k.ty = .tableColumn ∨ k.ty = .tableColumnGroup) := by
          rcases ht with rfl | rfl
          · have : kids = [] := by simpa using h7
            subst this; intro k hk; cases hk
          · intro k hk; exact Or.inl (pg_tk_columns h5 k hk)
        refine ⟨⟨?_, pg_colList kids hkids hk⟩, ?_⟩
        · unfold postGrid; rw [hp]
          rcases ht with rfl | rfl <;> rfl
        · subst hcols; exact pg_allWList_nil _
  theorem pg_colList : ∀ ks : List Box, (∀ k ∈ ks, (k.ty = .tableColumn ∨ k.ty = .tableColumnGroup)) →
      allWList postTable ks = true → allWList postGrid ks = true
    | [], _, _ => pg_allWList_nil _
    | k :: ks, ht, h => by
      rw [pg_allWList_cons, Bool.and_eq_true] at h ⊢
      exact ⟨pg_col k (ht k (List.mem_cons_self ..)) h.1,
        pg_colList ks (fun x hx => ht x (List.mem_cons_of_mem _ hx)) h.2⟩
end

theorem pg_cols_ok {ty : Ty} {a : Attrs} {kids cols : List Box} (h5 : tableKidsOK ty a kids cols = true)
    (hc : allWList postTable cols = true) : allWList postGrid cols = true := by
  cases ht : isTable ty with
  | false => rw [pg_tk_cols_nil h5 ht]; exact pg_allWList_nil _
  | true => exact pg_colList cols (fun g hg => Or.inr (pg_tk_colgroups h5 ht g hg)) hc

theorem pg_postGrid_midPG (ty : Ty) (a : Attrs) (ks cs : List Box) (h : postGrid ty a ks cs = true) :
    pg_midPG ty a ks cs = true := by
  unfold postGrid at h
  unfold pg_midPG
  simp only [Bool.and_eq_true] at h ⊢
  refine ⟨h.1, ?_⟩
  have := h.2
  unfold flexGridOK at this
  cases hf : isFlexContainer ty with
  | false => rfl
  | true => simpa [hf] using this

theorem pg_midPG_postTable (ty : Ty) (a : Attrs) (ks cs : List Box) (h : pg_midPG ty a ks cs = true) :
    postTable ty a ks cs = true := by
  unfold pg_midPG at h
  simp only [Bool.and_eq_true] at h
  exact h.1


/-! ### the local step at a container -/

theorem pg_fg_notcol (ty : Ty) (hc : (isFlexContainer ty || isGridContainer ty) = true) :
    (ty == .tableColumn) = false := by
  cases ty <;> first | (simp [isCls] at hc; done) | rfl

theorem pg_fg_parent (ty : Ty) (hc : (isFlexContainer ty || isGridContainer ty) = true) :
    isParent ty = true := by
  cases ty <;> first | (simp [isCls] at hc; done) | rfl

/-- every child of a flex or grid container satisfying `postTable` is block-level or inline-level -/
theorem pg_kids_level {ty : Ty} {a : Attrs} {ks cols : List Box}
    (hc : (isFlexContainer ty || isGridContainer ty) = true) (hpt : postTable ty a ks cols = true) :
    ∀ k ∈ ks, (isBlockLevel k.ty || isInlineLevel k.ty) = true := by
  obtain ⟨_, _, h3, h4, h5, _, _⟩ := pg_postTable_parts hpt
  intro k hk
  have h3k := fg_mem_of_all h3 k hk
  have h4k := fg_mem_of_all h4 k hk
  simp only [pg_rawKid] at h3k
  exact pg_kid_level ty a ks cols k hc h5 h3k h4k

theorem pg_flex_node (ty : Ty) (a : Attrs) (ks cols : List Box) (hf : isFlexContainer ty = true)
    (hpt : postTable ty a ks cols = true) :
    postTable ty a (flexKids a ks) cols = true ∧ (flexKids a ks).all (fun c => isBlockLevel c.ty) = true := by
  have hc : (isFlexContainer ty || isGridContainer ty) = true := by rw [hf]; rfl
  have hlev := pg_kids_level hc hpt
  obtain ⟨h1, _, h3, h4, h5, _, _⟩ := pg_postTable_parts hpt
  refine ⟨pg_postTable_mk h1 ?_ ?_ ?_ ?_ (pg_gridOKw_fg ty _ hc) ?_, fg_all_of_mem (flexKids_blockified a ks hlev)⟩
  · rw [pg_fg_parent ty hc]; rfl
  · exact pg_flexKids_all pg_rawKid pg_rawKid_setA (fun _ _ => rfl) a ks h3
  · exact pg_flexKids_all (childAllowed ty a) (pg_childAllowed_setA ty a) (fun _ _ => rfl) a ks h4
  · rw [pg_tableKidsOK_fg ty a ks _ cols hc]; exact h5
  · rw [pg_fg_notcol ty hc]; rfl

theorem pg_grid_node (ty : Ty) (a : Attrs) (ks cols : List Box) (hg : isGridContainer ty = true)
    (hpt : postTable ty a ks cols = true) :
    postTable ty a (gridKids ks) cols = true ∧ (gridKids ks).all (fun c => isBlockLevel c.ty) = true := by
  have hc : (isFlexContainer ty || isGridContainer ty) = true := by rw [hg]; simp
  have hlev := pg_kids_level hc hpt
  obtain ⟨h1, _, h3, h4, h5, _, _⟩ := pg_postTable_parts hpt
  refine ⟨pg_postTable_mk h1 ?_ ?_ ?_ ?_ (pg_gridOKw_fg ty _ hc) ?_, fg_all_of_mem (gridKids_blockified ks hlev)⟩
  · rw [pg_fg_parent ty hc]; rfl
  · exact pg_gridKids_all pg_rawKid pg_rawKid_setA (fun _ _ => rfl) ks h3
  · exact pg_gridKids_all (childAllowed ty a) (pg_childAllowed_setA ty a) (fun _ _ => rfl) ks h4
  · rw [pg_tableKidsOK_fg ty a ks _ cols hc]; exact h5
  · rw [pg_fg_notcol ty hc]; rfl

/-- the recursive calls on the children keep `postTable` of the parent -/
theorem pg_postTable_flexList (ty : Ty) (a : Attrs) (kids cols : List Box) (hpt : postTable ty a kids cols = true) :
    postTable ty a (flexBoxesList kids) cols = true := by
  rw [pg_postTable_congr ty a cols (pg_flexBoxesList_strip kids)]
  · exact hpt
  · intro hty
    subst hty
    obtain ⟨_, _, _, _, h5, _, _⟩ := pg_postTable_parts hpt
    exact pg_flexBoxesList_sig kids (fun k hk => by rw [pg_tk_rows h5 k hk]; rfl)

theorem pg_postTable_gridList (ty : Ty) (a : Attrs) (kids cols : List Box) (hpt : postTable ty a kids cols = true) :
    postTable ty a (gridBoxesList kids) cols = true := by
  rw [pg_postTable_congr ty a cols (pg_gridBoxesList_strip kids)]
  · exact hpt
  · intro hty
    subst hty
    obtain ⟨_, _, _, _, h5, _, _⟩ := pg_postTable_parts hpt
    exact pg_gridBoxesList_sig kids (fun k hk => by rw [pg_tk_rows h5 k hk]; rfl)

/-! ### the two passes -/

mutual
  theorem flexBoxes_midPG : ∀ b : Box, allW postTable b = true → allW pg_midPG (flexBoxes b) = true
    | .mk ty a kids cols, h => by
      rw [pg_allW_mk] at h
      unfold flexBoxes
      cases hr : a.running with
      | true => simp [pg_allW_mk, hr]
      | false =>
        simp only [hr, Bool.false_or, Bool.and_eq_true] at h
        obtain ⟨⟨hpt, hk⟩, hc⟩ := h
        obtain ⟨_, h2, _, _, h5, _, _⟩ := pg_postTable_parts hpt
        have hcols : allWList pg_midPG cols = true :=
          pg_allWList_mono _ _ pg_postGrid_midPG cols (pg_cols_ok h5 hc)
        cases hp : isParent ty with
        | false =>
          have hnil : kids = [] := by simpa [hp] using h2
          subst hnil
          simp only [Bool.not_false, Bool.true_or, if_true]
          rw [pg_allW_mk, hr, Bool.false_or, pg_allWList_nil, hcols, pg_midPG, hpt]
          simp
        | true =>
          have ihk := flexBoxesList_midPG kids hk
          have hpt' := pg_postTable_flexList ty a kids cols hpt
          simp only [Bool.not_true, Bool.false_or, Bool.false_eq_true, if_false]
          rw [pg_allW_mk, hr, Bool.false_or, Bool.and_eq_true, Bool.and_eq_true]
          cases hf : isFlexContainer ty with
          | true =>
            simp only [if_true]
            obtain ⟨hn, hb⟩ := pg_flex_node ty a _ cols hf hpt'
            refine ⟨⟨?_, ?_⟩, hcols⟩
            · rw [pg_midPG, hn, hb]; simp
            · exact pg_flexKids_allW pg_midPG pg_midPG_attrs pg_midPG_block a _ (pg_postTable_parts hpt').2.2.1 ihk
          | false =>
            simp only [Bool.false_eq_true, if_false]
            refine ⟨⟨?_, ihk⟩, hcols⟩
            rw [pg_midPG, hpt', hf]; rfl
  theorem flexBoxesList_midPG : ∀ ks : List Box, allWList postTable ks = true →
      allWList pg_midPG (flexBoxesList ks) = true
    | [], _ => by simp [flexBoxesList, allWList]
    | k :: ks, h => by
      rw [pg_allWList_cons, Bool.and_eq_true] at h
      unfold flexBoxesList
      rw [pg_allWList_cons, flexBoxes_midPG k h.1, flexBoxesList_midPG ks h.2]; rfl
end

mutual
  theorem gridBoxes_postGrid : ∀ b : Box, allW pg_midPG b = true → allW postGrid (gridBoxes b) = true
    | .mk ty a kids cols, h => by
      rw [pg_allW_mk] at h
      unfold gridBoxes
      cases hr : a.running with
      | true => simp [pg_allW_mk, hr]
      | false =>
        simp only [hr, Bool.false_or, Bool.and_eq_true] at h
        obtain ⟨⟨hmid, hk⟩, hc⟩ := h
        have hpt := pg_midPG_postTable _ _ _ _ hmid
        obtain ⟨_, h2, _, _, h5, _, _⟩ := pg_postTable_parts hpt
        have hcols : allWList postGrid cols = true :=
          pg_cols_ok h5 (pg_allWList_mono _ _ pg_midPG_postTable cols hc)
        cases hp : isParent ty with
        | false =>
          have hnil : kids = [] := by simpa [hp] using h2
          subst hnil
          simp only [Bool.not_false, Bool.true_or, if_true]
          rw [pg_allW_mk, hr, Bool.false_or, pg_allWList_nil, hcols, postGrid, hpt]
          simp [flexGridOK]
        | true =>
          have ihk := gridBoxesList_postGrid kids hk
          have hpt' := pg_postTable_gridList ty a kids cols hpt
          simp only [Bool.not_true, Bool.false_or, Bool.false_eq_true, if_false]
          rw [pg_allW_mk, hr, Bool.false_or, Bool.and_eq_true, Bool.and_eq_true]
          cases hg : isGridContainer ty with
          | true =>
            simp only [if_true]
            obtain ⟨hn, hb⟩ := pg_grid_node ty a _ cols hg hpt'
            refine ⟨⟨?_, ?_⟩, hcols⟩
            · rw [postGrid, hn, flexGridOK, hb]; simp
            · exact pg_gridKids_allW postGrid pg_postGrid_attrs pg_postGrid_block _ (pg_postTable_parts hpt').2.2.1 ihk
          | false =>
            simp only [Bool.false_eq_true, if_false]
            refine ⟨⟨?_, ihk⟩, hcols⟩
            rw [postGrid, hpt', flexGridOK, hg]
            cases hf : isFlexContainer ty with
            | false => rfl
            | true =>
              have hb : kids.all (fun c => isBlockLevel c.ty) = true := by
                unfold pg_midPG at hmid
                rw [Bool.and_eq_true] at hmid
                simpa [hf] using hmid.2
              simp only [Bool.or_false, Bool.not_true, Bool.false_or, Bool.true_and]
              exact fg_all_of_mem (gridBoxesList_tys kids (fun t => isBlockLevel t) (fg_mem_of_all hb))
  theorem gridBoxesList_postGrid : ∀ ks : List Box, allWList pg_midPG ks = true →
      allWList postGrid (gridBoxesList ks) = true
    | [], _ => by simp [gridBoxesList, allWList]
    | k :: ks, h => by
      rw [pg_allWList_cons, Bool.and_eq_true] at h
      unfold gridBoxesList
      rw [pg_allWList_cons, gridBoxes_postGrid k h.1, gridBoxesList_postGrid ks h.2]; rfl
end

/-- FlexBoxes then GridBoxes turn the shape left by the table pass into `postGrid` and keep the root's
    type and attributes -/
theorem flexGrid_postGrid (t : Box) (h : allW postTable t = true) :
    allW postGrid (gridBoxes (flexBoxes t)) = true ∧
    (gridBoxes (flexBoxes t)).ty = t.ty ∧ (gridBoxes (flexBoxes t)).a = t.a :=
  ⟨gridBoxes_postGrid _ (flexBoxes_midPG t h),
   (gridBoxes_ty _).1.trans (flexBoxes_ty t).1, (gridBoxes_ty _).2.trans (flexBoxes_ty t).2⟩

/-! ### non-vacuity: a flex container with a text, an inline and a block child -/

def pg_example : Box :=
  .mk .block {} [
    .mk .flex { el := 8 } [
      .mk .text { el := 8, text := "x" } [] [],
      .mk .inline { el := 16 } [.mk .text { el := 16, text := "y" } [] []] [],
      .mk .block { el := 24 } [] []
    ] []
  ] []

example : allW postTable pg_example = true := by decide

example : allW postGrid pg_example = false := by decide

example : allW postGrid (gridBoxes (flexBoxes pg_example)) = true := (flexGrid_postGrid _ (by decide)).1

example : ((gridBoxes (flexBoxes pg_example)).kids.map (fun f => (f.ty, f.kids.map Box.ty))) =
    [(.flex, [.block, .block, .block])] := by decide

/-- a wrapped table with a stored column group whose single cell holds a grid container with an inline
    child: exercises the `cols` walk, the row-group clause and the gridKids wrapper -/
def pg_example2 : Box :=
  .mk .block {} [
    .mk .block { el := 8, tw := true } [
      .mk .table { el := 8 } [
        .mk .tableRowGroup { el := 8 } [
          .mk .tableRow { el := 8 } [
            .mk .tableCell { el := 16, colspan := 1, rowspan := 1 } [
              .mk .grid { el := 24 } [
                .mk .inline { el := 32 } [.mk .text { el := 32, text := "z" } [] []] []
              ] []
            ] []
          ] []
        ] []
      ] [.mk .tableColumnGroup { el := 8 } [.mk .tableColumn { el := 8 } [] []] []]
    ] []
  ] []

example : allW postTable pg_example2 = true := by decide

example : allW postGrid pg_example2 = false := by decide

example : allW postGrid (gridBoxes (flexBoxes pg_example2)) = true := (flexGrid_postGrid _ (by decide)).1

/-
  Status: everything stated in this file is proved (no `sorry`, no axioms beyond the core ones).
  Main results: `flexBoxes_midPG`, `gridBoxes_postGrid`, `flexGrid_postGrid`.  Nothing is left open.
-/

end WR.C09
