/-
  C09 — tree-shape predicates shared by the lemma files and the property theorems:
  "p holds at every box reachable through `kids` without entering a running box", and the
  shapes that hold between the passes.
-/
import WR.C09.Spec
namespace WR.C09

mutual
  /-- `p` holds at every box reachable through `kids` without entering a running box -/
  def allN (p : Ty → Attrs → List Box → Bool) : Box → Bool
    | .mk ty a kids _ => a.running || (p ty a kids && allNList p kids)
  def allNList (p : Ty → Attrs → List Box → Bool) : List Box → Bool
    | [] => true
    | k :: ks => allN p k && allNList p ks
end

/-- shape before InlineInBlock (established by the table / flex / grid passes): no line box yet, and the
    children of a block container are block-level or inline-level -/
def preIIB (ty : Ty) (_ : Attrs) (kids : List Box) : Bool :=
  kids.all (fun c => !(c.ty == .line)) &&
  (!isBlockContainer ty || kids.all (fun c => isBlockLevel c.ty || isInlineLevel c.ty))

/-- the block-container clause of `WF` at one box -/
def bcOK (ty : Ty) (_ : Attrs) (kids : List Box) : Bool := blockContainerOK ty kids

/-- a line box is always the only child of a block container -/
def linesAlone (ty : Ty) (_ : Attrs) (kids : List Box) : Bool :=
  kids.all (fun c => !(c.ty == .line)) || (isBlockContainer ty && singleLine kids)

mutual
  /-- no in-flow block-level box is reachable from this (line or inline) box through inline boxes -/
  def noFlowBlock : Box → Bool
    | .mk _ _ kids _ => noFlowBlockList kids
  def noFlowBlockList : List Box → Bool
    | [] => true
    | c :: cs => !(isBlockLevel c.ty && inNormalFlow c.a) && (!(c.ty == .inline) || noFlowBlock c) && noFlowBlockList cs
end

/-- every line box among the children is free of in-flow block-level boxes (through inline boxes) -/
def linesClean (_ : Ty) (_ : Attrs) (kids : List Box) : Bool :=
  kids.all (fun c => !(c.ty == .line) || noFlowBlock c)

mutual
  /-- no inline box reachable from this (line or inline) box through inline boxes is running -/
  def noRunningInline : Box → Bool
    | .mk _ _ kids _ => noRunningInlineList kids
  def noRunningInlineList : List Box → Bool
    | [] => true
    | c :: cs => (!(c.ty == .inline) || (!c.a.running && noRunningInline c)) && noRunningInlineList cs
end

/-- the line boxes among the children contain no running inline box -/
def linesNoRunningInline (_ : Ty) (_ : Attrs) (kids : List Box) : Bool :=
  kids.all (fun c => !(c.ty == .line) || noRunningInline c)

end WR.C09
