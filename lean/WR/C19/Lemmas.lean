/-
  C19 — helper lemmas about the digit loops, `collect`, `concat`, `repeatStr`.
-/
import WR.C19.Model
namespace WR.C19

/-- value of a little-endian digit list in base `L` -/
def evalLE (L : Nat) : List Nat → Nat
  | [] => 0
  | d :: ds => d + L * evalLE L ds

/-- value of a little-endian digit list in bijective base `L` (digit `d` stands for `d+1`) -/
def evalBij (L : Nat) : List Nat → Nat
  | [] => 0
  | d :: ds => (d + 1) + L * evalBij L ds

/-! ### numeric -/

theorem numLoop_zero (L fuel : Nat) : numLoop L fuel 0 = [] := by
  cases fuel <;> simp [numLoop]

theorem numLoop_fuel (L : Nat) (hL : 2 ≤ L) : ∀ f1 f2 v, v ≤ f1 → v ≤ f2 → numLoop L f1 v = numLoop L f2 v := by
  intro f1
  induction f1 with
  | zero => intro f2 v h1 _; have : v = 0 := by omega
            subst this; simp [numLoop_zero, numLoop]
  | succ n ih =>
    intro f2 v h1 h2
    cases f2 with
    | zero => have : v = 0 := by omega
              subst this; simp [numLoop]
    | succ m =>
      simp only [numLoop]
      by_cases hv : v = 0
      · simp [hv]
      · simp only [hv, if_false]
        have hd : v / L < v := Nat.div_lt_self (by omega) (by omega)
        rw [ih m (v / L) (by omega) (by omega)]

theorem numDigits_zero (L : Nat) : numDigits L 0 = [] := by simp [numDigits, numLoop]

theorem numDigits_unfold (L : Nat) (hL : 2 ≤ L) (v : Nat) (hv : v ≠ 0) :
    numDigits L v = (v % L) :: numDigits L (v / L) := by
  unfold numDigits
  cases v with
  | zero => exact absurd rfl hv
  | succ n =>
    simp only [numLoop, hv, if_false]
    have hd : (n + 1) / L < n + 1 := Nat.div_lt_self (by omega) (by omega)
    rw [numLoop_fuel L hL n ((n + 1) / L) ((n + 1) / L) (by omega) (by omega)]

theorem numDigits_eval (L : Nat) (hL : 2 ≤ L) (v : Nat) : evalLE L (numDigits L v) = v := by
  induction v using Nat.strongRecOn with
  | _ v ih =>
    by_cases hv : v = 0
    · subst hv; simp [numDigits_zero, evalLE]
    · rw [numDigits_unfold L hL v hv]
      simp only [evalLE]
      rw [ih (v / L) (Nat.div_lt_self (by omega) (by omega))]
      exact Nat.mod_add_div v L

theorem numDigits_lt (L : Nat) (hL : 2 ≤ L) (v : Nat) : ∀ d ∈ numDigits L v, d < L := by
  induction v using Nat.strongRecOn with
  | _ v ih =>
    by_cases hv : v = 0
    · subst hv; simp [numDigits_zero]
    · rw [numDigits_unfold L hL v hv]
      intro d hd
      rcases List.mem_cons.mp hd with h | h
      · subst h; exact Nat.mod_lt _ (by omega)
      · exact ih (v / L) (Nat.div_lt_self (by omega) (by omega)) d h

theorem numDigits_ne_nil (L : Nat) (hL : 2 ≤ L) (v : Nat) (hv : v ≠ 0) : numDigits L v ≠ [] := by
  rw [numDigits_unfold L hL v hv]; simp

/-- the most significant digit (last of the little-endian list) is not zero -/
theorem numDigits_getLast (L : Nat) (hL : 2 ≤ L) (v : Nat) (h : numDigits L v ≠ []) :
    (numDigits L v).getLast h ≠ 0 := by
  induction v using Nat.strongRecOn with
  | _ v ih =>
    by_cases hv : v = 0
    · subst hv; exact absurd (numDigits_zero L) h
    · have hu := numDigits_unfold L hL v hv
      by_cases hq : v / L = 0
      · have : numDigits L v = [v % L] := by rw [hu, hq, numDigits_zero]
        simp only [this, List.getLast_singleton]
        have : v < L := by
          rcases Nat.div_eq_zero_iff.mp hq with h0 | h0
          · omega
          · exact h0
        rw [Nat.mod_eq_of_lt this]; exact hv
      · have hne := numDigits_ne_nil L hL (v / L) hq
        have h2 := ih (v / L) (Nat.div_lt_self (by omega) (by omega)) hne
        have : (numDigits L v).getLast h = (numDigits L (v / L)).getLast hne := by
          simp only [hu]; exact List.getLast_cons hne
        rw [this]; exact h2

/-- base-`L` numerals are unique: a digit list with digits `< L`, no zero most-significant digit, that
    evaluates to `v`, is the one the loop produces -/
theorem numDigits_unique (L : Nat) (hL : 2 ≤ L) : ∀ (ds : List Nat) (v : Nat),
    (∀ d ∈ ds, d < L) → (∀ h : ds ≠ [], ds.getLast h ≠ 0) → evalLE L ds = v → ds = numDigits L v := by
  intro ds
  induction ds with
  | nil => intro v _ _ he; simp [evalLE] at he; subst he; simp [numDigits_zero]
  | cons d ds ih =>
    intro v hlt hlast he
    simp only [evalLE] at he
    have hd : d < L := hlt d (List.mem_cons_self ..)
    have hrest := ih (evalLE L ds) (fun x hx => hlt x (List.mem_cons_of_mem _ hx))
      (fun h => by have := hlast (by simp); rwa [List.getLast_cons h] at this) rfl
    have hv : v ≠ 0 := by
      intro h0
      subst h0
      have hd0 : d = 0 := by omega
      have he0 : evalLE L ds = 0 := by
        have : L * evalLE L ds = 0 := by omega
        rcases Nat.mul_eq_zero.mp this with h | h
        · omega
        · exact h
      rw [he0, numDigits_zero] at hrest
      subst hrest; subst hd0
      exact hlast (by simp) (by simp)
    rw [numDigits_unfold L hL v hv]
    have h1 : v % L = d := by
      rw [← he, Nat.add_mul_mod_self_left]; exact Nat.mod_eq_of_lt hd
    have h2 : v / L = evalLE L ds := by
      rw [← he, Nat.add_mul_div_left _ _ (by omega : 0 < L), Nat.div_eq_of_lt hd]; simp
    rw [h1, h2, ← hrest]

/-! ### alphabetic -/

theorem alphaLoop_zero (L fuel : Nat) : alphaLoop L fuel 0 = [] := by
  cases fuel <;> simp [alphaLoop]

theorem alphaLoop_fuel (L : Nat) (hL : 1 ≤ L) : ∀ f1 f2 v, v ≤ f1 → v ≤ f2 → alphaLoop L f1 v = alphaLoop L f2 v := by
  intro f1
  induction f1 with
  | zero => intro f2 v h1 _; have : v = 0 := by omega
            subst this; simp [alphaLoop_zero, alphaLoop]
  | succ n ih =>
    intro f2 v h1 h2
    cases f2 with
    | zero => have : v = 0 := by omega
              subst this; simp [alphaLoop]
    | succ m =>
      simp only [alphaLoop]
      by_cases hv : v = 0
      · simp [hv]
      · simp only [hv, if_false]
        have hd : (v - 1) / L ≤ v - 1 := Nat.div_le_self _ _
        rw [ih m ((v - 1) / L) (by omega) (by omega)]

theorem alphaDigits_zero (L : Nat) : alphaDigits L 0 = [] := by simp [alphaDigits, alphaLoop]

theorem alphaDigits_unfold (L : Nat) (hL : 1 ≤ L) (v : Nat) (hv : v ≠ 0) :
    alphaDigits L v = ((v - 1) % L) :: alphaDigits L ((v - 1) / L) := by
  unfold alphaDigits
  cases v with
  | zero => exact absurd rfl hv
  | succ n =>
    simp only [alphaLoop, hv, if_false]
    have hd : (n + 1 - 1) / L ≤ n + 1 - 1 := Nat.div_le_self _ _
    rw [alphaLoop_fuel L hL n ((n + 1 - 1) / L) ((n + 1 - 1) / L) (by omega) (by omega)]

theorem alphaDigits_eval (L : Nat) (hL : 1 ≤ L) (v : Nat) : evalBij L (alphaDigits L v) = v := by
  induction v using Nat.strongRecOn with
  | _ v ih =>
    by_cases hv : v = 0
    · subst hv; simp [alphaDigits_zero, evalBij]
    · rw [alphaDigits_unfold L hL v hv]
      simp only [evalBij]
      have hd : (v - 1) / L ≤ v - 1 := Nat.div_le_self _ _
      rw [ih ((v - 1) / L) (by omega)]
      have := Nat.mod_add_div (v - 1) L
      omega

theorem alphaDigits_lt (L : Nat) (hL : 1 ≤ L) (v : Nat) : ∀ d ∈ alphaDigits L v, d < L := by
  induction v using Nat.strongRecOn with
  | _ v ih =>
    by_cases hv : v = 0
    · subst hv; simp [alphaDigits_zero]
    · rw [alphaDigits_unfold L hL v hv]
      intro d hd
      have hq : (v - 1) / L ≤ v - 1 := Nat.div_le_self _ _
      rcases List.mem_cons.mp hd with h | h
      · subst h; exact Nat.mod_lt _ (by omega)
      · exact ih ((v - 1) / L) (by omega) d h

/-- bijective: every digit string is the numeral of its value -/
theorem alphaDigits_of_eval (L : Nat) (hL : 1 ≤ L) : ∀ ds : List Nat, (∀ d ∈ ds, d < L) →
    alphaDigits L (evalBij L ds) = ds := by
  intro ds
  induction ds with
  | nil => intro _; simp [evalBij, alphaDigits_zero]
  | cons d ds ih =>
    intro hlt
    have hd : d < L := hlt d (List.mem_cons_self ..)
    simp only [evalBij]
    rw [alphaDigits_unfold L hL _ (by omega)]
    have e : d + 1 + L * evalBij L ds - 1 = d + L * evalBij L ds := by omega
    rw [e, Nat.add_mul_mod_self_left, Nat.mod_eq_of_lt hd,
        Nat.add_mul_div_left _ _ (by omega : 0 < L), Nat.div_eq_of_lt hd]
    simp only [Nat.zero_add]
    rw [ih (fun x hx => hlt x (List.mem_cons_of_mem _ hx))]

/-! ### strings -/

theorem concat_nil : concat [] = "" := rfl

theorem concat_cons (s : String) (l : List String) : concat (s :: l) = s ++ concat l := rfl

theorem concat_append (a b : List String) : concat (a ++ b) = concat a ++ concat b := by
  induction a with
  | nil => simp [concat_nil]
  | cons s l ih => simp [concat_cons, ih, String.append_assoc]

/-- the symbol at an index, "" outside the list (only used where the index is in range) -/
def symOf (symbols : List NS) (i : Nat) : String := symbol (symbols.getD i NS.zero)

theorem collect_eq (symbols : List NS) : ∀ idx : List Nat, (∀ i ∈ idx, i < symbols.length) →
    collect symbols idx = some (idx.map (symOf symbols)) := by
  intro idx
  induction idx with
  | nil => intro _; simp [collect]
  | cons i rest ih =>
    intro h
    have hi : i < symbols.length := h i (List.mem_cons_self ..)
    have hr := ih (fun x hx => h x (List.mem_cons_of_mem _ hx))
    simp only [collect] at hr ⊢
    simp [List.mapM_cons, hr, symOf, List.getElem?_eq_getElem hi, List.getD_eq_getElem?_getD]

theorem symAt_nat (symbols : List NS) (i : Nat) (hi : i < symbols.length) :
    symAt symbols (i : Int) = some (symOf symbols i) := by
  simp [symAt, symOf, List.getElem?_eq_getElem hi, List.getD_eq_getElem?_getD]

end WR.C19
