/-
  C19 — tree-level scope_spec, layer 2: the stack machine of Scope.lean (elementToBox /
  UpdateCounters / push and pop of the sibling scopes) computes the threaded counters set of
  ScopeThread.lean, for every element tree.
-/
import WR.C19.ScopeThread
namespace WR.C19

/-! ### the sibling-scope list has no duplicates -/

theorem resetOne_nodup {vals vals' : Values} {sib sib' : List String} {n : String} {v : Int}
    (h : resetOne vals sib n v = some (vals', sib')) (hn : sib.Nodup) : sib'.Nodup := by
  unfold resetOne at h
  by_cases hc : sib.contains n = true
  · simp only [hc, if_true] at h
    split at h
    · cases h
    · simp only [Option.some.injEq, Prod.mk.injEq] at h; rw [← h.2]; exact hn
  · have hc' : n ∉ sib := by simpa using hc
    simp only [hc, Bool.false_eq_true, if_false, Option.some.injEq, Prod.mk.injEq] at h
    rw [← h.2]; exact List.nodup_cons.mpr ⟨hc', hn⟩

theorem touchOne_nodup (vals : Values) (sib : List String) (n : String) (f : Int → Int) (hn : sib.Nodup) :
    (touchOne vals sib n f).2.Nodup := by
  unfold touchOne
  split
  · by_cases hc : sib.contains n = true
    · simp only [hc, if_true]; exact hn
    · have hc' : n ∉ sib := by simpa using hc
      simp only [hc, Bool.false_eq_true, if_false]; exact List.nodup_cons.mpr ⟨hc', hn⟩
  · exact hn

theorem resetAll_nodup : ∀ (rs : List (String × Int)) (vals : Values) (sib : List String) (vals' : Values)
    (sib' : List String), resetAll rs vals sib = some (vals', sib') → sib.Nodup → sib'.Nodup := by
  intro rs
  induction rs with
  | nil => intro vals sib vals' sib' h hn; simp only [resetAll, Option.some.injEq, Prod.mk.injEq] at h; rw [← h.2]; exact hn
  | cons r rest ih =>
    intro vals sib vals' sib' h hn
    obtain ⟨n, v⟩ := r
    simp only [resetAll] at h
    cases h1 : resetOne vals sib n v with
    | none => rw [h1] at h; cases h
    | some p =>
      obtain ⟨v1, s1⟩ := p
      rw [h1] at h
      exact ih _ _ _ _ h (resetOne_nodup h1 hn)

theorem incrAll_nodup : ∀ (ps : List (String × Int)) (vals : Values) (sib : List String), sib.Nodup →
    (incrAll ps (vals, sib)).2.Nodup := by
  intro ps
  induction ps with
  | nil => intro vals sib hn; exact hn
  | cons r rest ih =>
    intro vals sib hn
    obtain ⟨n, v⟩ := r
    have := ih (touchOne vals sib n (· + v)).1 (touchOne vals sib n (· + v)).2 (touchOne_nodup vals sib n _ hn)
    exact this

theorem setAll_nodup : ∀ (ps : List (String × Int)) (vals : Values) (sib : List String), sib.Nodup →
    (setAll ps (vals, sib)).2.Nodup := by
  intro ps
  induction ps with
  | nil => intro vals sib hn; exact hn
  | cons r rest ih =>
    intro vals sib hn
    obtain ⟨n, v⟩ := r
    have := ih (touchOne vals sib n (fun _ => v)).1 (touchOne vals sib n (fun _ => v)).2 (touchOne_nodup vals sib n _ hn)
    exact this

theorem updateCounters_nodup {vals vals' : Values} {sib sib' : List String} {up up' : List (List String)} {o : Ops}
    (h : updateCounters ⟨vals, sib :: up⟩ o = some ⟨vals', sib' :: up'⟩) (hn : sib.Nodup) : sib'.Nodup := by
  simp only [updateCounters] at h
  cases h1 : resetAll o.reset vals sib with
  | none => rw [h1] at h; cases h
  | some p =>
    obtain ⟨v1, s1⟩ := p
    rw [h1] at h
    have n1 := resetAll_nodup _ _ _ _ _ h1 hn
    have n2 := incrAll_nodup o.increments v1 s1 n1
    have n3 := setAll_nodup o.set (incrAll o.increments (v1, s1)).1 (incrAll o.increments (v1, s1)).2 n2
    simp only [Option.some.injEq, State.mk.injEq, List.cons.injEq] at h
    rw [← h.2.1]
    exact n3

/-! ### a fresh id joins the level -/

theorem match_fresh {E : CSet} {ids : List Nat} {self : Nat} {vals : Values} {sib : List String}
    (h : Match E ids vals sib) (hf : ∀ n, ∀ c ∈ crs (proj E n), c < self) : Match E (self :: ids) vals sib := by
  refine ⟨h.vals, ?_⟩
  intro n
  rw [h.sib n]
  cases hl : (proj E n).getLast? with
  | none => rfl
  | some vc =>
    simp only
    have hm : vc ∈ proj E n := List.mem_of_getLast? hl
    have : vc.2 < self := hf n vc.2 (by simp only [crs]; exact List.mem_map_of_mem hm)
    have h3 : (vc.2 == self) = false := by simp; omega
    rw [List.contains_cons, h3, Bool.false_or]

/-! ### closing a scope -/

/-- one step of the loop of `popScope` -/
def popStep (acc : Option Values) (n : String) : Option Values :=
  match acc with
  | none => none
  | some vals => if (vals n).isEmpty then none else some (vals.put n (vals n).dropLast)

theorem popScope_eq (vals : Values) (sc : List String) (up : List (List String)) :
    popScope ⟨vals, sc :: up⟩ =
      (match sc.foldl popStep (some vals) with
        | none => none
        | some v => some ⟨v, up⟩) := rfl

theorem popFold : ∀ (sc : List String) (vals : Values), sc.Nodup → (∀ n ∈ sc, vals n ≠ []) →
    ∃ vals', sc.foldl popStep (some vals) = some vals' ∧
      ∀ n, vals' n = if n ∈ sc then (vals n).dropLast else vals n := by
  intro sc
  induction sc with
  | nil => intro vals _ _; exact ⟨vals, rfl, fun n => by simp⟩
  | cons a rest ih =>
    intro vals hn hne
    have ha : (vals a).isEmpty = false := by
      have := hne a (List.mem_cons_self ..)
      cases hv : vals a with
      | nil => exact absurd hv this
      | cons x t => rfl
    obtain ⟨hna, hnr⟩ := List.nodup_cons.mp hn
    have hne' : ∀ n ∈ rest, (vals.put a (vals a).dropLast) n ≠ [] := by
      intro n hm
      have : n ≠ a := fun e => hna (e ▸ hm)
      simp only [Values.put, this, if_false]
      exact hne n (List.mem_cons_of_mem _ hm)
    obtain ⟨vals', h1, h2⟩ := ih (vals.put a (vals a).dropLast) hnr hne'
    refine ⟨vals', by simp only [List.foldl_cons, popStep, ha, Bool.false_eq_true, if_false]; exact h1, ?_⟩
    intro n
    rw [h2 n]
    by_cases hm : n ∈ rest
    · have : n ≠ a := fun e => hna (e ▸ hm)
      simp [hm, Values.put, this]
    · by_cases he : n = a
      · subst he; simp [hm, Values.put]
      · simp [hm, he, Values.put]

theorem popScope_spec {vals : Values} {sc : List String} {up : List (List String)} (hn : sc.Nodup)
    (hne : ∀ n ∈ sc, vals n ≠ []) :
    ∃ vals', popScope ⟨vals, sc :: up⟩ = some ⟨vals', up⟩ ∧
      ∀ n, vals' n = if n ∈ sc then (vals n).dropLast else vals n := by
  obtain ⟨vals', h1, h2⟩ := popFold sc vals hn hne
  exact ⟨vals', by rw [popScope_eq, h1], h2⟩

theorem getLast?_crs (l : PL) : (crs l).getLast? = l.getLast?.map (·.2) := by
  simp [crs, List.getLast?_map]

/-- per name: removing the counters created at the level = dropping the innermost one iff it was -/
theorem filter_level {ids : List Nat} {next : Nat} {l : PL} (h : Good ids next l) :
    l.filter (fun vc => !ids.contains vc.2) =
      (match l.getLast? with
        | some vc => if ids.contains vc.2 then l.dropLast else l
        | none => l) := by
  rcases snoc_cases l with rfl | ⟨l', a, rfl⟩
  · rfl
  · have htop : ∀ vc ∈ l', (!ids.contains vc.2) = true := by
      intro vc hm
      have : vc.2 ∉ ids := h.top vc.2 (by
        simp only [crs, List.map_append, List.map_cons, List.map_nil, List.dropLast_concat]
        exact List.mem_map_of_mem hm)
      simpa using this
    have hl' : l'.filter (fun vc => !ids.contains vc.2) = l' := List.filter_eq_self.mpr htop
    rw [List.filter_append, hl', List.getLast?_concat]
    by_cases hq : a.2 ∈ ids
    · simp [hq]
    · simp [hq]

/-- layer 2a — pop_removes_children_counters: when an element ends, popping the sibling scope of its
    children (one `dropLast` per name created there) leaves exactly the counters that were not created
    by the children: the stacks represent `closeScope`, and the sibling scope of the element's own
    level is again the one recorded before the children were visited. -/
theorem pop_match {r : Th} {s : CSet} {outerIds : List Nat} {vals : Values} {sc sib : List String}
    {up : List (List String)}
    (hm : Match r.set r.ids vals sc) (hn : sc.Nodup) (hi : TInv r.set r.ids r.next)
    (hcr : ∀ n, crs (proj (closeScope r) n) = crs (proj s n))
    (hs : ∀ n, sib.contains n = (match (proj s n).getLast? with
      | some vc => outerIds.contains vc.2
      | none => false)) :
    ∃ vals', popScope ⟨vals, sc :: up⟩ = some ⟨vals', up⟩ ∧ Match (closeScope r) outerIds vals' sib := by
  have hne : ∀ n ∈ sc, vals n ≠ [] := by
    intro n hmem
    have h1 := hm.sib n
    have : sc.contains n = true := by simpa using hmem
    rw [this] at h1
    intro h0
    have : proj r.set n = [] := map_fst_nil (by rw [← hm.vals n]; exact h0)
    rw [this] at h1; simp at h1
  obtain ⟨vals', hp, hv⟩ := popScope_spec (up := up) hn hne
  refine ⟨vals', hp, ?_, ?_⟩
  · intro n
    have hf : proj (closeScope r) n = (proj r.set n).filter (fun vc => !r.ids.contains vc.2) :=
      proj_filter_creator (fun c => !r.ids.contains c) r.set n
    rw [hf, filter_level (hi.good n), hv n, hm.vals n]
    have h1 := hm.sib n
    cases hl : (proj r.set n).getLast? with
    | none =>
      rw [hl] at h1
      have : n ∉ sc := by simpa using h1
      simp [this]
    | some vc =>
      rw [hl] at h1
      simp only at h1 ⊢
      by_cases hq : r.ids.contains vc.2 = true
      · have : n ∈ sc := by rw [hq] at h1; simpa using h1
        simp only [this, if_true, hq, List.map_dropLast]
      · have hq' : r.ids.contains vc.2 = false := by simpa using hq
        have : n ∉ sc := by rw [hq'] at h1; simpa using h1
        simp only [this, if_false, hq]
        simp
  · intro n
    rw [hs n]
    have e1 : (proj (closeScope r) n).getLast?.map (·.2) = (proj s n).getLast?.map (·.2) := by
      rw [← getLast?_crs, ← getLast?_crs, hcr n]
    cases h1 : (proj (closeScope r) n).getLast? with
    | none =>
      rw [h1] at e1
      cases h2 : (proj s n).getLast? with
      | none => rfl
      | some b => rw [h2] at e1; simp at e1
    | some a =>
      rw [h1] at e1
      cases h2 : (proj s n).getLast? with
      | none => rw [h2] at e1; simp at e1
      | some b =>
        rw [h2] at e1
        simp only [Option.map_some, Option.some.injEq] at e1
        simp only [e1]

/-! ### the stack machine follows the threaded walk -/

/-- the model state (stacks, current sibling scope) represents the threaded state -/
structure Rel (t : Th) (vals : Values) (sib : List String) : Prop where
  m : Match t.set t.ids vals sib
  nd : sib.Nodup
  inv : TInv t.set t.ids t.next

theorem values_ext {s : CSet} {vals : Values} (h : ∀ n, vals n = (proj s n).map (·.1)) : vals = s.values := by
  funext n; rw [h n, values_eq_proj]

theorem ops_refine (t : Th) (o : Ops) (vals : Values) (sib : List String) (up : List (List String))
    (h : Rel t vals sib) :
    ∃ vals' sib', updateCounters ⟨vals, sib :: up⟩ o = some ⟨vals', sib' :: up⟩ ∧
      Rel { set := applyOps false t.set t.next t.ids o, ids := t.next :: t.ids, next := t.next + 1 } vals' sib' ∧
      vals' = (applyOps false t.set t.next t.ids o).values := by
  have hm := match_fresh h.m (fun n c hc => (h.inv.good n).lt c hc)
  obtain ⟨vals', sib', hu, hm'⟩ := update_refines t.set t.next t.ids o vals sib up hm
  exact ⟨vals', sib', hu, ⟨hm', updateCounters_nodup hu h.nd, (tinv_applyOps o h.inv).1⟩, values_ext hm'.vals⟩

theorem pseudo_refines (k : ObsKind) (p : Option Ops) (t : Th) (vals : Values) (sib : List String)
    (up : List (List String)) (h : Rel t vals sib) :
    ∃ vals' sib', pseudo k p ⟨vals, sib :: up⟩ = some (⟨vals', sib' :: up⟩, (thPseudo k p t).2) ∧
      Rel (thPseudo k p t).1 vals' sib' := by
  cases p with
  | none => exact ⟨vals, sib, rfl, h⟩
  | some o =>
    obtain ⟨vals', sib', hu, hr, hv⟩ := ops_refine t o vals sib up h
    refine ⟨vals', sib', ?_, hr⟩
    simp only [pseudo, hu, thPseudo, hv]

mutual
  /-- layer 2 — the stack machine computes the threaded counters set, for every element tree -/
  theorem walk_refines : ∀ (e : Elem) (t : Th) (vals : Values) (sib : List String) (up : List (List String)),
      Rel t vals sib →
      ∃ vals' sib', walk e ⟨vals, sib :: up⟩ = some (⟨vals', sib' :: up⟩, (thWalk e t).2) ∧
        Rel (thWalk e t).1 vals' sib'
    | .node dn ops b a ch, t, vals, sib, up, h => by
      by_cases hd : dn = true
      · refine ⟨vals, sib, ?_, ?_⟩
        · simp only [walk, thWalk, hd, if_true]
        · simp only [thWalk, hd, if_true]; exact h
      · obtain ⟨v1, s1, hu, hr1, hv1⟩ := ops_refine t ops vals sib up h
        subst hv1
        have hin : Rel { set := applyOps false t.set t.next t.ids ops, ids := [], next := t.next + 1 }
            (applyOps false t.set t.next t.ids ops).values [] := by
          refine ⟨⟨hr1.m.vals, ?_⟩, List.nodup_nil, ?_⟩
          · intro n; cases (proj (applyOps false t.set t.next t.ids ops) n).getLast? <;> rfl
          · exact ⟨fun n => ⟨by intro c _; simp, (hr1.inv.good n).uniq, (hr1.inv.good n).lt⟩, by simp⟩
        obtain ⟨v2, s2, hp1, hr2⟩ := pseudo_refines .before b _ _ [] (s1 :: up) hin
        obtain ⟨v3, s3, hw, hr3⟩ := walkList_refines ch _ v2 s2 (s1 :: up) hr2
        obtain ⟨v4, s4, hp2, hr4⟩ := pseudo_refines .after a _ v3 s3 (s1 :: up) hr3
        have st1 := thPseudo_step .before b
          { set := applyOps false t.set t.next t.ids ops, ids := [], next := t.next + 1 } hin.inv
        have st2 := thWalkList_step ch _ st1.inv
        have st3 := thPseudo_step .after a _ st2.inv
        obtain ⟨hc, hcr⟩ := close_step hr1.inv ((st1.trans st2).trans st3)
        obtain ⟨v5, hpop, hm5⟩ := pop_match (up := s1 :: up) hr4.m hr4.nd hr4.inv hcr hr1.m.sib
        refine ⟨v5, s1, ?_, ?_⟩
        · simp only [walk, thWalk, hd, Bool.false_eq_true, if_false, hu, hp1, hw, hp2, hpop]
        · simp only [thWalk, hd, Bool.false_eq_true, if_false]
          exact ⟨hm5, hr1.nd, hc⟩
  theorem walkList_refines : ∀ (es : List Elem) (t : Th) (vals : Values) (sib : List String)
      (up : List (List String)), Rel t vals sib →
      ∃ vals' sib', walkList es ⟨vals, sib :: up⟩ = some (⟨vals', sib' :: up⟩, (thWalkList es t).2) ∧
        Rel (thWalkList es t).1 vals' sib'
    | [], t, vals, sib, up, h => ⟨vals, sib, by simp only [walkList, thWalkList], by simp only [thWalkList]; exact h⟩
    | e :: es, t, vals, sib, up, h => by
      obtain ⟨v1, s1, h1, r1⟩ := walk_refines e t vals sib up h
      obtain ⟨v2, s2, h2, r2⟩ := walkList_refines es _ v1 s1 up r1
      refine ⟨v2, s2, ?_, ?_⟩
      · simp only [walkList, thWalkList, h1, h2]
      · simp only [thWalkList]; exact r2
end

end WR.C19
