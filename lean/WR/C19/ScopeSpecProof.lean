/-
  C19 — tree-level scope_spec, layers 3-4: the inheritance rule of the standard reconstructs the
  threaded set (`inherit_reconstructs`), and the walk of the specification (`specWalk false`, CSS
  Lists 3 §4.4 element by element) observes what the threaded walk observes, for every element tree.
-/
import WR.C19.ScopeInherit
import WR.C19.ScopeRefine
namespace WR.C19

/-- layer 3 — inherit_reconstructs: if the parent's counters are a prefix of the counters `s` the
    preceding sibling ended its own step with, the threaded set `K` has the counters of `s` (creators,
    per name, in order), every counter of `K` is in the value source `L` with its current value, and
    creators are distinct per name, then inheriting (parent, sibling `s`, source `L`) gives `K`, name
    by name -/
theorem inherit_reconstructs {parent s L K : CSet} (hp : PrefixOf parent s)
    (hn : ∀ n, (crs (proj s n)).Nodup) (hcr : ∀ n, crs (proj K n) = crs (proj s n))
    (hsub : ∀ n, ∀ vc ∈ proj K n, vc ∈ proj L n) (hl : ∀ n, (crs (proj L n)).Nodup) :
    ∀ n, proj (inheritCounters parent s L) n = proj K n := by
  intro n
  rw [proj_inherit]
  exact refresh_eq (hl n) _ _ (by rw [crs_addNew_prefix (hp n) (hn n), hcr n]) (hsub n)

/-- per name: what ties the specification's (parent, preceding sibling, value source) to the threaded list -/
structure LInvN (p sl src τ : PL) (ids : List Nat) (next : Nat) : Prop where
  r : τ = (addNew p sl).map (refreshL src)
  sub : ∀ vc ∈ τ, vc ∈ src
  usrc : (crs src).Nodup
  pold : ∀ c ∈ crs p, c ∉ ids ∧ c < next

/-- the specification's state at one level and the threaded state describe the same counters -/
structure BInv (parent : CSet) (sb : Sib) (t : Th) : Prop where
  ids : t.ids = sb.ids
  next : t.next = sb.next
  n : ∀ n, LInvN (proj parent n) (proj sb.set n) (proj sb.last n) (proj t.set n) t.ids t.next

theorem values_congr {X Y : CSet} (h : ∀ n, proj X n = proj Y n) : X.values = Y.values := by
  funext n; rw [values_eq_proj, values_eq_proj, h n]

/-- one application of counter properties at a level, on both sides -/
theorem level_step {parent : CSet} {sb : Sib} {t : Th} (hb : BInv parent sb t) (ht : TInv t.set t.ids t.next)
    (o : Ops) :
    (∀ n, proj (applyOps false t.set t.next t.ids o) n =
        proj (applyOps false (inheritCounters parent sb.set sb.last) sb.next sb.ids o) n)
    ∧ PrefixOf parent (applyOps false t.set t.next t.ids o)
    ∧ (∀ n, ∀ c ∈ crs (proj parent n), c ∉ t.next :: t.ids ∧ c < t.next + 1) := by
  have hold : ∀ n, ∀ c ∈ crs (proj parent n), c ∉ t.next :: t.ids ∧ c < t.next + 1 := by
    intro n c hc
    obtain ⟨h1, h2⟩ := (hb.n n).pold c hc
    refine ⟨?_, by omega⟩
    simp only [List.mem_cons, not_or]
    exact ⟨by omega, h1⟩
  have hI : ∀ n, proj t.set n = proj (inheritCounters parent sb.set sb.last) n := by
    intro n; rw [proj_inherit]; exact (hb.n n).r
  have hpre : PrefixOf parent t.set := by
    intro n
    rw [(hb.n n).r, crs_map_refresh]
    exact crs_addNew _ _
  refine ⟨?_, prefix_applyOps o hpre (fun n c hc => (hold n c hc).1), hold⟩
  rw [← hb.ids, ← hb.next]
  exact applyOps_congr t.next t.ids o hI

/-- the state after one application of counter properties (an element's own step seen by its next
    sibling when it has no children, or a ::before / ::after) -/
theorem binv_after_ops {parent : CSet} {sb : Sib} {t : Th} (hb : BInv parent sb t) (ht : TInv t.set t.ids t.next)
    (o : Ops) :
    BInv parent
      { set := applyOps false (inheritCounters parent sb.set sb.last) sb.next sb.ids o, ids := sb.next :: sb.ids,
        last := applyOps false (inheritCounters parent sb.set sb.last) sb.next sb.ids o, next := sb.next + 1 }
      { set := applyOps false t.set t.next t.ids o, ids := t.next :: t.ids, next := t.next + 1 } := by
  obtain ⟨hs, hpre, hold⟩ := level_step hb ht o
  obtain ⟨h1, _⟩ := tinv_applyOps o ht
  refine ⟨by simp only [hb.ids, hb.next], by simp only [hb.next], ?_⟩
  intro n
  simp only
  rw [← hs n]
  have hu := (h1.good n).uniq
  exact ⟨(refresh_eq hu _ _ (by rw [crs_addNew_prefix (hpre n) hu]) (fun _ h => h)).symm,
    fun _ h => h, hu, hold n⟩

theorem pseudo_spec (k : ObsKind) (p : Option Ops) {parent : CSet} {sb : Sib} {t : Th}
    (hb : BInv parent sb t) (ht : TInv t.set t.ids t.next) :
    BInv parent (specPseudo false k p parent sb).1 (thPseudo k p t).1 ∧
      (specPseudo false k p parent sb).2 = (thPseudo k p t).2 := by
  cases p with
  | none => exact ⟨hb, rfl⟩
  | some o =>
    refine ⟨binv_after_ops hb ht o, ?_⟩
    simp only [specPseudo, thPseudo]
    rw [values_congr (level_step hb ht o).1]

mutual
  theorem walk_spec : ∀ (e : Elem) (parent : CSet) (sb : Sib) (t : Th), BInv parent sb t →
      TInv t.set t.ids t.next →
      BInv parent (specWalk false e parent sb).1 (thWalk e t).1 ∧ (specWalk false e parent sb).2 = (thWalk e t).2
    | .node dn ops b a ch, parent, sb, t, hb, ht => by
      by_cases hd : dn = true
      · simp only [specWalk, thWalk, hd, if_true]; exact ⟨hb, trivial⟩
      · obtain ⟨hs, hpre, hold⟩ := level_step hb ht ops
        obtain ⟨h1, _⟩ := tinv_applyOps ops ht
        have hv := values_congr hs
        -- the level of the children
        have hin : TInv (applyOps false t.set t.next t.ids ops) [] (t.next + 1) :=
          ⟨fun n => ⟨by intro c _; simp, (h1.good n).uniq, (h1.good n).lt⟩, by simp⟩
        have hbin : BInv (applyOps false (inheritCounters parent sb.set sb.last) sb.next sb.ids ops)
            { set := [], ids := [], last := applyOps false (inheritCounters parent sb.set sb.last) sb.next sb.ids ops,
              next := sb.next + 1 }
            { set := applyOps false t.set t.next t.ids ops, ids := [], next := t.next + 1 } := by
          refine ⟨rfl, by simp only [hb.next], ?_⟩
          intro n
          simp only
          rw [← hs n]
          have hu := (h1.good n).uniq
          refine ⟨?_, fun _ h => h, hu, fun c hc => ⟨by simp, (h1.good n).lt c hc⟩⟩
          have : addNew (proj (applyOps false t.set t.next t.ids ops) n) (proj [] n) =
              proj (applyOps false t.set t.next t.ids ops) n := by simp [addNew, proj]
          rw [this]
          exact (refresh_eq hu _ _ rfl (fun _ h => h)).symm
        obtain ⟨b1, o1⟩ := pseudo_spec .before b hbin hin
        have st1 := thPseudo_step .before b
          { set := applyOps false t.set t.next t.ids ops, ids := [], next := t.next + 1 } hin
        obtain ⟨b2, o2⟩ := walkList_spec ch _ _ _ b1 st1.inv
        have st2 := thWalkList_step ch _ st1.inv
        obtain ⟨b3, o3⟩ := pseudo_spec .after a b2 st2.inv
        have st3 := thPseudo_step .after a _ st2.inv
        obtain ⟨hc, hcr⟩ := close_step h1 ((st1.trans st2).trans st3)
        refine ⟨?_, ?_⟩
        · simp only [specWalk, thWalk, hd, Bool.false_eq_true, if_false]
          refine ⟨by simp only [hb.ids, hb.next], b3.next, ?_⟩
          intro n
          simp only
          have hu := (h1.good n).uniq
          have hsub : ∀ vc ∈ proj (closeScope (thPseudo ObsKind.after a (thWalkList ch (thPseudo ObsKind.before b
              { set := applyOps false t.set t.next t.ids ops, ids := [], next := t.next + 1 }).1).1).1) n,
              vc ∈ proj (specPseudo false ObsKind.after a
                (applyOps false (inheritCounters parent sb.set sb.last) sb.next sb.ids ops)
                (specWalkList false ch (applyOps false (inheritCounters parent sb.set sb.last) sb.next sb.ids ops)
                  (specPseudo false ObsKind.before b
                    (applyOps false (inheritCounters parent sb.set sb.last) sb.next sb.ids ops)
                    { set := [], ids := [], last := applyOps false (inheritCounters parent sb.set sb.last) sb.next sb.ids ops,
                      next := sb.next + 1 }).1).1).1.last n := by
            intro vc hvc
            apply (b3.n n).sub
            have hf := proj_filter_creator (fun c => !(thPseudo ObsKind.after a (thWalkList ch (thPseudo ObsKind.before b
              { set := applyOps false t.set t.next t.ids ops, ids := [], next := t.next + 1 }).1).1).1.ids.contains c)
              (thPseudo ObsKind.after a (thWalkList ch (thPseudo ObsKind.before b
              { set := applyOps false t.set t.next t.ids ops, ids := [], next := t.next + 1 }).1).1).1.set n
            have : vc ∈ List.filter _ _ := hf ▸ hvc
            exact (List.mem_filter.mp this).1
          refine ⟨?_, hsub, (b3.n n).usrc, ?_⟩
          · rw [← hs n]
            exact (refresh_eq (b3.n n).usrc _ _ (by rw [crs_addNew_prefix (hpre n) hu, hcr n]) hsub).symm
          · intro c hcm
            obtain ⟨q1, q2⟩ := hold n c hcm
            exact ⟨q1, Nat.lt_of_lt_of_le q2 ((st1.trans st2).trans st3).next⟩
        · simp only [specWalk, thWalk, hd, Bool.false_eq_true, if_false, o1, o2, o3, hv]
  theorem walkList_spec : ∀ (es : List Elem) (parent : CSet) (sb : Sib) (t : Th), BInv parent sb t →
      TInv t.set t.ids t.next →
      BInv parent (specWalkList false es parent sb).1 (thWalkList es t).1 ∧
        (specWalkList false es parent sb).2 = (thWalkList es t).2
    | [], parent, sb, t, hb, _ => by simp only [specWalkList, thWalkList]; exact ⟨hb, trivial⟩
    | e :: es, parent, sb, t, hb, ht => by
      obtain ⟨b1, o1⟩ := walk_spec e parent sb t hb ht
      obtain ⟨b2, o2⟩ := walkList_spec es parent _ _ b1 (thWalk_step e t ht).inv
      simp only [specWalkList, thWalkList]
      exact ⟨b2, by rw [o1, o2]⟩
end

end WR.C19
