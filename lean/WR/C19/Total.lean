/-
  C19 — termination of the extends / fallback resolution: the fuel of `resolveLoop`, `rvLoop` and
  `renderValue` is never exhausted (for every value a Go int can hold whose negation it can hold too,
  and when "decimal" is the plain numeric style — author rules cannot redefine it, css/validation
  ParseCounterStyleName).
-/
import WR.C19.Model
namespace WR.C19

/-- number of table entries whose name has not been visited -/
def unvisited : Table → List String → Nat
  | [], _ => 0
  | (k, _) :: rest, prev => (if prev.contains k then 0 else 1) + unvisited rest prev

theorem unvisited_le : ∀ (c : Table) (prev : List String), unvisited c prev ≤ c.length
  | [], _ => by simp [unvisited]
  | (k, _) :: rest, prev => by
    have := unvisited_le rest prev
    simp only [unvisited, List.length_cons]; split <;> omega

theorem contains_cons_of (s k : String) (prev : List String) (h : prev.contains k = true) :
    (s :: prev).contains k = true := by
  simp only [List.contains_cons, h, Bool.or_true]

theorem unvisited_cons_le : ∀ (c : Table) (s : String) (prev : List String),
    unvisited c (s :: prev) ≤ unvisited c prev
  | [], _, _ => by simp [unvisited]
  | (k, _) :: rest, s, prev => by
    have ih := unvisited_cons_le rest s prev
    simp only [unvisited]
    by_cases h : prev.contains k = true
    · rw [if_pos h, if_pos (contains_cons_of s k prev h)]; omega
    · rw [if_neg h]; split <;> omega

theorem unvisited_cons_lt : ∀ (c : Table) (s : String) (prev : List String) (e : Desc),
    c.get? s = some e → prev.contains s = false → unvisited c (s :: prev) < unvisited c prev
  | [], _, _, _, hf, _ => by simp [Table.get?, List.lookup] at hf
  | (k, d) :: rest, s, prev, e, hf, hn => by
    simp only [Table.get?, List.lookup] at hf
    have hle := unvisited_cons_le rest s prev
    simp only [unvisited]
    by_cases hk : s = k
    · subst hk
      have h1 : (s :: prev).contains s = true := by simp
      rw [if_pos h1, hn]; simp; omega
    · have hb : (s == k) = false := by simpa using hk
      rw [hb] at hf
      have ih := unvisited_cons_lt rest s prev e hf hn
      by_cases h : prev.contains k = true
      · rw [if_pos h, if_pos (contains_cons_of s k prev h)]; omega
      · rw [if_neg h]; split <;> omega

/-- "decimal" is the plain numeric style (or absent) -/
def DecOK (c : Table) : Prop :=
  ∀ d, c.get? "decimal" = some d →
    d.sys.ext = "" ∧ d.sys.system = "numeric" ∧ 2 ≤ d.symbols.length ∧ (d.rangeAuto || d.rangeIsNone) = true

theorem sys3_ext (d : Desc) : d.sys3.1 = d.sys.ext := by
  unfold Desc.sys3
  split
  · rename_i h; simp [h, Sys.zero]
  · rfl

/-! ### resolveLoop -/

theorem resolveLoop_done (c : Table) (fuel : Nat) (d : Desc) (prev : List String) (system : String) :
    resolveLoop c (fuel + 1) d prev "" system = .found d prev := by
  simp [resolveLoop]

theorem resolveLoop_decimal (c : Table) (h : DecOK c) (fuel : Nat) (d : Desc) (prev : List String) :
    ∃ d' p', resolveLoop c (fuel + 2) d prev "extends" "decimal" = .found d' p' := by
  simp only [resolveLoop]
  cases hd : c.get? "decimal" with
  | none => exact ⟨d, prev, by simp⟩
  | some e =>
    have he := (h e hd).1
    have h3 : ({ d with sys := e.sys } : Desc).sys3.1 = "" := by rw [sys3_ext]; exact he
    simp only [show ("extends" = "") = False by decide, if_false]
    generalize hs : ({ d with sys := e.sys } : Desc).sys3 = t at h3
    obtain ⟨a, b, n⟩ := t
    simp only at h3
    subst h3
    simp [resolveLoop]

inductive RC.IsFound : RC → Prop
  | mk (d : Desc) (p : List String) : RC.IsFound (.found d p)

theorem resolveLoop_normal (c : Table) (h : DecOK c) : ∀ (fuel : Nat) (d : Desc) (prev : List String) (ext system : String),
    (ext ≠ "" → prev.contains system = false) → unvisited c prev + 3 ≤ fuel →
    (resolveLoop c fuel d prev ext system).IsFound := by
  intro fuel
  induction fuel with
  | zero => intro d prev ext system _ hf; omega
  | succ n ih =>
    intro d prev ext system hfresh hf
    by_cases he : ext = ""
    · subst he; rw [resolveLoop_done]; exact .mk _ _
    · simp only [resolveLoop, he, if_false]
      cases hd : c.get? system with
      | none => exact .mk _ _
      | some e =>
        have hlt := unvisited_cons_lt c system prev e hd (hfresh he)
        simp only
        generalize hs : ({ d with sys := e.sys } : Desc).sys3 = t
        obtain ⟨a, b, k⟩ := t
        simp only
        split
        · obtain ⟨m, hm⟩ : ∃ m, n = m + 2 := ⟨n - 2, by omega⟩
          subst hm
          obtain ⟨d', p', hr⟩ := resolveLoop_decimal c h m { d with sys := e.sys } (system :: prev)
          rw [hr]; exact .mk _ _
        · rename_i hc
          apply ih
          · intro ha
            have : ¬ ((system :: prev).contains b = true) := fun hb => hc ⟨ha, hb⟩
            simpa using this
          · omega

/-- any start state: one more unit of fuel than the normal case -/
theorem resolveLoop_total (c : Table) (h : DecOK c) (d : Desc) (prev : List String) (ext system : String)
    (fuel : Nat) (hf : unvisited c prev + 4 ≤ fuel) : (resolveLoop c fuel d prev ext system).IsFound := by
  obtain ⟨n, hn⟩ : ∃ n, fuel = n + 1 := ⟨fuel - 1, by omega⟩
  subst hn
  by_cases he : ext = ""
  · subst he; rw [resolveLoop_done]; exact .mk _ _
  · simp only [resolveLoop, he, if_false]
    cases hd : c.get? system with
    | none => exact .mk _ _
    | some e =>
      have hle := unvisited_cons_le c system prev
      simp only
      generalize hs : ({ d with sys := e.sys } : Desc).sys3 = t
      obtain ⟨a, b, k⟩ := t
      simp only
      split
      · obtain ⟨m, hm⟩ : ∃ m, n = m + 2 := ⟨n - 2, by omega⟩
        subst hm
        obtain ⟨d', p', hr⟩ := resolveLoop_decimal c h m { d with sys := e.sys } (system :: prev)
        rw [hr]; exact .mk _ _
      · rename_i hc
        apply resolveLoop_normal c h
        · intro ha
          have : ¬ ((system :: prev).contains b = true) := fun hb => hc ⟨ha, hb⟩
          simpa using this
        · omega

theorem resolveCounter_ne_diverge (c : Table) (h : DecOK c) (name : String) (prev : Option (List String)) :
    resolveCounter c name prev = .nil ∨ (resolveCounter c name prev).IsFound := by
  have key : ∀ (counter : Desc) (p : List String),
      (resolveLoop c (loopFuel c) counter (name :: p) counter.sys3.1 counter.sys3.2.1).IsFound := by
    intro counter p
    apply resolveLoop_total c h
    have := unvisited_le c (name :: p)
    simp only [loopFuel]; omega
  unfold resolveCounter
  cases hd : c.get? name with
  | none => left; rfl
  | some counter =>
    cases prev with
    | none => right; simpa using key counter []
    | some p =>
      by_cases hp : p.contains name = true
      · left; simp only [if_pos hp]
      · right; simp only [if_neg hp, Option.getD_some]; exact key counter p

theorem resolveLoop_unvisited (c : Table) : ∀ (fuel : Nat) (d : Desc) (prev : List String) (ext system : String)
    (d' : Desc) (p' : List String), resolveLoop c fuel d prev ext system = .found d' p' →
    unvisited c p' ≤ unvisited c prev := by
  intro fuel
  induction fuel with
  | zero => intro d prev ext system d' p' h; simp [resolveLoop] at h
  | succ n ih =>
    intro d prev ext system d' p' h
    simp only [resolveLoop] at h
    by_cases he : ext = ""
    · simp only [he, if_true, RC.found.injEq] at h; rw [← h.2]; exact Nat.le_refl _
    · simp only [he, if_false] at h
      cases hd : c.get? system with
      | none => simp only [hd, RC.found.injEq] at h; rw [← h.2]; exact Nat.le_refl _
      | some e =>
        simp only [hd] at h
        have hle := unvisited_cons_le c system prev
        generalize hs : ({ d with sys := e.sys } : Desc).sys3 = t at h
        obtain ⟨a, b, k⟩ := t
        simp only at h
        split at h
        · exact Nat.le_trans (ih _ _ _ _ _ _ h) hle
        · exact Nat.le_trans (ih _ _ _ _ _ _ h) hle

/-! ### rvLoop -/

def RV.Ok : RV → Prop
  | .diverge => False
  | _ => True

theorem rvLoop_ok (c : Table) : ∀ (fuel : Nat) (d : Desc) (prev : List String) (ext system : String) (num : Int),
    unvisited c prev + 2 ≤ fuel → (rvLoop c fuel d prev ext system num).Ok := by
  intro fuel
  induction fuel with
  | zero => intro d prev ext system num hf; omega
  | succ n ih =>
    intro d prev ext system num hf
    simp only [rvLoop]
    by_cases he : ext = ""
    · simp [he, RV.Ok]
    · simp only [he, if_false]
      cases hd : c.get? system with
      | none => simp [RV.Ok]
      | some e =>
        simp only
        generalize hs : ({ d with sys := e.sys } : Desc).sys3 = t
        obtain ⟨a, b, k⟩ := t
        simp only
        split
        · simp [RV.Ok]
        · rename_i hc
          cases hb : c.get? b with
          | some eb =>
            have hlt := unvisited_cons_lt c b prev eb hb (by simpa using hc)
            apply ih; omega
          | none =>
            obtain ⟨m, hm⟩ : ∃ m, n = m + 1 := ⟨n - 1, by omega⟩
            subst hm
            simp only [rvLoop]
            by_cases ha : a = ""
            · simp [ha, RV.Ok]
            · simp [ha, hb, RV.Ok]

theorem rvLoop_unvisited (c : Table) : ∀ (fuel : Nat) (d : Desc) (prev : List String) (ext system : String) (num : Int)
    (d' : Desc) (p' : List String) (s' : String) (n' : Int),
    rvLoop c fuel d prev ext system num = .done d' p' s' n' → unvisited c p' ≤ unvisited c prev := by
  intro fuel
  induction fuel with
  | zero => intro d prev ext system num d' p' s' n' h; simp [rvLoop] at h
  | succ n ih =>
    intro d prev ext system num d' p' s' n' h
    simp only [rvLoop] at h
    by_cases he : ext = ""
    · simp only [he, if_true, RV.done.injEq] at h; rw [← h.2.1]; exact Nat.le_refl _
    · simp only [he, if_false] at h
      cases hd : c.get? system with
      | none => simp [hd] at h
      | some e =>
        simp only [hd] at h
        generalize hs : ({ d with sys := e.sys } : Desc).sys3 = t at h
        obtain ⟨a, b, k⟩ := t
        simp only at h
        split at h
        · simp at h
        · exact Nat.le_trans (ih _ _ _ _ _ _ _ _ _ h) (unvisited_cons_le c b prev)

/-! ### renderValue -/

/-- the values of a Go int (64-bit) other than math.MinInt (whose absolute value overflows) -/
def Bd (v : Int) : Prop := -maxInt ≤ v ∧ v ≤ maxInt

theorem Bd_natAbs (v : Int) (h : Bd v) : Bd (v.natAbs : Int) := by
  unfold Bd maxInt at *; omega

/-- the resolved "decimal" -/
def IsDec (d : Desc) : Prop :=
  d.sys.ext = "" ∧ d.sys.system = "numeric" ∧ 2 ≤ d.symbols.length ∧ (d.rangeAuto || d.rangeIsNone) = true

theorem isDec_sys3 (d : Desc) (h : IsDec d) : d.sys3 = ("", "numeric", d.sys.number) := by
  have hz : d.sys ≠ Sys.zero := by
    intro hz; have := h.2.1; rw [hz] at this; simp [Sys.zero] at this
  simp only [Desc.sys3, hz, if_false, h.1, h.2.1]

theorem resolve_decimal (c : Table) (h : DecOK c) (d : Desc) (p : List String)
    (hr : resolveCounter c "decimal" none = .found d p) : IsDec d := by
  unfold resolveCounter at hr
  cases hd : c.get? "decimal" with
  | none => simp [hd] at hr
  | some e =>
    have he : IsDec e := h e hd
    simp only [hd, Bool.false_eq_true, if_false, isDec_sys3 e he, loopFuel, resolveLoop_done, RC.found.injEq] at hr
    rw [← hr.1]; exact he

theorem resolve_decimal_nil (c : Table) (hr : resolveCounter c "decimal" none = .nil) :
    c.get? "decimal" = none := by
  unfold resolveCounter at hr
  cases hd : c.get? "decimal" with
  | none => rfl
  | some e =>
    simp only [hd, Bool.false_eq_true, if_false] at hr
    have := resolveLoop_total
    exfalso
    generalize e.sys3 = t at hr
    obtain ⟨a, b, k⟩ := t
    simp only at hr
    cases hx : resolveLoop c (loopFuel c) e ["decimal"] a b with
    | nil =>
      -- resolveLoop never returns nil
      clear this hr
      have : ∀ (fuel : Nat) (d : Desc) (prev : List String) (ext system : String),
          resolveLoop c fuel d prev ext system ≠ .nil := by
        intro fuel
        induction fuel with
        | zero => intro d prev ext system; simp [resolveLoop]
        | succ n ih =>
          intro d prev ext system
          simp only [resolveLoop]
          split
          · simp
          · split
            · simp
            · generalize ({ d with sys := _ } : Desc).sys3 = t
              obtain ⟨a, b, k⟩ := t
              simp only
              split <;> exact ih _ _ _ _
      exact this _ _ _ _ _ hx
    | found d p => simp [hx] at hr
    | diverge => simp [hx] at hr

theorem numeric_ne_no (symbols : List NS) (v : Int) (h : 2 ≤ symbols.length) : numeric symbols v ≠ .no := by
  unfold numeric
  rw [if_neg (by omega)]
  split
  · split <;> simp
  · split <;> simp

/-- one activation on the resolved decimal style returns -/
theorem stepValue_decimal (c : Table) (d : Desc) (hd : IsDec d) (v : Int) (hv : Bd v) :
    ∃ o, stepValue c v (some d) none = .ret o ∧ o ≠ .diverge := by
  have hr : inRanges (effRanges d "numeric") v = true := by
    simp only [effRanges, hd.2.2.2, if_true]
    unfold Bd at hv
    simp [inRanges, minInt, maxInt] at hv ⊢
    omega
  simp only [stepValue, stepResolved, isDec_sys3 d hd, loopFuel, rvLoop, if_true, hr, Bool.not_true, Bool.false_eq_true,
    if_false]
  generalize (if (decide (v < 0) && usesNegative "numeric") = true then (v.natAbs : Int) else v) = w
  have hs : systemStep d "numeric" d.sys.number w = ofRes (numeric d.symbols w) .decimal := by
    simp [systemStep]
  rw [hs]
  have hn := numeric_ne_no d.symbols w hd.2.2.1
  cases hx : numeric d.symbols w with
  | ok s => exact ⟨_, rfl, by simp⟩
  | no => exact absurd hx hn
  | panic w => exact ⟨_, rfl, by simp⟩

theorem stepResolved_cases (c : Table) (v : Int) (hv : Bd v) (d : Desc) (p0 : List String) (ext system : String)
    (number : Int) :
    (∃ o, stepResolved c v d p0 ext system number = .ret o ∧ o ≠ .diverge)
    ∨ (∃ w, stepResolved c v d p0 ext system number = .decimal w ∧ Bd w)
    ∨ (∃ name p w, stepResolved c v d p0 ext system number = .fallback name p w ∧ Bd w ∧
        unvisited c p ≤ unvisited c p0) := by
  simp only [stepResolved]
  have hok := rvLoop_ok c (loopFuel c) d p0 ext system number
    (by have := unvisited_le c p0; simp only [loopFuel]; omega)
  cases hl : rvLoop c (loopFuel c) d p0 ext system number with
  | diverge => rw [hl] at hok; exact absurd hok (by simp [RV.Ok])
  | decimal => exact .inr (.inl ⟨v, rfl, hv⟩)
  | done d' p s' n' =>
    have hp := rvLoop_unvisited c _ _ _ _ _ _ _ _ _ _ hl
    simp only
    split
    · exact .inr (.inr ⟨_, _, _, rfl, hv, hp⟩)
    · generalize (if (decide (v < 0) && usesNegative s') = true then (v.natAbs : Int) else v) = w
      cases systemStep d' s' n' w with
      | initial s => exact .inl ⟨_, rfl, by simp⟩
      | decimal => exact .inr (.inl ⟨v, rfl, hv⟩)
      | fallback => exact .inr (.inr ⟨_, _, _, rfl, hv, hp⟩)
      | panic m => exact .inl ⟨_, rfl, by simp⟩

/-- what one activation can do next, in general -/
theorem stepValue_cases (c : Table) (v : Int) (hv : Bd v) (counter : Option Desc) (prev : Option (List String)) :
    (∃ o, stepValue c v counter prev = .ret o ∧ o ≠ .diverge)
    ∨ (∃ w, stepValue c v counter prev = .decimal w ∧ Bd w)
    ∨ (∃ name p w, stepValue c v counter prev = .fallback name p w ∧ Bd w ∧
        unvisited c p ≤ unvisited c (prev.getD [])) := by
  cases counter with
  | none =>
    simp only [stepValue]
    split
    · exact .inr (.inl ⟨v, rfl, hv⟩)
    · exact .inl ⟨_, rfl, by simp⟩
  | some d =>
    simp only [stepValue]
    cases prev with
    | none =>
      simp only [Bool.false_eq_true, if_false]
      exact stepResolved_cases c v hv d _ _ _ _
    | some pp =>
      by_cases hc : pp.contains d.sys3.2.1 = true
      · simp only [if_pos hc]; exact .inr (.inl ⟨v, rfl, hv⟩)
      · simp only [if_neg hc]; exact stepResolved_cases c v hv d _ _ _ _

/-- the tail call `c.RenderValue(w, "decimal")` returns -/
theorem render_decimal_call (c : Table) (h : DecOK c) (w : Int) (hw : Bd w) (n : Nat) (hn : 1 ≤ n) :
    (match resolveCounter c "decimal" none with
      | .diverge => Out.diverge
      | .nil => renderValue c n w none none
      | .found d _ => renderValue c n w (some d) none) ≠ .diverge := by
  obtain ⟨m, hm⟩ : ∃ m, n = m + 1 := ⟨n - 1, by omega⟩
  subst hm
  cases hr : resolveCounter c "decimal" none with
  | diverge =>
    rcases resolveCounter_ne_diverge c h "decimal" none with h1 | h1
    · rw [hr] at h1; simp at h1
    · rw [hr] at h1; cases h1
  | nil =>
    have hg := resolve_decimal_nil c hr
    simp [renderValue, stepValue, hg]
  | found d p =>
    obtain ⟨o, ho, hne⟩ := stepValue_decimal c d (resolve_decimal c h d p hr) w hw
    simp only [renderValue, ho]; exact hne

/-- an unknown style: decimal, or "" without a decimal style -/
theorem render_nil (c : Table) (h : DecOK c) (w : Int) (hw : Bd w) (m : Nat) (hm : 1 ≤ m) (prev : Option (List String)) :
    renderValue c (m + 1) w none prev ≠ .diverge := by
  by_cases hdc : (c.get? "decimal").isSome = true
  · simp only [renderValue, stepValue, hdc, if_true]; exact render_decimal_call c h w hw m hm
  · simp [renderValue, stepValue, hdc]

/-- `renderValue` never runs out of fuel: the fallback / extends resolution terminates -/
theorem renderValue_ne_diverge (c : Table) (h : DecOK c) : ∀ (fuel : Nat) (v : Int) (counter : Option Desc)
    (prev : Option (List String)), Bd v → unvisited c (prev.getD []) + 3 ≤ fuel →
    renderValue c fuel v counter prev ≠ .diverge := by
  intro fuel
  induction fuel with
  | zero => intro v counter prev _ hf; omega
  | succ n ih =>
    intro v counter prev hv hf
    simp only [renderValue]
    rcases stepValue_cases c v hv counter prev with ⟨o, ho, hne⟩ | ⟨w, hw, hb⟩ | ⟨name, p, w, hw, hb, hp⟩
    · rw [ho]; exact hne
    · rw [hw]; exact render_decimal_call c h w hb n (by omega)
    · rw [hw]
      simp only
      cases hr : resolveCounter c name (some p) with
      | diverge =>
        rcases resolveCounter_ne_diverge c h name (some p) with h1 | h1
        · rw [hr] at h1; simp at h1
        · rw [hr] at h1; cases h1
      | nil =>
        simp only
        obtain ⟨m, hm⟩ : ∃ m, n = m + 1 := ⟨n - 1, by omega⟩
        subst hm
        exact render_nil c h w hb m (by omega) _
      | found d p' =>
        simp only
        apply ih _ _ _ hb
        -- the fallback style had not been visited: one unvisited entry less
        unfold resolveCounter at hr
        cases hd : c.get? name with
        | none => simp [hd] at hr
        | some e =>
          simp only [hd] at hr
          by_cases hc : p.contains name = true
          · simp only [if_pos hc] at hr; cases hr
          · simp only [if_neg hc, Option.getD_some] at hr
            generalize e.sys3 = t at hr
            obtain ⟨a, b, k⟩ := t
            simp only at hr
            have h1 := resolveLoop_unvisited c _ _ _ _ _ _ _ hr
            have h2 := unvisited_cons_lt c name p e hd (by simpa using hc)
            simp only [Option.getD_some]
            omega

end WR.C19
