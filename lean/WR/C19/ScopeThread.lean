/-
  C19 — tree-level scope_spec, layer 1: the THREADED formulation of the counters set and its
  invariants.

  `thWalk` visits the elements in document order with ONE counters set: every box-generating element
  (and ::before / ::after) applies `applyOps` of the standard (instantiate / increment / set, with
  creators), and when an element ends, the counters created by its children (and its ::before /
  ::after) are removed — "the scope of a counter ends with the parent of the element that created it".

  Everything is proved per name, on `proj s n` (the (value, creator) pairs of the counters named `n`).
-/
import WR.C19.ScopeStep
namespace WR.C19

abbrev PL := List (Int × Nat)

theorem snoc_cases {α} (l : List α) : l = [] ∨ ∃ l' a, l = l' ++ [a] := by
  rcases List.eq_nil_or_concat l with h | ⟨l', a, h⟩
  · exact .inl h
  · exact .inr ⟨l', a, by rw [h, List.concat_eq_append]⟩

/-! ### the two operations, per name -/

/-- counter-reset on the list of one name -/
def opReset (ids : List Nat) (self : Nat) (v : Int) (l : PL) : PL :=
  (match l.getLast? with
    | some vc => if ids.contains vc.2 then l.dropLast else l
    | none => l) ++ [(v, self)]

/-- counter-increment / counter-set on the list of one name -/
def opTouch (self : Nat) (f : Int → Int) (l : PL) : PL :=
  match l.getLast? with
  | some vc => l.dropLast ++ [(f vc.1, vc.2)]
  | none => [(f 0, self)]

theorem proj_instantiate (s : CSet) (self : Nat) (sibs : List Nat) (name : String) (v : Int) (n : String) :
    proj (instantiate s self sibs name v) n =
      if n = name then opReset (self :: sibs) self v (proj s name) else proj s n := by
  unfold instantiate
  rw [proj_append_one, proj_drop name (fun c => (self :: sibs).contains c)]
  by_cases hn : n = name
  · subst hn
    simp only [if_true, opReset]
    rfl
  · have hn' : ¬ name = n := fun e => hn e.symm
    simp [hn, hn']

theorem proj_touch (s : CSet) (self : Nat) (sibs : List Nat) (name : String) (f : Int → Int) (n : String) :
    proj (touch s self sibs name f) n = if n = name then opTouch self f (proj s name) else proj s n := by
  unfold touch
  by_cases hh : hasNamed s name = true
  · rw [if_pos hh, proj_modify]
    by_cases hn : n = name
    · subst hn
      simp only [if_true, opTouch]
      cases hl : (proj s n).getLast? with
      | some vc => rfl
      | none =>
        have : proj s n = [] := by simpa using hl
        rw [hasNamed_eq, this] at hh; simp at hh
    · simp [hn]
  · have hh' : hasNamed s name = false := by simpa using hh
    have he : proj s name = [] := by
      have := hasNamed_eq s name; rw [hh'] at this; simpa using this.symm
    rw [if_neg hh, proj_append_one]
    by_cases hn : n = name
    · subst hn; simp [opTouch, he]
    · have hn' : ¬ name = n := fun e => hn e.symm
      simp [hn, hn']

/-! ### invariants of one name's list -/

def crs (l : PL) : List Nat := l.map (·.2)

/-- level counters (creator among `ids`) only in the innermost position; creators distinct and `< next` -/
structure Good (ids : List Nat) (next : Nat) (l : PL) : Prop where
  top : ∀ c ∈ (crs l).dropLast, c ∉ ids
  uniq : (crs l).Nodup
  lt : ∀ c ∈ crs l, c < next

/-- the creators of the counters NOT created at this level, outermost first -/
def outerL (ids : List Nat) (l : PL) : List Nat := (crs l).filter (fun c => !ids.contains c)

theorem crs_append (a b : PL) : crs (a ++ b) = crs a ++ crs b := by simp [crs]

theorem good_nil (ids : List Nat) (next : Nat) : Good ids next [] :=
  ⟨by simp [crs], by simp [crs], by simp [crs]⟩

theorem good_mono {ids : List Nat} {next next' : Nat} {l : PL} (h : Good ids next l) (hn : next ≤ next') :
    Good ids next' l := ⟨h.top, h.uniq, fun c hc => Nat.lt_of_lt_of_le (h.lt c hc) hn⟩

/-- `Good` and `outerL` only depend on the creators -/
theorem good_of_crs {ids : List Nat} {next : Nat} {l l' : PL} (h : Good ids next l) (e : crs l' = crs l) :
    Good ids next l' := ⟨by rw [e]; exact h.top, by rw [e]; exact h.uniq, by rw [e]; exact h.lt⟩

/-- a fresh id joins the level: nothing changes -/
theorem good_fresh {ids : List Nat} {self : Nat} {l : PL} (h : Good ids self l) :
    Good (self :: ids) (self + 1) l := by
  refine ⟨?_, h.uniq, fun c hc => Nat.lt_succ_of_lt (h.lt c hc)⟩
  intro c hc
  have h1 := h.top c hc
  have h2 : c < self := h.lt c (List.dropLast_subset _ hc)
  simp only [List.mem_cons, not_or]
  exact ⟨by omega, h1⟩

theorem outerL_fresh {ids : List Nat} {self : Nat} {l : PL} (h : Good ids self l) :
    outerL (self :: ids) l = outerL ids l := by
  unfold outerL
  apply List.filter_congr
  intro c hc
  have h2 : c < self := h.lt c hc
  have h3 : (c == self) = false := by simp; omega
  have : (self :: ids).contains c = ids.contains c := by rw [List.contains_cons, h3, Bool.false_or]
  rw [this]

theorem opReset_pos {ids : List Nat} {self : Nat} {v : Int} {l' : PL} {a : Int × Nat} (hq : a.2 ∈ ids) :
    opReset ids self v (l' ++ [a]) = l' ++ [(v, self)] := by
  simp [opReset, hq]

theorem opReset_neg {ids : List Nat} {self : Nat} {v : Int} {l' : PL} {a : Int × Nat} (hq : a.2 ∉ ids) :
    opReset ids self v (l' ++ [a]) = (l' ++ [a]) ++ [(v, self)] := by
  simp [opReset, hq]

theorem opReset_good {ids : List Nat} {next self : Nat} {v : Int} {l : PL} (h : Good ids next l)
    (hs : self ∈ ids) (hlt : self < next) : Good ids next (opReset ids self v l) := by
  rcases snoc_cases l with rfl | ⟨l', a, rfl⟩
  · refine ⟨by simp [opReset, crs], by simp [opReset, crs], ?_⟩
    intro c hc; simp [opReset, crs] at hc; omega
  · have htop : ∀ c ∈ crs l', c ∉ ids := by
      intro c hc; apply h.top; simpa [crs_append, crs] using hc
    have huniq := h.uniq
    rw [crs_append, List.nodup_append] at huniq
    obtain ⟨hu1, _, hu3⟩ := huniq
    have hself : self ∉ crs l' := fun hm => htop self hm hs
    by_cases hq : a.2 ∈ ids
    · rw [opReset_pos hq]
      refine ⟨?_, ?_, ?_⟩
      · intro c hc; apply htop; simpa [crs_append, crs] using hc
      · rw [crs_append, List.nodup_append]
        refine ⟨hu1, by simp [crs], ?_⟩
        intro x hx y hy; simp [crs] at hy; subst hy; exact fun e => hself (e ▸ hx)
      · intro c hc
        rw [crs_append] at hc
        rcases List.mem_append.mp hc with h1 | h1
        · exact h.lt c (by rw [crs_append]; exact List.mem_append_left _ h1)
        · simp [crs] at h1; omega
    · rw [opReset_neg hq]
      have hsa : self ≠ a.2 := fun e2 => hq (e2 ▸ hs)
      refine ⟨?_, ?_, ?_⟩
      · intro c hc
        have : c ∈ crs (l' ++ [a]) := by simpa [crs_append, crs] using hc
        rw [crs_append] at this
        rcases List.mem_append.mp this with h1 | h1
        · exact htop c h1
        · simp [crs] at h1; subst h1; exact hq
      · rw [crs_append, List.nodup_append]
        refine ⟨h.uniq, by simp [crs], ?_⟩
        intro x hx y hy; simp [crs] at hy; subst hy
        rw [crs_append] at hx
        rcases List.mem_append.mp hx with h1 | h1
        · exact fun e => hself (e ▸ h1)
        · simp [crs] at h1; subst h1; exact fun e => hsa e.symm
      · intro c hc
        rw [crs_append] at hc
        rcases List.mem_append.mp hc with h1 | h1
        · exact h.lt c h1
        · simp [crs] at h1; omega

theorem opReset_outer {ids : List Nat} {self : Nat} {v : Int} {l : PL}
    (hs : self ∈ ids) : outerL ids (opReset ids self v l) = outerL ids l := by
  rcases snoc_cases l with rfl | ⟨l', a, rfl⟩
  · simp [opReset, outerL, crs, hs]
  · by_cases hq : a.2 ∈ ids
    · rw [opReset_pos hq]; simp [outerL, crs, hs, hq, List.filter_append]
    · rw [opReset_neg hq]; simp [outerL, crs, hs, hq, List.filter_append, List.filter_cons]

theorem opTouch_crs {self : Nat} {f : Int → Int} {l : PL} (hne : l ≠ []) : crs (opTouch self f l) = crs l := by
  rcases snoc_cases l with rfl | ⟨l', a, rfl⟩
  · exact absurd rfl hne
  · simp [opTouch, crs]

theorem opTouch_good {ids : List Nat} {next self : Nat} {f : Int → Int} {l : PL} (h : Good ids next l)
    (hlt : self < next) : Good ids next (opTouch self f l) := by
  by_cases hne : l = []
  · subst hne
    refine ⟨by simp [opTouch, crs], by simp [opTouch, crs], ?_⟩
    intro c hc; simp [opTouch, crs] at hc; omega
  · exact good_of_crs h (opTouch_crs hne)

theorem opTouch_outer {ids : List Nat} {self : Nat} {f : Int → Int} {l : PL}
    (hs : self ∈ ids) : outerL ids (opTouch self f l) = outerL ids l := by
  by_cases hne : l = []
  · subst hne; simp [opTouch, outerL, crs, hs]
  · unfold outerL; rw [opTouch_crs hne]

/-! ### invariants of a counters set -/

/-- every name's list is `Good`; the ids of the level are `< next` -/
structure TInv (s : CSet) (ids : List Nat) (next : Nat) : Prop where
  good : ∀ n, Good ids next (proj s n)
  idlt : ∀ i ∈ ids, i < next

def outer (s : CSet) (ids : List Nat) (n : String) : List Nat := outerL ids (proj s n)

theorem tinv_fresh {s : CSet} {ids : List Nat} {self : Nat} (h : TInv s ids self) :
    TInv s (self :: ids) (self + 1) := by
  refine ⟨fun n => good_fresh (h.good n), ?_⟩
  intro i hi
  rcases List.mem_cons.mp hi with rfl | h1
  · omega
  · exact Nat.lt_succ_of_lt (h.idlt i h1)

theorem tinv_instantiate {s : CSet} {self : Nat} {sibs : List Nat} {next : Nat} (name : String) (v : Int)
    (h : TInv s (self :: sibs) next) (hlt : self < next) :
    TInv (instantiate s self sibs name v) (self :: sibs) next ∧
      ∀ n, outer (instantiate s self sibs name v) (self :: sibs) n = outer s (self :: sibs) n := by
  have hs : self ∈ self :: sibs := by simp
  refine ⟨⟨?_, h.idlt⟩, ?_⟩
  · intro n
    rw [proj_instantiate]
    by_cases hn : n = name
    · subst hn; simp only [if_true]; exact opReset_good (h.good n) hs hlt
    · simp only [hn, if_false]; exact h.good n
  · intro n
    unfold outer
    rw [proj_instantiate]
    by_cases hn : n = name
    · subst hn; simp only [if_true]; exact opReset_outer hs
    · simp only [hn, if_false]

theorem tinv_touch {s : CSet} {self : Nat} {sibs : List Nat} {next : Nat} (name : String) (f : Int → Int)
    (h : TInv s (self :: sibs) next) (hlt : self < next) :
    TInv (touch s self sibs name f) (self :: sibs) next ∧
      ∀ n, outer (touch s self sibs name f) (self :: sibs) n = outer s (self :: sibs) n := by
  have hs : self ∈ self :: sibs := by simp
  refine ⟨⟨?_, h.idlt⟩, ?_⟩
  · intro n
    rw [proj_touch]
    by_cases hn : n = name
    · subst hn; simp only [if_true]; exact opTouch_good (h.good n) hlt
    · simp only [hn, if_false]; exact h.good n
  · intro n
    unfold outer
    rw [proj_touch]
    by_cases hn : n = name
    · subst hn; simp only [if_true]; exact opTouch_outer hs
    · simp only [hn, if_false]

theorem tinv_foldl_inst {self : Nat} {sibs : List Nat} {next : Nat} (hlt : self < next) :
    ∀ (rs : List (String × Int)) (s : CSet), TInv s (self :: sibs) next →
      TInv (rs.foldl (fun s p => instantiate s self sibs p.1 p.2) s) (self :: sibs) next ∧
      ∀ n, outer (rs.foldl (fun s p => instantiate s self sibs p.1 p.2) s) (self :: sibs) n = outer s (self :: sibs) n := by
  intro rs
  induction rs with
  | nil => intro s h; exact ⟨h, fun _ => rfl⟩
  | cons r rest ih =>
    intro s h
    obtain ⟨h1, o1⟩ := tinv_instantiate r.1 r.2 h hlt
    obtain ⟨h2, o2⟩ := ih _ h1
    exact ⟨h2, fun n => by rw [List.foldl_cons, o2 n, o1 n]⟩

theorem tinv_foldl_touch {self : Nat} {sibs : List Nat} {next : Nat} (hlt : self < next)
    (g : String × Int → Int → Int) :
    ∀ (ps : List (String × Int)) (s : CSet), TInv s (self :: sibs) next →
      TInv (ps.foldl (fun s p => touch s self sibs p.1 (g p)) s) (self :: sibs) next ∧
      ∀ n, outer (ps.foldl (fun s p => touch s self sibs p.1 (g p)) s) (self :: sibs) n = outer s (self :: sibs) n := by
  intro ps
  induction ps with
  | nil => intro s h; exact ⟨h, fun _ => rfl⟩
  | cons r rest ih =>
    intro s h
    obtain ⟨h1, o1⟩ := tinv_touch r.1 (g r) h hlt
    obtain ⟨h2, o2⟩ := ih _ h1
    exact ⟨h2, fun n => by rw [List.foldl_cons, o2 n, o1 n]⟩

/-- the per-element step keeps the invariants and the counters of the outer levels -/
theorem tinv_applyOps {s : CSet} {ids : List Nat} {self : Nat} (o : Ops) (h : TInv s ids self) :
    TInv (applyOps false s self ids o) (self :: ids) (self + 1) ∧
      ∀ n, outer (applyOps false s self ids o) (self :: ids) n = outer s ids n := by
  have h0 := tinv_fresh h
  have hlt : self < self + 1 := by omega
  obtain ⟨h1, o1⟩ := tinv_foldl_inst hlt o.reset s h0
  obtain ⟨h2, o2⟩ := tinv_foldl_touch hlt (fun p => (· + p.2)) o.increments _ h1
  obtain ⟨h3, o3⟩ := tinv_foldl_touch hlt (fun p => fun _ => p.2) o.set _ h2
  refine ⟨by simpa [applyOps] using h3, ?_⟩
  intro n
  have : outer (applyOps false s self ids o) (self :: ids) n = outer s (self :: ids) n := by
    simp only [applyOps, Bool.false_eq_true, if_false]
    rw [o3 n, o2 n, o1 n]
  rw [this]
  exact outerL_fresh (h.good n)

/-! ### the threaded walk -/

/-- the state threaded through the elements in document order -/
structure Th where
  set : CSet       -- the counters in scope
  ids : List Nat   -- the preceding siblings (and ::before) at this level
  next : Nat       -- next fresh id

def thPseudo (k : ObsKind) (p : Option Ops) (t : Th) : Th × List Obs :=
  match p with
  | none => (t, [])
  | some o =>
    ({ set := applyOps false t.set t.next t.ids o, ids := t.next :: t.ids, next := t.next + 1 },
     (if o.listItem then [⟨.marker, (applyOps false t.set t.next t.ids o).values⟩] else [])
       ++ [⟨k, (applyOps false t.set t.next t.ids o).values⟩])

/-- the initial threaded state (the renderer defines `footnote` for the document) -/
def th0 : Th := { set := [⟨"footnote", 0, 0⟩], ids := [0], next := 1 }

/-- the end of an element: the counters created by its children go out of scope -/
def closeScope (inner : Th) : CSet := inner.set.filter (fun k => !inner.ids.contains k.creator)

mutual
  def thWalk : Elem → Th → Th × List Obs
    | .node dn ops b a ch, t =>
      if dn then (t, [])
      else
        let s := applyOps false t.set t.next t.ids ops
        let mo : List Obs := if ops.listItem then [⟨.marker, s.values⟩] else []
        let r1 := thPseudo .before b { set := s, ids := [], next := t.next + 1 }
        let r2 := thWalkList ch r1.1
        let r3 := thPseudo .after a r2.1
        ({ set := closeScope r3.1, ids := t.next :: t.ids, next := r3.1.next }, mo ++ r1.2 ++ r2.2 ++ r3.2)
  def thWalkList : List Elem → Th → Th × List Obs
    | [], t => (t, [])
    | e :: es, t => ((thWalkList es (thWalk e t).1).1, (thWalk e t).2 ++ (thWalkList es (thWalk e t).1).2)
end

theorem proj_filter_creator (q : Nat → Bool) (s : CSet) (n : String) :
    proj (s.filter (fun k => q k.creator)) n = (proj s n).filter (fun vc => q vc.2) := by
  induction s with
  | nil => simp [proj]
  | cons k rest ih =>
    rw [proj_cons, List.filter_append, ← ih]
    by_cases hq : q k.creator = true
    · have : (k :: rest).filter (fun k => q k.creator) = k :: rest.filter (fun k => q k.creator) := by
        simp [List.filter_cons, hq]
      rw [this, proj_cons]
      by_cases hn : k.name = n <;> simp [hn, hq]
    · have : (k :: rest).filter (fun k => q k.creator) = rest.filter (fun k => q k.creator) := by
        simp [List.filter_cons, hq]
      rw [this]
      by_cases hn : k.name = n <;> simp [hn, hq]

theorem crs_filter (q : Nat → Bool) (l : PL) : crs (l.filter (fun vc => q vc.2)) = (crs l).filter q := by
  induction l with
  | nil => simp [crs]
  | cons a t ih =>
    simp only [crs] at ih ⊢
    by_cases hq : q a.2 = true
    · simp [List.filter_cons, hq, ih]
    · simp [List.filter_cons, hq, ih]

theorem crs_closeScope (inner : Th) (n : String) :
    crs (proj (closeScope inner) n) = outer inner.set inner.ids n := by
  have h := proj_filter_creator (fun c => !inner.ids.contains c) inner.set n
  exact (congrArg crs h).trans (crs_filter (fun c => !inner.ids.contains c) (proj inner.set n))

theorem outerL_nil (l : PL) : outerL [] l = crs l := by simp [outerL]

/-- what visiting something at one level guarantees -/
structure ThStep (t t' : Th) : Prop where
  inv : TInv t'.set t'.ids t'.next
  outer : ∀ n, outer t'.set t'.ids n = outer t.set t.ids n
  next : t.next ≤ t'.next

theorem ThStep.refl {t : Th} (h : TInv t.set t.ids t.next) : ThStep t t := ⟨h, fun _ => rfl, Nat.le_refl _⟩

theorem ThStep.trans {t1 t2 t3 : Th} (a : ThStep t1 t2) (b : ThStep t2 t3) : ThStep t1 t3 :=
  ⟨b.inv, fun n => by rw [b.outer n, a.outer n], Nat.le_trans a.next b.next⟩

theorem thPseudo_step (k : ObsKind) (p : Option Ops) (t : Th) (h : TInv t.set t.ids t.next) :
    ThStep t (thPseudo k p t).1 := by
  cases p with
  | none => exact ThStep.refl h
  | some o =>
    obtain ⟨h1, o1⟩ := tinv_applyOps o h
    exact ⟨h1, o1, by simp [thPseudo]⟩

/-- closing the scope of an element whose own step produced `s` -/
theorem close_step {s : CSet} {ids : List Nat} {self : Nat} {r : Th}
    (hs : TInv s (self :: ids) (self + 1)) (hr : ThStep { set := s, ids := [], next := self + 1 } r) :
    TInv (closeScope r) (self :: ids) r.next ∧ ∀ n, crs (proj (closeScope r) n) = crs (proj s n) := by
  have hcr : ∀ n, crs (proj (closeScope r) n) = crs (proj s n) := by
    intro n
    rw [crs_closeScope, hr.outer n]
    exact outerL_nil _
  have hn : self + 1 ≤ r.next := hr.next
  refine ⟨⟨fun n => good_mono (good_of_crs (hs.good n) (hcr n)) hn, ?_⟩, hcr⟩
  intro i hi
  exact Nat.lt_of_lt_of_le (hs.idlt i hi) hn

mutual
  theorem thWalk_step : ∀ (e : Elem) (t : Th), TInv t.set t.ids t.next → ThStep t (thWalk e t).1
    | .node dn ops b a ch, t, h => by
      unfold thWalk
      by_cases hd : dn = true
      · simp only [hd, if_true]; exact ThStep.refl h
      · simp only [hd, if_false]
        obtain ⟨h1, o1⟩ := tinv_applyOps ops h
        have hin : TInv (applyOps false t.set t.next t.ids ops) [] (t.next + 1) :=
          ⟨fun n => ⟨by intro c _; simp, (h1.good n).uniq, (h1.good n).lt⟩, by simp⟩
        have s1 := thPseudo_step .before b
          { set := applyOps false t.set t.next t.ids ops, ids := [], next := t.next + 1 } hin
        have s2 := thWalkList_step ch _ s1.inv
        have s3 := thPseudo_step .after a _ s2.inv
        have sall := (s1.trans s2).trans s3
        obtain ⟨hc, hcr⟩ := close_step h1 sall
        refine ⟨hc, ?_, ?_⟩
        · intro n
          show outerL (t.next :: t.ids) (proj (closeScope _) n) = _
          unfold outerL
          rw [hcr n]
          exact o1 n
        · exact Nat.le_trans (Nat.le_succ _) sall.next
  theorem thWalkList_step : ∀ (es : List Elem) (t : Th), TInv t.set t.ids t.next → ThStep t (thWalkList es t).1
    | [], t, h => by unfold thWalkList; exact ThStep.refl h
    | e :: es, t, h => by
      unfold thWalkList
      have s1 := thWalk_step e t h
      have s2 := thWalkList_step es _ s1.inv
      exact s1.trans s2
end

end WR.C19
