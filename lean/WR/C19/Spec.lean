/-
  C19 — the property's statement, written from the standards (not from the code).

  Part 1: CSS Counter Styles Level 3, "generate a counter representation" (§2) with the per-system
          algorithms of §3, `range` (§3.4? "range" descriptor, auto ranges), `pad`, `negative`,
          `fallback` (loops → decimal), `extends` (unspecified descriptors come from the extended
          style; cycles and unknown names → extends decimal).  Works on the descriptors as parsed.
  Part 2: CSS Lists Level 3 §4 (counters set of an element: inherit from parent / preceding sibling /
          preceding element in tree order; counter-reset instantiates, replacing an instance created
          by the element or a preceding sibling; then counter-increment, then counter-set; counters()
          lists all instances outermost first).

  The digit sequences of `numeric` / `alphabetic` reuse `numDigits` / `alphaDigits` of the model: they
  are characterised declaratively (and uniquely) by the theorems `numeric_digits_*` and
  `alphabetic_digits_*` of WR.Props.C19, so the reuse assumes nothing about the code.
-/
import WR.C19.Model
import WR.C19.Scope
namespace WR.C19

/-! ## Part 1 — counter styles -/

inductive SpecOut where
  | text (s : String)
  | undefined           -- the specification does not say (invalid rule kept in the table, no decimal style)
  deriving DecidableEq, Repr

/-- Known ways in which an implementation can deviate; the specification is `Dev.none`.  The
    switches are only used to NAME a deviation observed on the implementation (harness side). -/
structure Dev where
  padBytes : Bool := false        -- pad length counted in UTF-8 bytes instead of characters
  zeroEmpty : Bool := false       -- a value the symbolic / alphabetic algorithm is not defined for (< 1) goes to decimal, not to the fallback style
  absFallback : Bool := false     -- the fallback style receives |value| after the algorithm failed on a negative value
  extUnknownPlain : Bool := false -- `extends <undefined style>`: rendered as plain decimal, own descriptors dropped
  deriving Repr

def Dev.none : Dev := {}

/-- a counter style with `extends` resolved -/
structure Style where
  system : String
  first : Int
  symbols : List String
  additive : List (Int × String)
  negPre : String
  negSuf : String
  pre : String
  suf : String
  ranges : Option (List (Int × Int))   -- none = auto
  padLen : Int
  padSym : String
  fallback : String
  deriving Repr

def Desc.extendsName (d : Desc) : Option String := if d.sys.ext ≠ "" then some d.sys.system else none

/-- does following `extends` from `start` come back to `start`? -/
def inExtendsCycle (c : Table) (start : String) : Nat → String → Bool
  | 0, _ => false
  | fuel + 1, cur =>
    match (c.get? cur).bind Desc.extendsName with
    | none => false
    | some t => if t = start then true else inExtendsCycle c start fuel t

/-- descriptors of `d` that are specified, completed by those of `base` -/
def overlay (d : Desc) (base : Style) : Style :=
  { base with
    negPre := if d.neg1 == NS.zero && d.neg2 == NS.zero then base.negPre else symbol d.neg1
    negSuf := if d.neg1 == NS.zero && d.neg2 == NS.zero then base.negSuf else symbol d.neg2
    pre := if d.pre.isNone then base.pre else symbol d.pre
    suf := if d.suf.isNone then base.suf else symbol d.suf
    ranges := if d.rangeAuto then none else if d.ranges.isEmpty then base.ranges else some d.ranges
    padLen := if d.padLen = 0 ∧ d.padSym.isNone then base.padLen else d.padLen
    padSym := if d.padLen = 0 ∧ d.padSym.isNone then base.padSym else symbol d.padSym
    fallback := if d.fallback = "" then base.fallback else d.fallback }

/-- initial values of the descriptors (§3: negative "-", prefix "", suffix ". ", range auto, pad 0 "",
    fallback decimal) for a non-extending rule -/
def plainStyle (d : Desc) : Style :=
  overlay d
    { system := if d.sys = Sys.zero then "symbolic" else d.sys.system
      first := d.sys.number
      symbols := d.symbols.map symbol, additive := d.additive.map (fun p => (p.1, symbol p.2))
      negPre := "-", negSuf := "", pre := "", suf := ". ", ranges := none, padLen := 0, padSym := "", fallback := "decimal" }

/-- resolve `extends`; `none` = the specification does not cover the table (a rule that both extends and
    lists symbols is invalid and should not be there; no decimal style) -/
def specStyle (c : Table) : Nat → String → Option Style
  | 0, _ => none
  | fuel + 1, name =>
    match c.get? name with
    | none => none
    | some d =>
      match d.extendsName with
      | none => some (plainStyle d)
      | some t =>
        if !d.symbols.isEmpty || !d.additive.isEmpty then none
        else
          let target := if inExtendsCycle c name (c.length + 1) name || (c.get? t).isNone then "decimal" else t
          if target = name then none else (specStyle c fuel target).map (overlay d)

def cpLen (dev : Dev) (s : String) : Nat := if dev.padBytes then s.utf8ByteSize else s.length

/-- does the `extends` chain of `name` reach an undefined style? -/
def extendsUnknown (c : Table) : Nat → String → Bool
  | 0, _ => false
  | fuel + 1, name =>
    match c.get? name with
    | none => false
    | some d => match d.extendsName with
      | none => false
      | some t => if (c.get? t).isNone then true else extendsUnknown c fuel t

/-- §3.1.6: greedy, over non-negative values; a zero weight can only serve the value 0 -/
def specAdditiveLoop : List (Int × String) → Nat → List String → Option String
  | [], v, acc => if v = 0 then some (concat acc.reverse) else none
  | (w, s) :: rest, v, acc =>
    if v = 0 then some (concat acc.reverse)
    else if w ≤ 0 then specAdditiveLoop rest v acc
    else specAdditiveLoop rest (v % w.toNat) (repeatStr s (v / w.toNat) :: acc)

/-- value 0 without a zero-weight tuple: the loop of step 3 "ends because value is 0" at once and the
    (empty) S is returned — the literal reading of the standard, which is also what the code does -/
def specAdditive (syms : List (Int × String)) (v : Nat) : Option String :=
  if v = 0 then
    match syms.find? (fun p => p.1 = 0) with
    | some p => some p.2
    | none => if syms.isEmpty then none else some ""
  else specAdditiveLoop syms v []

/-- the counter algorithm of a (resolved) style on the value it is defined for; `none` = the value
    cannot be represented → fallback -/
def specAlgorithm (dev : Dev) (st : Style) (v : Int) : Option String :=
  let L := st.symbols.length
  if dev.padBytes ∧ False then none else
  if st.system = "cyclic" then
    if L = 0 then none else st.symbols[((v - 1) % (L : Int)).toNat]?
  else if st.system = "fixed" then
    if st.first ≤ v ∧ v < st.first + L then st.symbols[(v - st.first).toNat]? else none
  else if st.system = "symbolic" then
    if v ≥ 1 ∧ L ≥ 1 then
      (st.symbols[((v - 1) % (L : Int)).toNat]?).map (fun s => repeatStr s ((v.toNat + L - 1) / L))
    else none
  else if st.system = "alphabetic" then
    if v ≥ 1 ∧ L ≥ 2 then ((alphaDigits L v.toNat).reverse.mapM (st.symbols[·]?)).map concat else none
  else if st.system = "numeric" then
    if L < 2 then none
    else if v = 0 then st.symbols[0]?
    else if v > 0 then ((numDigits L v.toNat).reverse.mapM (st.symbols[·]?)).map concat
    else none
  else if st.system = "additive" then
    if v ≥ 0 then specAdditive st.additive v.toNat else none
  else none

def specUsesNegative (st : Style) : Bool :=
  st.system = "symbolic" ∨ st.system = "alphabetic" ∨ st.system = "numeric" ∨ st.system = "additive"

def specInRange (st : Style) (v : Int) : Bool :=
  match st.ranges with
  | some rs => rs.any (fun r => r.1 ≤ v ∧ v ≤ r.2)   -- `infinite` is stored as math.MinInt / math.MaxInt
  | none =>
    if st.system = "alphabetic" ∨ st.system = "symbolic" then v ≥ 1
    else if st.system = "additive" then v ≥ 0
    else true

/-- steps 2-6 for one style; `.inr v'` = use the fallback style with value `v'` (always the same value in
    the specification) -/
def specOne (dev : Dev) (st : Style) (v : Int) : String ⊕ Int :=
  if !specInRange st v then .inr v
  else
    let neg := v < 0 ∧ specUsesNegative st
    match specAlgorithm dev st (if neg then -v else v) with
    | none => .inr (if dev.absFallback ∧ neg then -v else v)
    | some initial =>
      let len : Int := cpLen dev initial + (if neg then cpLen dev st.negPre + cpLen dev st.negSuf else 0)
      let padded := if st.padLen > len then repeatStr st.padSym (st.padLen - len).toNat ++ initial else initial
      .inl (if neg then st.negPre ++ padded ++ st.negSuf else padded)

/-- generate a counter representation, following fallbacks (a loop or an unknown name → decimal) -/
def specRender (dev : Dev) (c : Table) : Nat → Int → String → List String → SpecOut
  | 0, _, _, _ => .undefined
  | fuel + 1, v, name, visited =>
    if (c.get? name).isNone then
      if name = "decimal" then .undefined else specRender dev c fuel v "decimal" []
    else if dev.extUnknownPlain ∧ name ≠ "decimal" ∧ extendsUnknown c (c.length + 1) name then specRender dev c fuel v "decimal" []
    else
      match specStyle c (c.length + 2) name with
      | none => .undefined
      | some st =>
        match specOne dev st v with
        | .inl s => .text s
        | .inr v =>
          let algoUndefined := specInRange st v ∧ (st.system = "symbolic" ∨ st.system = "alphabetic")
          let fb := if (dev.zeroEmpty ∧ algoUndefined) || (c.get? st.fallback).isNone || (name :: visited).contains st.fallback
            then "decimal" else st.fallback
          if name = "decimal" then .undefined   -- decimal represents every integer: never reached
          else specRender dev c fuel v fb (if fb = "decimal" then [] else name :: visited)

def specFuel (c : Table) : Nat := 2 * c.length + 4

def specValueD (dev : Dev) (c : Table) (v : Int) (name : String) : SpecOut := specRender dev c (specFuel c) v name []

def specValue (c : Table) (v : Int) (name : String) : SpecOut := specValueD .none c v name

/-- anonymous styles: `symbols()` (§ 6) and a <string> list-style-type -/
def anonStyle (id : CSID) : Style :=
  if id.type = "string" then
    { system := "cyclic", first := 1, symbols := [id.name], additive := [], negPre := "-", negSuf := "", pre := "", suf := "",
      ranges := none, padLen := 0, padSym := "", fallback := "decimal" }
  else
    { system := id.name, first := 1, symbols := id.symbols, additive := [], negPre := "-", negSuf := "", pre := "", suf := " ",
      ranges := none, padLen := 0, padSym := "", fallback := "decimal" }

def specValueStyleD (dev : Dev) (c : Table) (v : Int) (id : CSID) : SpecOut :=
  if id.type = "string" ∨ id.type = "symbols()" then
    match specOne dev (anonStyle id) v with
    | .inl s => .text s
    | .inr v => specValueD dev c v "decimal"
  else specValueD dev c v id.name

def specValueStyle (c : Table) (v : Int) (id : CSID) : SpecOut := specValueStyleD .none c v id

/-- marker text: prefix and suffix of the style named (not of the fallback that may render the value) -/
def specMarkerD (dev : Dev) (c : Table) (id : CSID) (v : Int) : SpecOut :=
  let st : Option Style :=
    if id.type = "string" ∨ id.type = "symbols()" then some (anonStyle id)
    else if (c.get? id.name).isNone then specStyle c (c.length + 2) "decimal"
    else specStyle c (c.length + 2) id.name
  match st, specValueStyleD dev c v id with
  | some st, .text s => .text (st.pre ++ s ++ st.suf)
  | _, _ => .undefined

def specMarker (c : Table) (id : CSID) (v : Int) : SpecOut := specMarkerD .none c id v

/-! ## Part 2 — counter scopes (CSS Lists 3 §4) -/

/-- one counter of an element's counters set -/
structure Ctr where
  name : String
  creator : Nat
  value : Int
  deriving Repr, DecidableEq

abbrev CSet := List Ctr   -- outermost first

def CSet.values (s : CSet) : Values := fun n => (s.filter (·.name = n)).map (·.value)

/-- §4.4.1 inherit counters -/
def inheritCounters (parent : CSet) (sibling : CSet) (source : CSet) : CSet :=
  let ec := sibling.foldl (fun (ec : CSet) k =>
    if ec.any (fun x => x.name = k.name ∧ x.creator = k.creator) then ec else ec ++ [k]) parent
  ec.map fun x =>
    match source.find? (fun k => k.name = x.name ∧ k.creator = x.creator) with
    | some k => { x with value := k.value }
    | none => x

/-- is there a counter of that name in the set -/
def hasNamed (s : CSet) (name : String) : Bool := s.any (fun k => k.name = name)

/-- remove the innermost (last) counter of that name if `p` holds of it -/
def dropInnermostIf (name : String) (p : Ctr → Bool) : CSet → CSet
  | [] => []
  | k :: rest =>
    if k.name = name ∧ hasNamed rest name = false then (if p k then rest else k :: rest)
    else k :: dropInnermostIf name p rest

/-- apply `f` to the value of the innermost (last) counter of that name -/
def modifyInnermost (name : String) (f : Int → Int) : CSet → CSet
  | [] => []
  | k :: rest =>
    if k.name = name ∧ hasNamed rest name = false then { k with value := f k.value } :: rest
    else k :: modifyInnermost name f rest

/-- §4.4.2 instantiate a counter: "let innermost counter be the last counter in counters with the
    name; if its originating element is element or a previous sibling of element, remove it; append a
    new counter with the name, originating element element and the initial value" -/
def instantiate (s : CSet) (self : Nat) (sibs : List Nat) (name : String) (v : Int) : CSet :=
  dropInnermostIf name (fun k => (self :: sibs).contains k.creator) s ++ [⟨name, self, v⟩]

/-- counter-increment / counter-set: on the innermost counter of the name; "if there is not currently a
    counter of the given name on the element, instantiate a new counter with a starting value of 0
    before setting or incrementing its value" -/
def touch (s : CSet) (self : Nat) (_sibs : List Nat) (name : String) (f : Int → Int) : CSet :=
  if hasNamed s name then modifyInnermost name f s else s ++ [⟨name, self, f 0⟩]

/-- the order of CSS Lists 3 §4: reset, increment, set.  `setFirst = true` is the variant "reset, set,
    increment" (what the code does); it is only used to name the deviation precisely. -/
def applyOps (setFirst : Bool) (s : CSet) (self : Nat) (sibs : List Nat) (o : Ops) : CSet :=
  let s := o.reset.foldl (fun s p => instantiate s self sibs p.1 p.2) s
  if setFirst then
    let s := o.set.foldl (fun s p => touch s self sibs p.1 (fun _ => p.2)) s
    o.increments.foldl (fun s p => touch s self sibs p.1 (· + p.2)) s
  else
    let s := o.increments.foldl (fun s p => touch s self sibs p.1 (· + p.2)) s
    o.set.foldl (fun s p => touch s self sibs p.1 (fun _ => p.2)) s

/-- threaded through the children of one element -/
structure Sib where
  set : CSet            -- counters set of the preceding sibling ([] if none)
  ids : List Nat        -- ids of the preceding siblings
  last : CSet           -- counters set of the element preceding in tree order
  next : Nat            -- next fresh id

def specPseudo (sf : Bool) (k : ObsKind) (p : Option Ops) (parent : CSet) (sb : Sib) : Sib × List Obs :=
  match p with
  | none => (sb, [])
  | some o =>
    ({ set := applyOps sf (inheritCounters parent sb.set sb.last) sb.next sb.ids o, ids := sb.next :: sb.ids,
       last := applyOps sf (inheritCounters parent sb.set sb.last) sb.next sb.ids o, next := sb.next + 1 },
     (if o.listItem then [⟨.marker, (applyOps sf (inheritCounters parent sb.set sb.last) sb.next sb.ids o).values⟩] else [])
       ++ [⟨k, (applyOps sf (inheritCounters parent sb.set sb.last) sb.next sb.ids o).values⟩])

mutual
  /-- an element: inherit, apply its own properties, then visit ::before, the children and ::after as
      its children (their "parent" set is the element's), and hand its own set to the next sibling
      together with the set of the last element visited (the value source) -/
  def specWalk (sf : Bool) : Elem → CSet → Sib → Sib × List Obs
    | .node dn ops b a ch, parent, sb =>
      if dn then (sb, [])
      else
        let s := applyOps sf (inheritCounters parent sb.set sb.last) sb.next sb.ids ops
        let mo : List Obs := if ops.listItem then [⟨.marker, s.values⟩] else []
        let r1 := specPseudo sf .before b s { set := [], ids := [], last := s, next := sb.next + 1 }
        let r2 := specWalkList sf ch s r1.1
        let r3 := specPseudo sf .after a s r2.1
        ({ set := s, ids := sb.next :: sb.ids, last := r3.1.last, next := r3.1.next }, mo ++ r1.2 ++ r2.2 ++ r3.2)
  def specWalkList (sf : Bool) : List Elem → CSet → Sib → Sib × List Obs
    | [], _, sb => (sb, [])
    | e :: es, parent, sb =>
      ((specWalkList sf es parent (specWalk sf e parent sb).1).1,
       (specWalk sf e parent sb).2 ++ (specWalkList sf es parent (specWalk sf e parent sb).1).2)
end

/-- the root starts with the `footnote` counter the renderer defines for the document -/
def specObserveOrd (setFirst : Bool) (root : Elem) : List Obs :=
  let doc : CSet := [⟨"footnote", 0, 0⟩]
  (specWalk setFirst root [] { set := doc, ids := [0], last := doc, next := 1 }).2

def specObserve (root : Elem) : Option (List Obs) := some (specObserveOrd false root)

end WR.C19
