/-
  C19 — model of the counter scope machinery of html/boxes/build.go:
    UpdateCounters (counter-reset, then counter-increment, then counter-set — the order of CSS Lists 3,
    since the fix 8b9de81 of /repo; set came before increment until then), the push/pop of `state.CounterScopes` in elementToBox, the `UpdateCounters` of
    ::before / ::after in the scope of the element's children, and what `counter()` / `counters()`
    / the list marker read.

  `tree.CounterValues` (map name → stack of values, innermost last; a key is present iff its stack is
  non-empty) is modelled as a function `String → List Int` with `[]` = absent.
-/
namespace WR.C19

/-- the computed counter properties of one box-generating style -/
structure Ops where
  reset : List (String × Int)
  set : List (String × Int)
  incr : Option (List (String × Int))   -- `none` = the initial value "auto"
  listItem : Bool                        -- display has list-item
  deriving Repr, Inhabited

/-- an element: `display:none` flag, its own properties, the properties of its ::before / ::after
    (`none` = the pseudo-element generates no box), element children (text nodes play no role) -/
inductive Elem where
  | node (displayNone : Bool) (ops : Ops) (before after : Option Ops) (children : List Elem)
  deriving Repr, Inhabited

abbrev Values := String → List Int

def Values.put (m : Values) (name : String) (v : List Int) : Values :=
  fun n => if n = name then v else m n

structure State where
  values : Values
  scopes : List (List String)   -- head = the set of names created among the current siblings

/-- the state elementToBox starts with -/
def State.init : State :=
  { values := Values.put (fun _ => []) "footnote" [0], scopes := [["footnote"]] }

/-- one `counter-reset` entry; `none` = Go would panic (slice bounds) -/
def resetOne (vals : Values) (sib : List String) (name : String) (v : Int) : Option (Values × List String) :=
  let sl := vals name
  if sib.contains name then
    if sl.isEmpty then none else some (vals.put name (sl.dropLast ++ [v]), sib)
  else some (vals.put name (sl ++ [v]), name :: sib)

/-- one `counter-set` (`f = fun _ => v`) or `counter-increment` (`f = (· + v)`) entry -/
def touchOne (vals : Values) (sib : List String) (name : String) (f : Int → Int) : Values × List String :=
  match (vals name).getLast? with
  | none => (vals.put name [f 0], if sib.contains name then sib else name :: sib)
  | some x => (vals.put name ((vals name).dropLast ++ [f x]), sib)

def resetAll : List (String × Int) → Values → List String → Option (Values × List String)
  | [], vals, sib => some (vals, sib)
  | (n, v) :: rest, vals, sib =>
    match resetOne vals sib n v with
    | none => none
    | some (vals, sib) => resetAll rest vals sib

def setAll : List (String × Int) → Values × List String → Values × List String
  | [], st => st
  | (n, v) :: rest, (vals, sib) => setAll rest (touchOne vals sib n (fun _ => v))

def incrAll : List (String × Int) → Values × List String → Values × List String
  | [], st => st
  | (n, v) :: rest, (vals, sib) => incrAll rest (touchOne vals sib n (· + v))

def Ops.increments (o : Ops) : List (String × Int) :=
  match o.incr with
  | some l => l
  | none => if o.listItem then [("list-item", 1)] else []

/-- `UpdateCounters` -/
def updateCounters (st : State) (o : Ops) : Option State :=
  match st.scopes with
  | [] => none
  | sib :: up =>
    match resetAll o.reset st.values sib with
    | none => none
    | some (vals, sib) =>
      let (vals, sib) := setAll o.set (incrAll o.increments (vals, sib))
      some { values := vals, scopes := sib :: up }

inductive ObsKind where
  | marker | before | after
  deriving Repr, DecidableEq

/-- what a `counters(name, sep)` evaluated at that point lists (outermost first) -/
structure Obs where
  kind : ObsKind
  values : Values

/-- `counters(name)`: all instances, outermost first; `[0]` when there is none -/
def Obs.counters (o : Obs) (name : String) : List Int :=
  match o.values name with
  | [] => [0]
  | l => l

/-- `counter(name)`: the innermost instance; 0 when there is none -/
def Obs.counter (o : Obs) (name : String) : Int := ((o.values name).getLast?).getD 0

/-- ::before / ::after: `UpdateCounters(state, style)`, then the marker of a `display: list-item`
    pseudo-element, then the content — both read the updated counters -/
def pseudo (k : ObsKind) (p : Option Ops) (st : State) : Option (State × List Obs) :=
  match p with
  | none => some (st, [])
  | some o =>
    match updateCounters st o with
    | none => none
    | some st => some (st, (if o.listItem then [⟨.marker, st.values⟩] else []) ++ [⟨k, st.values⟩])

/-- end of elementToBox: the scope of the children is closed -/
def popScope (st : State) : Option State :=
  match st.scopes with
  | [] => none
  | sc :: up =>
    match sc.foldl (fun (acc : Option Values) n =>
        match acc with
        | none => none
        | some vals => if (vals n).isEmpty then none else some (vals.put n (vals n).dropLast)) (some st.values) with
    | none => none
    | some vals => some { values := vals, scopes := up }

mutual
  /-- `elementToBox`, restricted to its effect on the counter state and to what is read from it -/
  def walk : Elem → State → Option (State × List Obs)
    | .node dn ops b a ch, st =>
      if dn then some (st, [])
      else match updateCounters st ops with
        | none => none
        | some st =>
          let st : State := { st with scopes := [] :: st.scopes }
          let mo : List Obs := if ops.listItem then [⟨.marker, st.values⟩] else []
          match pseudo .before b st with
          | none => none
          | some (st, bo) =>
            match walkList ch st with
            | none => none
            | some (st, co) =>
              match pseudo .after a st with
              | none => none
              | some (st, ao) =>
                match popScope st with
                | none => none
                | some st => some (st, mo ++ bo ++ co ++ ao)
  def walkList : List Elem → State → Option (State × List Obs)
    | [], st => some (st, [])
    | e :: es, st =>
      match walk e st with
      | none => none
      | some (st, o1) =>
        match walkList es st with
        | none => none
        | some (st, o2) => some (st, o1 ++ o2)
end

/-- the whole document, from the root element -/
def observe (root : Elem) : Option (List Obs) := (walk root State.init).map (·.2)

end WR.C19
