/-
  C19 — tree-level scope_spec, layer 3: the inheritance rule of CSS Lists 3 §4.4.1 (copy of the
  parent's set, plus the preceding sibling's counters that are new, values from the element preceding
  in tree order), per name, and the facts that make it reconstruct the threaded set.
-/
import WR.C19.ScopeThread
namespace WR.C19

/-- step 3 of "inherit counters", on one name: the sibling's counters whose creator is not there yet -/
def addNew (base sibl : PL) : PL :=
  sibl.foldl (fun acc vc => if acc.any (fun x => x.2 = vc.2) then acc else acc ++ [vc]) base

/-- step 4, on one counter: the value of the counter with the same creator in the value source -/
def refreshL (src : PL) (vc : Int × Nat) : Int × Nat :=
  match src.find? (fun x => x.2 = vc.2) with
  | some x => (x.1, vc.2)
  | none => vc

theorem any_proj (ec : CSet) (n : String) (c : Nat) :
    ec.any (fun x => x.name = n ∧ x.creator = c) = (proj ec n).any (fun x => x.2 = c) := by
  induction ec with
  | nil => simp [proj]
  | cons k rest ih =>
    rw [List.any_cons, ih, proj_cons]
    by_cases hn : k.name = n <;> simp [hn]

theorem find_proj (L : CSet) (n : String) (c : Nat) :
    (L.find? (fun k => k.name = n ∧ k.creator = c)).map (fun k => (k.value, k.creator)) =
      (proj L n).find? (fun x => x.2 = c) := by
  induction L with
  | nil => simp [proj]
  | cons k rest ih =>
    rw [proj_cons]
    by_cases hn : k.name = n
    · by_cases hc : k.creator = c
      · simp [List.find?_cons, hn, hc]
      · simpa [List.find?_cons, hn, hc] using ih
    · simpa [List.find?_cons, hn] using ih

theorem proj_fold_sibling (n : String) : ∀ (S ec : CSet),
    proj (S.foldl (fun (ec : CSet) k =>
      if ec.any (fun x => x.name = k.name ∧ x.creator = k.creator) then ec else ec ++ [k]) ec) n =
      addNew (proj ec n) (proj S n) := by
  intro S
  induction S with
  | nil => intro ec; simp [addNew, proj]
  | cons k rest ih =>
    intro ec
    rw [List.foldl_cons, ih, proj_cons]
    by_cases hn : k.name = n
    · subst hn
      simp only [if_true, addNew, List.singleton_append, List.foldl_cons]
      congr 1
      rw [← any_proj]
      by_cases ha : ec.any (fun x => x.name = k.name ∧ x.creator = k.creator) = true
      · simp only [ha, if_true]
      · simp only [ha, Bool.false_eq_true, if_false, proj_append_one, if_true]
    · simp only [hn, if_false, List.nil_append]
      congr 1
      by_cases ha : ec.any (fun x => x.name = k.name ∧ x.creator = k.creator) = true
      · simp only [ha, if_true]
      · simp only [ha, Bool.false_eq_true, if_false, proj_append_one, hn, List.append_nil]

theorem proj_map_refresh (L : CSet) (n : String) : ∀ ec : CSet,
    proj (ec.map fun x =>
      match L.find? (fun k => k.name = x.name ∧ k.creator = x.creator) with
      | some k => { x with value := k.value }
      | none => x) n = (proj ec n).map (refreshL (proj L n)) := by
  intro ec
  induction ec with
  | nil => simp [proj]
  | cons x rest ih =>
    rw [List.map_cons, proj_cons, proj_cons, List.map_append, ← ih]
    have hf := find_proj L x.name x.creator
    cases hx : L.find? (fun k => k.name = x.name ∧ k.creator = x.creator) with
    | none =>
      rw [hx] at hf
      by_cases hn : x.name = n
      · subst hn
        simp only [if_true, List.map_cons, List.map_nil, refreshL, ← hf, Option.map_none]
      · simp [hn]
    | some k =>
      rw [hx] at hf
      by_cases hn : x.name = n
      · subst hn
        simp only [if_true, List.map_cons, List.map_nil, refreshL, ← hf, Option.map_some]
      · simp [hn]

/-- inherit_per_name: the standard's inheritance, on the counters of one name -/
theorem proj_inherit (P S L : CSet) (n : String) :
    proj (inheritCounters P S L) n = (addNew (proj P n) (proj S n)).map (refreshL (proj L n)) := by
  have h := proj_map_refresh L n (S.foldl (fun (ec : CSet) k =>
      if ec.any (fun x => x.name = k.name ∧ x.creator = k.creator) then ec else ec ++ [k]) P)
  rw [proj_fold_sibling] at h
  exact h

/-! ### facts on one name's list -/

theorem mem_crs {x : Int × Nat} {l : PL} (h : x ∈ l) : x.2 ∈ crs l := List.mem_map_of_mem h

theorem crs_map_refresh (src l : PL) : crs (l.map (refreshL src)) = crs l := by
  induction l with
  | nil => rfl
  | cons a t ih =>
    simp only [crs, List.map_cons] at ih ⊢
    rw [ih]
    congr 1
    unfold refreshL
    split <;> rfl

theorem addNew_skip : ∀ (σ acc : PL), (∀ x ∈ σ, x.2 ∈ crs acc) → addNew acc σ = acc := by
  intro σ
  induction σ with
  | nil => intro acc _; rfl
  | cons a t ih =>
    intro acc h
    have ha : acc.any (fun x => x.2 = a.2) = true := by
      have := h a (List.mem_cons_self ..)
      simp only [crs, List.mem_map] at this
      obtain ⟨y, hy, he⟩ := this
      simp only [List.any_eq_true, decide_eq_true_eq]
      exact ⟨y, hy, he⟩
    simp only [addNew, List.foldl_cons, ha, if_true]
    exact ih acc (fun x hx => h x (List.mem_cons_of_mem _ hx))

theorem addNew_append : ∀ (σ acc : PL), (∀ x ∈ σ, x.2 ∉ crs acc) → (crs σ).Nodup → addNew acc σ = acc ++ σ := by
  intro σ
  induction σ with
  | nil => intro acc _ _; simp [addNew]
  | cons a t ih =>
    intro acc h hn
    have ha : acc.any (fun x => x.2 = a.2) = false := by
      have := h a (List.mem_cons_self ..)
      rw [Bool.eq_false_iff]
      intro hany
      simp only [List.any_eq_true, decide_eq_true_eq] at hany
      obtain ⟨y, hy, he⟩ := hany
      exact this (by simp only [crs, List.mem_map]; exact ⟨y, hy, he⟩)
    simp only [crs, List.map_cons, List.nodup_cons] at hn
    have := ih (acc ++ [a]) (by
      intro x hx
      rw [crs_append]
      intro hm
      rcases List.mem_append.mp hm with h1 | h1
      · exact h x (List.mem_cons_of_mem _ hx) h1
      · simp only [crs, List.map_cons, List.map_nil, List.mem_singleton] at h1
        exact hn.1 (by rw [← h1]; exact List.mem_map_of_mem hx)) hn.2
    simp only [addNew, List.foldl_cons, ha, Bool.false_eq_true, if_false]
    simp only [addNew] at this
    rw [this, List.append_assoc, List.singleton_append]

theorem crs_addNew (p sl : PL) : crs p <+: crs (addNew p sl) := by
  unfold addNew
  induction sl generalizing p with
  | nil => exact List.prefix_rfl
  | cons a t ih =>
    rw [List.foldl_cons]
    split
    · exact ih p
    · exact List.IsPrefix.trans (by rw [crs_append]; exact List.prefix_append _ _) (ih (p ++ [a]))

/-- the sibling has the parent's counters as a prefix: inheriting adds nothing the sibling does not have -/
theorem crs_addNew_prefix {p σ : PL} (hp : crs p <+: crs σ) (hn : (crs σ).Nodup) : crs (addNew p σ) = crs σ := by
  have e : σ = σ.take p.length ++ σ.drop p.length := (List.take_append_drop _ _).symm
  have h1 : crs (σ.take p.length) = crs p := by
    have := List.prefix_iff_eq_take.mp hp
    simp only [crs, List.map_take, List.length_map] at this ⊢
    exact this.symm
  have hn' : (crs (σ.take p.length) ++ crs (σ.drop p.length)).Nodup := by rw [← crs_append, ← e]; exact hn
  rw [List.nodup_append] at hn'
  obtain ⟨_, hn2, hdis⟩ := hn'
  have hfold : addNew p σ = addNew (addNew p (σ.take p.length)) (σ.drop p.length) := by
    conv => lhs; rw [e]
    simp only [addNew, List.foldl_append]
  have hs : addNew p (σ.take p.length) = p :=
    addNew_skip _ _ (by intro x hx; rw [← h1]; exact mem_crs hx)
  have ha : addNew p (σ.drop p.length) = p ++ σ.drop p.length :=
    addNew_append _ _ (by
      intro x hx hm
      rw [← h1] at hm
      exact hdis _ hm _ (mem_crs hx) rfl) hn2
  rw [hfold, hs, ha, crs_append, ← h1, ← crs_append, ← e]

theorem unique_by_creator : ∀ {l : PL}, (crs l).Nodup → ∀ {x y : Int × Nat}, x ∈ l → y ∈ l → x.2 = y.2 → x = y := by
  intro l
  induction l with
  | nil => intro _ x y hx; cases hx
  | cons a t ih =>
    intro hn x y hx hy he
    simp only [crs, List.map_cons, List.nodup_cons] at hn
    rcases List.mem_cons.mp hx with rfl | hx'
    · rcases List.mem_cons.mp hy with rfl | hy'
      · rfl
      · exact absurd (by rw [he]; exact List.mem_map_of_mem hy') hn.1
    · rcases List.mem_cons.mp hy with rfl | hy'
      · exact absurd (by rw [← he]; exact List.mem_map_of_mem hx') hn.1
      · exact ih hn.2 hx' hy' he

theorem refreshL_of_mem {src : PL} (hn : (crs src).Nodup) {w : Int} {c : Nat} (hm : (w, c) ∈ src) (v : Int) :
    refreshL src (v, c) = (w, c) := by
  unfold refreshL
  cases hf : src.find? (fun x => x.2 = (v, c).2) with
  | none =>
    have := List.find?_eq_none.mp hf (w, c) hm
    simp at this
  | some x =>
    have hx := List.mem_of_find?_eq_some hf
    have hp := List.find?_some hf
    simp only [decide_eq_true_eq] at hp
    have : x = (w, c) := unique_by_creator hn hx hm hp
    rw [this]

/-- refreshing a list that has the creators of `κ` from a source that contains `κ` gives `κ` -/
theorem refresh_eq {src : PL} (hn : (crs src).Nodup) : ∀ (A κ : PL), crs A = crs κ → (∀ vc ∈ κ, vc ∈ src) →
    A.map (refreshL src) = κ := by
  intro A
  induction A with
  | nil =>
    intro κ hc _
    cases κ with
    | nil => rfl
    | cons b t => simp [crs] at hc
  | cons a t ih =>
    intro κ hc hsub
    cases κ with
    | nil => simp [crs] at hc
    | cons b κ' =>
      simp only [crs, List.map_cons, List.cons.injEq] at hc
      rw [List.map_cons, ih κ' hc.2 (fun vc h => hsub vc (List.mem_cons_of_mem _ h))]
      congr 1
      obtain ⟨av, ac⟩ := a
      obtain ⟨bv, bc⟩ := b
      simp only at hc
      rw [hc.1]
      exact refreshL_of_mem hn (hsub (bv, bc) (List.mem_cons_self ..)) av

/-! ### the parent's counters stay a prefix -/

theorem opReset_prefix {ids : List Nat} {self : Nat} {v : Int} {p l : PL} (hp : crs p <+: crs l)
    (hold : ∀ c ∈ crs p, c ∉ ids) : crs p <+: crs (opReset ids self v l) := by
  rcases snoc_cases l with rfl | ⟨l', a, rfl⟩
  · have : crs p = [] := List.prefix_nil.mp hp
    rw [this]; exact List.nil_prefix
  · by_cases hq : a.2 ∈ ids
    · rw [opReset_pos hq, crs_append]
      rw [crs_append] at hp
      rcases List.prefix_concat_iff.mp hp with h1 | h1
      · exfalso
        have : a.2 ∈ crs p := by rw [h1]; simp [crs]
        exact hold _ this hq
      · exact List.IsPrefix.trans h1 (List.prefix_append _ _)
    · rw [opReset_neg hq, crs_append]
      exact List.IsPrefix.trans hp (List.prefix_append _ _)

theorem opTouch_prefix {self : Nat} {f : Int → Int} {p l : PL} (hp : crs p <+: crs l) :
    crs p <+: crs (opTouch self f l) := by
  by_cases hne : l = []
  · subst hne
    have : crs p = [] := List.prefix_nil.mp hp
    rw [this]; exact List.nil_prefix
  · rw [opTouch_crs hne]; exact hp

/-- the counters of `P` are, per name, a prefix of those of `X` -/
def PrefixOf (P X : CSet) : Prop := ∀ n, crs (proj P n) <+: crs (proj X n)

theorem prefix_applyOps {P X : CSet} {self : Nat} {ids : List Nat} (o : Ops) (hp : PrefixOf P X)
    (hold : ∀ n, ∀ c ∈ crs (proj P n), c ∉ self :: ids) : PrefixOf P (applyOps false X self ids o) := by
  have hi : ∀ (rs : List (String × Int)) (X : CSet), PrefixOf P X →
      PrefixOf P (rs.foldl (fun s p => instantiate s self ids p.1 p.2) X) := by
    intro rs
    induction rs with
    | nil => intro X h; exact h
    | cons r rest ih =>
      intro X h
      apply ih
      intro n
      rw [proj_instantiate]
      by_cases hn : n = r.1
      · subst hn; simp only [if_true]; exact opReset_prefix (h r.1) (hold r.1)
      · simp only [hn, if_false]; exact h n
  have ht : ∀ (g : String × Int → Int → Int) (ps : List (String × Int)) (X : CSet), PrefixOf P X →
      PrefixOf P (ps.foldl (fun s p => touch s self ids p.1 (g p)) X) := by
    intro g ps
    induction ps with
    | nil => intro X h; exact h
    | cons r rest ih =>
      intro X h
      apply ih
      intro n
      rw [proj_touch]
      by_cases hn : n = r.1
      · subst hn; simp only [if_true]; exact opTouch_prefix (h r.1)
      · simp only [hn, if_false]; exact h n
  have h1 := hi o.reset X hp
  have h2 := ht (fun p => (· + p.2)) o.increments _ h1
  have h3 := ht (fun p => fun _ => p.2) o.set _ h2
  simpa [applyOps] using h3

/-! ### `applyOps` only looks at the per-name lists -/

theorem applyOps_congr {X Y : CSet} (self : Nat) (ids : List Nat) (o : Ops) (h : ∀ n, proj X n = proj Y n) :
    ∀ n, proj (applyOps false X self ids o) n = proj (applyOps false Y self ids o) n := by
  have hi : ∀ (rs : List (String × Int)) (X Y : CSet), (∀ n, proj X n = proj Y n) →
      ∀ n, proj (rs.foldl (fun s p => instantiate s self ids p.1 p.2) X) n =
        proj (rs.foldl (fun s p => instantiate s self ids p.1 p.2) Y) n := by
    intro rs
    induction rs with
    | nil => intro X Y h; exact h
    | cons r rest ih =>
      intro X Y h
      apply ih
      intro n
      rw [proj_instantiate, proj_instantiate, h n, h r.1]
  have ht : ∀ (g : String × Int → Int → Int) (ps : List (String × Int)) (X Y : CSet), (∀ n, proj X n = proj Y n) →
      ∀ n, proj (ps.foldl (fun s p => touch s self ids p.1 (g p)) X) n =
        proj (ps.foldl (fun s p => touch s self ids p.1 (g p)) Y) n := by
    intro g ps
    induction ps with
    | nil => intro X Y h; exact h
    | cons r rest ih =>
      intro X Y h
      apply ih
      intro n
      rw [proj_touch, proj_touch, h n, h r.1]
  have h1 := hi o.reset X Y h
  have h2 := ht (fun p => (· + p.2)) o.increments _ _ h1
  have h3 := ht (fun p => fun _ => p.2) o.set _ _ h2
  simpa [applyOps] using h3

end WR.C19
