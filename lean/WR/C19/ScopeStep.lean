/-
  C19 — the element-local step of scope_spec: `UpdateCounters` on the instance stacks (Scope.lean)
  refines `applyOps` on a CSS Lists 3 counters set (Spec.lean), for every set, every op list.

  `proj s n` = the (value, creator) pairs of the counters named `n`, outermost first.  The stacks of
  the model are the values; the model's "names created among the current siblings" are the names whose
  innermost counter was created by the element or a preceding sibling.
-/
import WR.C19.Spec
namespace WR.C19

def proj (s : CSet) (n : String) : List (Int × Nat) :=
  (s.filter (fun k => k.name = n)).map (fun k => (k.value, k.creator))

theorem proj_nil (n : String) : proj [] n = [] := rfl

theorem getLast?_append_ne {α} (a b : List α) (h : b ≠ []) : (a ++ b).getLast? = b.getLast? := by
  rw [List.getLast?_append]
  cases hb : b.getLast? with
  | none => simp at hb; exact absurd hb h
  | some x => simp

theorem proj_cons (k : Ctr) (rest : CSet) (n : String) :
    proj (k :: rest) n = (if k.name = n then [(k.value, k.creator)] else []) ++ proj rest n := by
  unfold proj
  by_cases h : k.name = n <;> simp [List.filter_cons, h]

theorem proj_append_one (s : CSet) (k : Ctr) (n : String) :
    proj (s ++ [k]) n = proj s n ++ (if k.name = n then [(k.value, k.creator)] else []) := by
  unfold proj
  by_cases h : k.name = n <;> simp [List.filter_append, List.filter_cons, h]

theorem values_eq_proj (s : CSet) (n : String) : CSet.values s n = (proj s n).map (·.1) := by
  unfold CSet.values proj
  simp [List.map_map, Function.comp_def]

theorem hasNamed_eq (s : CSet) (n : String) : hasNamed s n = !(proj s n).isEmpty := by
  induction s with
  | nil => simp [hasNamed, proj]
  | cons k rest ih =>
    have e : hasNamed (k :: rest) n = (decide (k.name = n) || hasNamed rest n) := by simp [hasNamed]
    rw [e, ih, proj_cons]
    by_cases h : k.name = n <;> simp [h]

/-- what `dropInnermostIf` does to every name -/
theorem proj_drop (name : String) (q : Nat → Bool) (s : CSet) (n : String) :
    proj (dropInnermostIf name (fun k => q k.creator) s) n =
      if n = name then
        (match (proj s name).getLast? with
          | some vc => if q vc.2 then (proj s name).dropLast else proj s name
          | none => proj s name)
      else proj s n := by
  induction s with
  | nil => simp [dropInnermostIf, proj]
  | cons k rest ih =>
    simp only [dropInnermostIf]
    by_cases hc : k.name = name ∧ hasNamed rest name = false
    · obtain ⟨hk, hr⟩ := hc
      have hre : proj rest name = [] := by
        have := hasNamed_eq rest name; rw [hr] at this; simpa using this.symm
      simp only [hk, hr, and_self, if_true]
      by_cases hn : n = name
      · subst hn
        simp only [if_true, proj_cons, hk, hre, List.append_nil, List.getLast?_singleton]
        by_cases hq : q k.creator = true
        · simp [hq, hre]
        · simp [hq, proj_cons, hk, hre]
      · simp only [hn, if_false]
        by_cases hq : q k.creator = true
        · have : ¬ k.name = n := by rw [hk]; exact fun h => hn h.symm
          simp [hq, proj_cons, this]
        · simp [hq]
    · rw [if_neg hc, proj_cons, ih]
      by_cases hn : n = name
      · subst hn
        simp only [if_true, proj_cons]
        by_cases hr : hasNamed rest n = true
        · have hne : proj rest n ≠ [] := by
            have := hasNamed_eq rest n; rw [hr] at this
            intro h0; rw [h0] at this; simp at this
          rw [getLast?_append_ne _ _ hne]
          cases hl : (proj rest n).getLast? with
          | none => simp
          | some vc =>
            simp only
            by_cases hq : q vc.2 = true
            · simp only [hq, if_true]; rw [List.dropLast_append_of_ne_nil hne]
            · simp [hq]
        · have hkn : ¬ k.name = n := fun hk => hc ⟨hk, by simpa using hr⟩
          have hre : proj rest n = [] := by
            have := hasNamed_eq rest n
            have hr' : hasNamed rest n = false := by simpa using hr
            rw [hr'] at this; simpa using this.symm
          simp [hkn, hre]
      · simp [hn, proj_cons]

/-- what `modifyInnermost` does to every name -/
theorem proj_modify (name : String) (f : Int → Int) (s : CSet) (n : String) :
    proj (modifyInnermost name f s) n =
      if n = name then
        (match (proj s name).getLast? with
          | some vc => (proj s name).dropLast ++ [(f vc.1, vc.2)]
          | none => proj s name)
      else proj s n := by
  induction s with
  | nil => simp [modifyInnermost, proj]
  | cons k rest ih =>
    simp only [modifyInnermost]
    by_cases hc : k.name = name ∧ hasNamed rest name = false
    · obtain ⟨hk, hr⟩ := hc
      have hre : proj rest name = [] := by
        have := hasNamed_eq rest name; rw [hr] at this; simpa using this.symm
      simp only [hk, hr, and_self, if_true]
      by_cases hn : n = name
      · subst hn; simp [proj_cons, hk, hre]
      · have : ¬ k.name = n := by rw [hk]; exact fun h => hn h.symm
        have hn' : ¬ name = n := fun h => hn h.symm
        simp [hn, hn', proj_cons, this, hk]
    · rw [if_neg hc, proj_cons, ih]
      by_cases hn : n = name
      · subst hn
        simp only [if_true, proj_cons]
        by_cases hr : hasNamed rest n = true
        · have hne : proj rest n ≠ [] := by
            have := hasNamed_eq rest n; rw [hr] at this
            intro h0; rw [h0] at this; simp at this
          rw [getLast?_append_ne _ _ hne]
          cases hl : (proj rest n).getLast? with
          | none => simp
          | some vc => simp only; rw [List.dropLast_append_of_ne_nil hne, List.append_assoc]
        · have hkn : ¬ k.name = n := fun hk => hc ⟨hk, by simpa using hr⟩
          have hre : proj rest n = [] := by
            have := hasNamed_eq rest n
            have hr' : hasNamed rest n = false := by simpa using hr
            rw [hr'] at this; simpa using this.symm
          simp [hkn, hre]
      · simp [hn, proj_cons]

/-- the model state (stacks, sibling-scope names) represents the counters set `E` as seen by an
    element whose own id and preceding siblings' ids are `ids` -/
structure Match (E : CSet) (ids : List Nat) (vals : Values) (sib : List String) : Prop where
  vals : ∀ n, vals n = (proj E n).map (·.1)
  sib : ∀ n, sib.contains n = (match (proj E n).getLast? with
    | some vc => ids.contains vc.2
    | none => false)

theorem map_fst_nil {l : List (Int × Nat)} (h : l.map (·.1) = []) : l = [] := by
  cases l with
  | nil => rfl
  | cons a t => simp at h

/-- one `counter-reset` entry -/
theorem reset_refines (E : CSet) (self : Nat) (sibs : List Nat) (vals : Values) (sib : List String)
    (name : String) (v : Int) (h : Match E (self :: sibs) vals sib) :
    ∃ vals' sib', resetOne vals sib name v = some (vals', sib') ∧
      Match (instantiate E self sibs name v) (self :: sibs) vals' sib' := by
  have hs := h.sib name
  have hv := h.vals name
  have hproj : ∀ n, proj (instantiate E self sibs name v) n =
      (if n = name then
        (match (proj E name).getLast? with
          | some vc => if (self :: sibs).contains vc.2 then (proj E name).dropLast else proj E name
          | none => proj E name)
      else proj E n) ++ (if name = n then [(v, self)] else []) := by
    intro n
    unfold instantiate
    rw [proj_append_one, proj_drop name (fun c => (self :: sibs).contains c)]
  by_cases hc : sib.contains name = true
  · -- replaced: the innermost instance was created by the element or a preceding sibling
    rw [hc] at hs
    cases hl : (proj E name).getLast? with
    | none => rw [hl] at hs; simp at hs
    | some vc =>
      rw [hl] at hs
      have hq : (self :: sibs).contains vc.2 = true := hs.symm
      have hne : (vals name).isEmpty = false := by
        rw [hv]
        cases hp : proj E name with
        | nil => rw [hp] at hl; simp at hl
        | cons a t => simp
      have hmem : name ∈ sib := by simpa using hc
      refine ⟨vals.put name ((vals name).dropLast ++ [v]), sib, by simp [resetOne, hmem, hne], ?_, ?_⟩
      · intro n
        rw [hproj n]
        by_cases hn : n = name
        · subst hn
          simp only [Values.put, if_true, hl, hq, hv, List.map_append, List.map_dropLast]
          simp
        · have hn' : ¬ name = n := fun e => hn e.symm
          simp only [Values.put, hn, hn', if_false, List.append_nil]
          exact h.vals n
      · intro n
        rw [hproj n]
        by_cases hn : n = name
        · subst hn
          simp only [if_true, hl, hq, hc]
          rw [getLast?_append_ne _ _ (by simp)]
          simp
        · have hn' : ¬ name = n := fun e => hn e.symm
          simp only [hn, hn', if_false, List.append_nil]
          exact h.sib n
  · -- nested: a new instance inside the existing ones
    have hc' : sib.contains name = false := by simpa using hc
    rw [hc'] at hs
    have hkeep : (match (proj E name).getLast? with
        | some vc => if (self :: sibs).contains vc.2 then (proj E name).dropLast else proj E name
        | none => proj E name) = proj E name := by
      cases hl : (proj E name).getLast? with
      | none => rfl
      | some vc =>
        rw [hl] at hs
        have hq : (self :: sibs).contains vc.2 = false := hs.symm
        simp only [hq]; simp
    have hnm : name ∉ sib := by simpa using hc'
    refine ⟨vals.put name (vals name ++ [v]), name :: sib, by simp [resetOne, hnm], ?_, ?_⟩
    · intro n
      rw [hproj n]
      by_cases hn : n = name
      · subst hn
        simp only [Values.put, if_true, hkeep, hv, List.map_append]
        simp
      · have hn' : ¬ name = n := fun e => hn e.symm
        simp only [Values.put, hn, hn', if_false, List.append_nil]
        exact h.vals n
    · intro n
      rw [hproj n]
      by_cases hn : n = name
      · subst hn
        simp only [if_true, hkeep]
        rw [getLast?_append_ne _ _ (by simp)]
        simp
      · have hn' : ¬ name = n := fun e => hn e.symm
        simp only [hn, hn', if_false, List.append_nil]
        rw [← h.sib n]
        simp [List.contains_cons, hn]

/-- one `counter-increment` / `counter-set` entry -/
theorem touch_refines (E : CSet) (self : Nat) (sibs : List Nat) (vals : Values) (sib : List String)
    (name : String) (f : Int → Int) (h : Match E (self :: sibs) vals sib) :
    Match (touch E self sibs name f) (self :: sibs) (touchOne vals sib name f).1 (touchOne vals sib name f).2 := by
  have hs := h.sib name
  have hv := h.vals name
  cases hg : (vals name).getLast? with
  | none =>
    have hnil : vals name = [] := by simpa using hg
    have hE : proj E name = [] := map_fst_nil (by rw [← hv]; exact hnil)
    have hhas : hasNamed E name = false := by rw [hasNamed_eq, hE]; rfl
    have hc : sib.contains name = false := by rw [hs, hE]; rfl
    have hproj : ∀ n, proj (touch E self sibs name f) n = proj E n ++ (if name = n then [(f 0, self)] else []) := by
      intro n; simp only [touch, hhas, Bool.false_eq_true, if_false]; rw [proj_append_one]
    simp only [touchOne, hg, hc, Bool.false_eq_true, if_false]
    constructor
    · intro n
      rw [hproj n]
      by_cases hn : n = name
      · subst hn; simp [Values.put, hE]
      · have hn' : ¬ name = n := fun e => hn e.symm
        simp only [Values.put, hn, hn', if_false, List.append_nil]; exact h.vals n
    · intro n
      rw [hproj n]
      by_cases hn : n = name
      · subst hn; simp [hE]
      · have hn' : ¬ name = n := fun e => hn e.symm
        simp only [hn', if_false, List.append_nil]
        rw [← h.sib n]; simp [List.contains_cons, hn]
  | some x =>
    have hne : proj E name ≠ [] := by
      intro h0; rw [hv, h0] at hg; simp at hg
    obtain ⟨vc, hl⟩ : ∃ vc, (proj E name).getLast? = some vc := by
      cases hp : (proj E name).getLast? with
      | none => simp at hp; exact absurd hp hne
      | some vc => exact ⟨vc, rfl⟩
    have hx : vc.1 = x := by
      have : ((proj E name).map (·.1)).getLast? = some vc.1 := by rw [List.getLast?_map, hl]; rfl
      rw [← hv, hg] at this; exact (Option.some.inj this).symm
    have hhas : hasNamed E name = true := by
      rw [hasNamed_eq]; cases hp : proj E name with
      | nil => exact absurd hp hne
      | cons a t => rfl
    have hproj : ∀ n, proj (touch E self sibs name f) n =
        if n = name then (proj E name).dropLast ++ [(f vc.1, vc.2)] else proj E n := by
      intro n; simp only [touch, hhas, if_true]; rw [proj_modify, hl]
    simp only [touchOne, hg]
    constructor
    · intro n
      rw [hproj n]
      by_cases hn : n = name
      · subst hn; simp [Values.put, hv, List.map_dropLast, hx]
      · simp only [Values.put, hn, if_false]; exact h.vals n
    · intro n
      rw [hproj n]
      by_cases hn : n = name
      · subst hn
        simp only [if_true]
        rw [getLast?_append_ne _ _ (by simp), hs, hl]
        simp
      · simp only [hn, if_false]; exact h.sib n

theorem resetAll_refines (self : Nat) (sibs : List Nat) : ∀ (rs : List (String × Int)) (E : CSet) (vals : Values)
    (sib : List String), Match E (self :: sibs) vals sib →
    ∃ vals' sib', resetAll rs vals sib = some (vals', sib') ∧
      Match (rs.foldl (fun s p => instantiate s self sibs p.1 p.2) E) (self :: sibs) vals' sib' := by
  intro rs
  induction rs with
  | nil => intro E vals sib h; exact ⟨vals, sib, rfl, h⟩
  | cons r rest ih =>
    intro E vals sib h
    obtain ⟨n, v⟩ := r
    obtain ⟨vals1, sib1, h1, hm1⟩ := reset_refines E self sibs vals sib n v h
    obtain ⟨vals2, sib2, h2, hm2⟩ := ih _ vals1 sib1 hm1
    exact ⟨vals2, sib2, by simp only [resetAll, h1]; exact h2, by simpa [List.foldl_cons] using hm2⟩

theorem incrAll_refines (self : Nat) (sibs : List Nat) : ∀ (ps : List (String × Int)) (E : CSet) (vals : Values)
    (sib : List String), Match E (self :: sibs) vals sib →
    Match (ps.foldl (fun s p => touch s self sibs p.1 (· + p.2)) E) (self :: sibs)
      (incrAll ps (vals, sib)).1 (incrAll ps (vals, sib)).2 := by
  intro ps
  induction ps with
  | nil => intro E vals sib h; exact h
  | cons r rest ih =>
    intro E vals sib h
    obtain ⟨n, v⟩ := r
    have h1 := touch_refines E self sibs vals sib n (· + v) h
    have := ih _ _ _ h1
    simpa [incrAll, List.foldl_cons] using this

theorem setAll_refines (self : Nat) (sibs : List Nat) : ∀ (ps : List (String × Int)) (E : CSet) (vals : Values)
    (sib : List String), Match E (self :: sibs) vals sib →
    Match (ps.foldl (fun s p => touch s self sibs p.1 (fun _ => p.2)) E) (self :: sibs)
      (setAll ps (vals, sib)).1 (setAll ps (vals, sib)).2 := by
  intro ps
  induction ps with
  | nil => intro E vals sib h; exact h
  | cons r rest ih =>
    intro E vals sib h
    obtain ⟨n, v⟩ := r
    have h1 := touch_refines E self sibs vals sib n (fun _ => v) h
    have := ih _ _ _ h1
    simpa [setAll, List.foldl_cons] using this

/-- `UpdateCounters` on the stacks is `applyOps` (reset, increment, set) on the counters set -/
theorem update_refines (E : CSet) (self : Nat) (sibs : List Nat) (o : Ops) (vals : Values) (sib : List String)
    (up : List (List String)) (h : Match E (self :: sibs) vals sib) :
    ∃ vals' sib', updateCounters ⟨vals, sib :: up⟩ o = some ⟨vals', sib' :: up⟩ ∧
      Match (applyOps false E self sibs o) (self :: sibs) vals' sib' := by
  obtain ⟨vals1, sib1, h1, hm1⟩ := resetAll_refines self sibs o.reset E vals sib h
  have hm2 := incrAll_refines self sibs o.increments _ vals1 sib1 hm1
  have hm3 := setAll_refines self sibs o.set _ _ _ hm2
  generalize hx : setAll o.set ((incrAll o.increments (vals1, sib1)).1, (incrAll o.increments (vals1, sib1)).2) = x at hm3
  refine ⟨x.1, x.2, ?_, ?_⟩
  · simp only [updateCounters, h1]
    rw [show incrAll o.increments (vals1, sib1) = ((incrAll o.increments (vals1, sib1)).1, (incrAll o.increments (vals1, sib1)).2) from rfl, hx]
  · simpa [applyOps] using hm3

end WR.C19
