/-
  C19 — helper definitions and lemmas for the additive system and for steps 4-5 (pad, negative).
-/
import WR.C19.Lemmas
namespace WR.C19

/-- Σ weightᵢ · countᵢ over the tuples that received a count -/
def weightedSum : List (Int × NS) → List Nat → Int
  | (w, _) :: ws, c :: cs => w * c + weightedSum ws cs
  | _, _ => 0

/-- the symbols repeated by their counts -/
def renderCounts : List (Int × NS) → List Nat → List String
  | (_, s) :: ws, c :: cs => repeatStr (symbol s) c :: renderCounts ws cs
  | _, _ => []

/-- `cs` are the greedy counts for `v`: each is the (truncating) quotient of what is left by the
    weight, in the order of the tuples, and nothing is left at the end -/
def Greedy : List (Int × NS) → Int → List Nat → Prop
  | _, v, [] => v = 0
  | (w, _) :: ws, v, c :: cs => w ≠ 0 ∧ (c : Int) = v.tdiv w ∧ Greedy ws (v - w * c) cs
  | [], _, _ :: _ => False

theorem additiveLoop_ok : ∀ (syms : List (Int × NS)) (v : Int) (acc : List String) (s : String),
    additiveLoop syms v acc = .ok s →
    ∃ cs : List Nat, cs ≠ [] ∧ cs.length ≤ syms.length ∧ s = concat (acc.reverse ++ renderCounts syms cs)
      ∧ weightedSum syms cs = v ∧ Greedy syms v cs := by
  intro syms
  induction syms with
  | nil => intro v acc s h; simp [additiveLoop] at h
  | cons ws rest ih =>
    intro v acc s h
    obtain ⟨w, sym⟩ := ws
    simp only [additiveLoop] at h
    by_cases hw : w = 0
    · simp [hw] at h
    · simp only [hw, if_false] at h
      by_cases hneg : v.tdiv w < 0
      · simp [hneg] at h
      · simp only [hneg, if_false] at h
        have hc : ((v.tdiv w).toNat : Int) = v.tdiv w := by omega
        by_cases hz : v - w * v.tdiv w = 0
        · simp only [hz, if_true, Res.ok.injEq] at h
          refine ⟨[(v.tdiv w).toNat], by simp, by simp, ?_, ?_, ?_⟩
          · rw [← h]; simp [renderCounts, List.reverse_cons]
          · simp only [weightedSum, hc]; omega
          · simp only [Greedy, hc]; exact ⟨hw, trivial, hz⟩
        · simp only [hz, if_false] at h
          obtain ⟨cs, hne, hlen, hs, hsum, hg⟩ := ih _ _ _ h
          refine ⟨(v.tdiv w).toNat :: cs, by simp, by simp; omega, ?_, ?_, ?_⟩
          · rw [hs]; simp [renderCounts, List.reverse_cons, List.append_assoc]
          · simp only [weightedSum, hc, hsum]; omega
          · simp only [Greedy, hc]; exact ⟨hw, trivial, hg⟩

theorem repeatStr_size (s : String) (n : Nat) : (repeatStr s n).utf8ByteSize = n * s.utf8ByteSize := by
  induction n with
  | zero => simp [repeatStr, concat]
  | succ k ih =>
    simp only [repeatStr, List.replicate_succ, concat_cons, String.utf8ByteSize_append] at ih ⊢
    rw [ih, Nat.succ_mul]; omega

/-- pad: with a one-byte pad symbol the result (sign included) has exactly max(pad length, natural length) bytes -/
theorem finish_size (d : Desc) (neg : Bool) (np ns initial : String) (h1 : (symbol d.padSym).utf8ByteSize = 1) :
    (finish d neg np ns initial).utf8ByteSize =
      max d.padLen.toNat (initial.utf8ByteSize + (if neg then np.utf8ByteSize + ns.utf8ByteSize else 0)) := by
  cases neg <;> simp only [finish, Bool.false_eq_true, if_false, if_true]
  · split
    · rename_i h; simp only [String.utf8ByteSize_append, repeatStr_size, h1]; omega
    · rename_i h; omega
  · split
    · rename_i h; simp only [String.utf8ByteSize_append, repeatStr_size, h1]; omega
    · rename_i h; simp only [String.utf8ByteSize_append]; omega

/-- negative: the sign wraps the padded representation -/
theorem finish_negative (d : Desc) (np ns initial : String) :
    ∃ padding, finish d true np ns initial = np ++ (padding ++ initial) ++ ns := by
  simp only [finish, if_true]
  split
  · exact ⟨_, rfl⟩
  · exact ⟨"", by simp⟩


theorem numeric_ne_no' (symbols : List NS) (v : Int) (h : 2 ≤ symbols.length) : numeric symbols v ≠ .no := by
  unfold numeric
  split
  · split <;> simp
  · rw [if_neg (by omega)]
    split <;> simp

end WR.C19
