/-
  C19 — helper definitions and lemmas for the additive system and for steps 4-5 (pad, negative).
-/
import WR.C19.Lemmas
namespace WR.C19

/-- Σ weightᵢ · countᵢ over the tuples that received a count -/
def weightedSum : List (Int × NS) → List Nat → Int
  | (w, _) :: ws, c :: cs => w * c + weightedSum ws cs
  | _, _ => 0

/-- the symbols repeated by their counts -/
def renderCounts : List (Int × NS) → List Nat → List String
  | (_, s) :: ws, c :: cs => repeatStr (symbol s) c :: renderCounts ws cs
  | _, _ => []

/-- `cs` are the greedy counts for `v`: a zero weight gets the count 0, any other the (truncating)
    quotient of what is left by the weight, in the order of the tuples; nothing is left at the end -/
def Greedy : List (Int × NS) → Int → List Nat → Prop
  | _, v, [] => v = 0
  | (w, _) :: ws, v, c :: cs =>
    (w = 0 ∧ c = 0 ∧ Greedy ws v cs) ∨ (w ≠ 0 ∧ (c : Int) = v.tdiv w ∧ Greedy ws (v - w * c) cs)
  | [], _, _ :: _ => False

theorem repeatStr_zero (s : String) : repeatStr s 0 = "" := rfl

theorem additiveLoop_ok : ∀ (syms : List (Int × NS)) (v : Int) (acc : List String) (s : String),
    additiveLoop syms v acc = .ok s →
    ∃ cs : List Nat, cs ≠ [] ∧ cs.length ≤ syms.length ∧ s = concat (acc.reverse ++ renderCounts syms cs)
      ∧ weightedSum syms cs = v ∧ Greedy syms v cs := by
  intro syms
  induction syms with
  | nil => intro v acc s h; simp [additiveLoop] at h
  | cons ws rest ih =>
    intro v acc s h
    obtain ⟨w, sym⟩ := ws
    simp only [additiveLoop] at h
    by_cases hw : w = 0
    · simp only [hw, if_true] at h
      obtain ⟨cs, hne, hlen, hs, hsum, hg⟩ := ih _ _ _ h
      refine ⟨0 :: cs, by simp, by simp; omega, ?_, ?_, ?_⟩
      · rw [hs]; simp [renderCounts, repeatStr_zero, concat_append, concat_cons]
      · simp only [weightedSum, hw, hsum]; omega
      · simp only [Greedy]; exact .inl ⟨hw, trivial, hg⟩
    · simp only [hw, if_false] at h
      by_cases hneg : v.tdiv w < 0
      · simp [hneg] at h
      · simp only [hneg, if_false] at h
        have hc : ((v.tdiv w).toNat : Int) = v.tdiv w := by omega
        by_cases hz : v - w * v.tdiv w = 0
        · simp only [hz, if_true, Res.ok.injEq] at h
          refine ⟨[(v.tdiv w).toNat], by simp, by simp, ?_, ?_, ?_⟩
          · rw [← h]; simp [renderCounts, List.reverse_cons]
          · simp only [weightedSum, hc]; omega
          · simp only [Greedy, hc]; exact .inr ⟨hw, trivial, hz⟩
        · simp only [hz, if_false] at h
          obtain ⟨cs, hne, hlen, hs, hsum, hg⟩ := ih _ _ _ h
          refine ⟨(v.tdiv w).toNat :: cs, by simp, by simp; omega, ?_, ?_, ?_⟩
          · rw [hs]; simp [renderCounts, List.reverse_cons, List.append_assoc]
          · simp only [weightedSum, hc, hsum]; omega
          · simp only [Greedy, hc]; exact .inr ⟨hw, trivial, hg⟩

theorem repeatStr_length (s : String) (n : Nat) : (repeatStr s n).length = n * s.length := by
  induction n with
  | zero => simp [repeatStr, concat]
  | succ k ih =>
    simp only [repeatStr, List.replicate_succ, concat_cons, String.length_append] at ih ⊢
    rw [ih, Nat.succ_mul]; omega

/-- pad: with a one-character pad symbol the result (sign included) has exactly
    max(pad length, natural length) characters -/
theorem finish_length (d : Desc) (neg : Bool) (np ns initial : String) (h1 : (symbol d.padSym).length = 1) :
    (finish d neg np ns initial).length =
      max d.padLen.toNat (initial.length + (if neg then np.length + ns.length else 0)) := by
  cases neg <;> simp only [finish, Bool.false_eq_true, if_false, if_true]
  · split
    · rename_i h; simp only [String.length_append, repeatStr_length, h1]; omega
    · rename_i h; omega
  · split
    · rename_i h; simp only [String.length_append, repeatStr_length, h1]; omega
    · rename_i h; simp only [String.length_append]; omega

/-- negative: the sign wraps the padded representation -/
theorem finish_negative (d : Desc) (np ns initial : String) :
    ∃ padding, finish d true np ns initial = np ++ (padding ++ initial) ++ ns := by
  simp only [finish, if_true]
  split
  · exact ⟨_, rfl⟩
  · exact ⟨"", by simp⟩


end WR.C19
