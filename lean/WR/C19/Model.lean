/-
  C19 — hand-written model of css/counters/counters.go (counter-style algorithms).

  Mirrors the Go code as it is, quirks included:
    * Go `%` and `/` are `Int.tmod` / `Int.tdiv`; an index outside a slice and a negative
      `strings.Repeat` count are run-time panics and are modelled as `.panic` (after the fixes bea1e31
      and 8517e56 of /repo no input of the generators reaches one);
    * the pad step counts characters (utf8.RuneCountInString = `String.length`; bytes before 361be39);
    * the fallback styles get the original signed value (the absolute value before fbc9c7a);
    * the auto range is [math.MinInt, math.MaxInt] (64-bit: unbounded for every Go int; it was the
      32-bit range before the fix c5a853c, which made values beyond it recurse forever);
      `.diverge` = the fuel of the extends / fallback resolution ran out (never, see Total.lean).
  Go slices: `nil` and empty are identified (the descriptor parser never produces a non-nil empty
  slice).  Go `map[string]CounterStyleDescriptors` = association list, first binding wins.
-/
namespace WR.C19

/-- pr.NamedString -/
structure NS where
  name : String
  str : String
  deriving DecidableEq, Repr, Inhabited

def NS.zero : NS := ⟨"", ""⟩
def NS.isNone (v : NS) : Bool := v == NS.zero
def NS.s (s : String) : NS := ⟨"string", s⟩

/-- counters.go `symbol` -/
def symbol (v : NS) : String := if v.name = "string" then v.str else ""

/-- counters.CounterStyleSystem -/
structure Sys where
  ext : String
  system : String
  number : Int
  deriving DecidableEq, Repr, Inhabited

def Sys.zero : Sys := ⟨"", "", 0⟩

/-- counters.CounterStyleDescriptors -/
structure Desc where
  neg1 : NS
  neg2 : NS
  pre : NS
  suf : NS
  fallback : String
  sys : Sys
  padLen : Int
  padSym : NS
  symbols : List NS
  additive : List (Int × NS)
  ranges : List (Int × Int)
  rangeAuto : Bool
  deriving DecidableEq, Repr, Inhabited

def Desc.zero : Desc := ⟨.zero, .zero, .zero, .zero, "", .zero, 0, .zero, [], [], [], false⟩

abbrev Table := List (String × Desc)

def Table.get? (c : Table) (name : String) : Option Desc := c.lookup name

/-- result of a per-system algorithm: `(s, true)`, `("", false)`, or a run-time panic -/
inductive Res where
  | ok (s : String)
  | no
  | panic (why : String)
  deriving DecidableEq, Repr

/-- result of RenderValue / RenderMarker -/
inductive Out where
  | ok (s : String)
  | panic (why : String)
  | diverge
  deriving DecidableEq, Repr

def concat (parts : List String) : String := parts.foldr (· ++ ·) ""

/-- strings.Repeat for a non-negative count -/
def repeatStr (s : String) (n : Nat) : String := concat (List.replicate n s)

/-- `symbol(symbols[i])` with Go's bounds check -/
def symAt (symbols : List NS) (i : Int) : Option String :=
  if i < 0 then none else (symbols[i.toNat]?).map symbol

/-! ### per-system algorithms -/

/-- `repeating` (system cyclic): `index := (value-1) % L; if index < 0 { index += L }` -/
def repeating (symbols : List NS) (value : Int) : Res :=
  if symbols.length = 0 then .no
  else
    let index := (value - 1).tmod symbols.length
    let index := if index < 0 then index + symbols.length else index
    match symAt symbols index with
    | some s => .ok s
    | none => .panic "index out of range"

/-- `nonRepeating` (system fixed) -/
def nonRepeating (symbols : List NS) (first value : Int) : Res :=
  let v := value - first
  if 0 ≤ v ∧ v < symbols.length then
    match symAt symbols v with
    | some s => .ok s
    | none => .panic "index out of range"
  else .no

/-- `symbolic` -/
def symbolic (symbols : List NS) (value : Int) : Res :=
  if symbols.length = 0 ∨ value < 1 then .no
  else
    let L : Int := symbols.length
    let index := (value - 1).tmod L
    let rep := (value - 1).tdiv L + 1
    match symAt symbols index with
    | none => .panic "index out of range"
    | some s => if rep < 0 then .panic "strings: negative Repeat count" else .ok (repeatStr s rep.toNat)

/-- the loop of `alphabetic` on a non-negative value: indices, least significant first.
    `for value != 0 { value -= 1; append(symbols[value%L]); value /= L }` -/
def alphaLoop (L : Nat) : Nat → Nat → List Nat
  | 0, _ => []
  | fuel + 1, v => if v = 0 then [] else ((v - 1) % L) :: alphaLoop L fuel ((v - 1) / L)

def alphaDigits (L v : Nat) : List Nat := alphaLoop L v v

/-- the loop of `numeric` on a non-negative value: indices, least significant first.
    `for value != 0 { append(symbols[value%L]); value /= L }` -/
def numLoop (L : Nat) : Nat → Nat → List Nat
  | 0, _ => []
  | fuel + 1, v => if v = 0 then [] else (v % L) :: numLoop L fuel (v / L)

def numDigits (L v : Nat) : List Nat := numLoop L v v

/-- `symbol(symbols[i])` for every index, `none` if one is out of range -/
def collect (symbols : List NS) (idx : List Nat) : Option (List String) :=
  idx.mapM (fun i => (symbols[i]?).map symbol)

/-- `alphabetic` -/
def alphabetic (symbols : List NS) (value : Int) : Res :=
  if symbols.length < 2 ∨ value < 1 then .no
  else match collect symbols (alphaDigits symbols.length value.toNat).reverse with
    | some parts => .ok (concat parts)
    | none => .panic "index out of range"

/-- `numeric` -/
def numeric (symbols : List NS) (value : Int) : Res :=
  if symbols.length < 2 then .no
  else if value = 0 then
    match symAt symbols 0 with
    | some s => .ok s
    | none => .panic "index out of range"
  else match collect symbols (numDigits symbols.length value.natAbs).reverse with
    | some parts => .ok (concat parts)
    | none => .panic "index out of range"

/-- the main loop of `additive`: `parts` accumulates in reverse order -/
def additiveLoop : List (Int × NS) → Int → List String → Res
  | [], _, _ => .no
  | (w, s) :: rest, value, parts =>
    if w = 0 then additiveLoop rest value parts   -- `continue`: a zero weight only represents 0
    else
      let rep := value.tdiv w
      if rep < 0 then .panic "strings: negative Repeat count"
      else
        let parts := repeatStr (symbol s) rep.toNat :: parts
        let value := value - w * rep
        if value = 0 then .ok (concat parts.reverse) else additiveLoop rest value parts

/-- `additive` -/
def additive (symbols : List (Int × NS)) (value : Int) : Res :=
  match (if value = 0 then symbols.find? (fun ws => ws.1 = 0) else none) with
  | some ws => .ok (symbol ws.2)
  | none => if symbols.length = 0 then .no else additiveLoop symbols value []

/-! ### descriptors: defaults, merge, extends resolution -/

/-- `extends, system, fixedNumber` with the zero-value default -/
def Desc.sys3 (d : Desc) : String × String × Int :=
  if d.sys = Sys.zero then ("", "symbolic", -1) else (d.sys.ext, d.sys.system, d.sys.number)

def Desc.fallbackName (d : Desc) : String := if d.fallback ≠ "" then d.fallback else "decimal"

def Desc.rangeIsNone (d : Desc) : Bool := d.ranges.isEmpty && !d.rangeAuto

/-- `(*CounterStyleDescriptors).merge` -/
def Desc.merge (d src : Desc) : Desc :=
  let negZ := d.neg1 == NS.zero && d.neg2 == NS.zero
  { neg1 := if negZ then src.neg1 else d.neg1
    neg2 := if negZ then src.neg2 else d.neg2
    sys := if d.sys = Sys.zero then src.sys else d.sys
    pre := if d.pre.isNone then src.pre else d.pre
    suf := if d.suf.isNone then src.suf else d.suf
    ranges := if d.rangeIsNone then src.ranges else d.ranges
    rangeAuto := if d.rangeIsNone then src.rangeAuto else d.rangeAuto
    fallback := if d.fallback = "" then src.fallback else d.fallback
    padLen := if d.padLen = 0 ∧ d.padSym.isNone then src.padLen else d.padLen
    padSym := if d.padLen = 0 ∧ d.padSym.isNone then src.padSym else d.padSym
    symbols := if d.symbols.isEmpty then src.symbols else d.symbols
    additive := if d.additive.isEmpty then src.additive else d.additive }

/-- outcome of resolveCounter -/
inductive RC where
  | found (d : Desc) (prev : List String)
  | nil
  | diverge
  deriving Repr

/-- the `for extends != ""` loop of resolveCounter; `prev` is the (mutated) previousTypes set -/
def resolveLoop (c : Table) : Nat → Desc → List String → String → String → RC
  | 0, _, _, _, _ => .diverge
  | fuel + 1, counter, prev, ext, system =>
    if ext = "" then .found counter prev
    else match c.get? system with
      | none => .found counter prev
      | some e =>
        let counter := { counter with sys := e.sys }
        let prev := system :: prev
        let (ext', system', _) := counter.sys3
        if ext' ≠ "" ∧ prev.contains system' then resolveLoop c fuel counter prev "extends" "decimal"
        else resolveLoop c fuel (counter.merge e) prev ext' system'

/-- fuel that always suffices for `resolveLoop` when "decimal" does not itself extend (theorem
    `resolveLoop_total`) -/
def loopFuel (c : Table) : Nat := c.length + 4

/-- `CounterStyle.resolveCounter` -/
def resolveCounter (c : Table) (name : String) (prev : Option (List String)) : RC :=
  match c.get? name with
  | none => .nil
  | some counter =>
    if (match prev with | some p => p.contains name | none => false) then .nil
    else
      let p := name :: prev.getD []
      let (ext, system, _) := counter.sys3
      resolveLoop c (loopFuel c) counter p ext system

/-- pr.CounterStyleID -/
structure CSID where
  type : String
  name : String
  symbols : List String
  deriving Repr, DecidableEq

/-- `CounterStyle.resolveCounterStyle` -/
def resolveCounterStyle (c : Table) (id : CSID) (prev : Option (List String)) : RC :=
  if id.type = "string" then
    .found { Desc.zero with
      sys := ⟨"", "cyclic", -1⟩, symbols := [NS.s id.name], suf := NS.s "",
      neg1 := NS.s "-", neg2 := NS.s "", pre := NS.s "", rangeAuto := true, fallback := "decimal" } (prev.getD [])
  else if id.type = "symbols()" then
    .found { Desc.zero with
      sys := ⟨"", id.name, if id.name = "fixed" then 1 else -1⟩, symbols := id.symbols.map NS.s, suf := NS.s " ",
      neg1 := NS.s "-", neg2 := NS.s "", pre := NS.s "", rangeAuto := true, fallback := "decimal" } (prev.getD [])
  else resolveCounter c id.name prev

/-! ### generate a counter representation -/

/-- outcome of the `for extends != ""` loop inside renderValue -/
inductive RV where
  | done (d : Desc) (prev : List String) (system : String) (number : Int)
  | decimal
  | diverge

def rvLoop (c : Table) : Nat → Desc → List String → String → String → Int → RV
  | 0, _, _, _, _, _ => .diverge
  | fuel + 1, counter, prev, ext, system, number =>
    if ext = "" then .done counter prev system number
    else match c.get? system with
      | none => .decimal
      | some e =>
        let counter := { counter with sys := e.sys }
        let (ext', system', number') := counter.sys3
        if prev.contains system' then .decimal
        else rvLoop c fuel (counter.merge e) (system' :: prev) ext' system' number'

def minInt32 : Int := -2147483648
def maxInt32 : Int := 2147483647
/-- math.MinInt / math.MaxInt on the 64-bit platforms the code runs on -/
def minInt : Int := -9223372036854775808
def maxInt : Int := 9223372036854775807

/-- step 2: the ranges actually used -/
def effRanges (d : Desc) (system : String) : List (Int × Int) :=
  if d.rangeAuto || d.rangeIsNone then
    [(if system = "alphabetic" ∨ system = "symbolic" then 1 else if system = "additive" then 0 else minInt, maxInt)]
  else d.ranges

def inRanges (rs : List (Int × Int)) (v : Int) : Bool := rs.any (fun r => r.1 ≤ v ∧ v ≤ r.2)

def usesNegative (system : String) : Bool :=
  system = "symbolic" ∨ system = "alphabetic" ∨ system = "numeric" ∨ system = "additive"

/-- steps 4-6 -/
def finish (d : Desc) (negative : Bool) (negPre negSuf : String) (initial : String) : String :=
  let diff : Int := d.padLen - initial.length
  let diff := if negative then diff - (negPre.length + negSuf.length) else diff
  let padded := if diff > 0 then repeatStr (symbol d.padSym) diff.toNat ++ initial else initial
  if negative then negPre ++ padded ++ negSuf else padded

/-- what the `switch system` does with the value -/
inductive Step where
  | initial (s : String)
  | decimal
  | fallback
  | panic (why : String)

def ofRes (r : Res) (onNo : Step) : Step :=
  match r with
  | .ok s => .initial s
  | .no => onNo
  | .panic w => .panic w

def systemStep (d : Desc) (system : String) (number : Int) (v : Int) : Step :=
  if system = "cyclic" then ofRes (repeating d.symbols v) .decimal
  else if system = "fixed" then
    if d.symbols.length = 0 then .decimal else ofRes (nonRepeating d.symbols number v) .fallback
  else if system = "symbolic" then ofRes (symbolic d.symbols v) .fallback
  else if system = "alphabetic" then ofRes (alphabetic d.symbols v) .fallback
  else if system = "numeric" then ofRes (numeric d.symbols v) .decimal
  else if system = "additive" then
    if d.additive.length = 0 then .decimal else ofRes (additive d.additive v) .fallback
  else .initial ""

/-- what one activation of `renderValue` does: return, or tail-call `c.RenderValue(v, "decimal")`,
    or tail-call `c.renderValue(v, c.resolveCounter(name, previousTypes), previousTypes)` -/
inductive Next where
  | ret (o : Out)
  | decimal (v : Int)
  | fallback (name : String) (prev : List String) (v : Int)

/-- the body of `CounterStyle.renderValue` after the circularity check: extends loop, steps 2-6 -/
def stepResolved (c : Table) (v : Int) (counter : Desc) (p0 : List String) (ext system : String) (number : Int) : Next :=
  match rvLoop c (loopFuel c) counter p0 ext system number with
  | .diverge => .ret .diverge
  | .decimal => .decimal v
  | .done counter p system number =>
    if !inRanges (effRanges counter system) v then .fallback counter.fallbackName p v
    else
      let isNeg := v < 0
      let negZ := counter.neg1 == NS.zero && counter.neg2 == NS.zero
      let negPre := if negZ then "-" else symbol counter.neg1
      let negSuf := if negZ then "" else symbol counter.neg2
      let useNeg := isNeg && usesNegative system
      -- the algorithm runs on the absolute value, the fallback styles get the original (signed) value
      match systemStep counter system number (if useNeg then (v.natAbs : Int) else v) with
      | .panic w => .ret (.panic w)
      | .decimal => .decimal v
      | .fallback => .fallback counter.fallbackName p v
      | .initial s => .ret (.ok (finish counter useNeg negPre negSuf s))

/-- the body of `CounterStyle.renderValue` up to its (tail) calls -/
def stepValue (c : Table) (v : Int) (counter : Option Desc) (prev : Option (List String)) : Next :=
  match counter with
  | none => if (c.get? "decimal").isSome then .decimal v else .ret (.ok "")
  | some counter =>
    if (match prev with | some p => p.contains counter.sys3.2.1 | none => false) then .decimal v
    else stepResolved c v counter (prev.getD []) counter.sys3.1 counter.sys3.2.1 counter.sys3.2.2

/-- `CounterStyle.renderValue`: the recursion (every recursive call of the Go function is a tail call) -/
def renderValue (c : Table) : Nat → Int → Option Desc → Option (List String) → Out
  | 0, _, _, _ => .diverge
  | fuel + 1, v, counter, prev =>
    match stepValue c v counter prev with
    | .ret o => o
    | .decimal v =>
      match resolveCounter c "decimal" none with
      | .diverge => .diverge
      | .nil => renderValue c fuel v none none
      | .found d _ => renderValue c fuel v (some d) none
    | .fallback name p v =>
      match resolveCounter c name (some p) with
      | .diverge => .diverge
      | .nil => renderValue c fuel v none (some p)
      | .found d p' => renderValue c fuel v (some d) (some p')

/-- fuel that suffices for `renderValue` on 32-bit values (theorem `renderValue_total`) -/
def renderFuel (c : Table) : Nat := c.length + 8

def ofRC (c : Table) (v : Int) : RC → Out
  | .diverge => .diverge
  | .nil => renderValue c (renderFuel c) v none none
  | .found d _ => renderValue c (renderFuel c) v (some d) none

/-- `CounterStyle.RenderValue` -/
def RenderValue (c : Table) (v : Int) (name : String) : Out := ofRC c v (resolveCounter c name none)

/-- `CounterStyle.RenderValueStyle` -/
def RenderValueStyle (c : Table) (v : Int) (id : CSID) : Out := ofRC c v (resolveCounterStyle c id none)

def markerOf (c : Table) (v : Int) (d : Desc) : Out :=
  let pre := symbol d.pre
  let suf := symbol (if d.suf.isNone then NS.s ". " else d.suf)
  match renderValue c (renderFuel c) v (some d) none with
  | .ok s => .ok (pre ++ s ++ suf)
  | o => o

/-- `CounterStyle.RenderMarker` -/
def RenderMarker (c : Table) (id : CSID) (v : Int) : Out :=
  match resolveCounterStyle c id none with
  | .diverge => .diverge
  | .found d _ => markerOf c v d
  | .nil =>
    if (c.get? "decimal").isSome then
      match resolveCounterStyle c ⟨"", "decimal", []⟩ none with
      | .found d _ => markerOf c v d
      | .nil => .diverge  -- unreachable: "decimal" is present
      | .diverge => .diverge
    else .ok ""

end WR.C19
