import WR.C15.Model
/-! Helper lemmas for Props/C15.lean (core only). -/
namespace WR.C15
open List

/-! ### lookups in permuted association lists -/

theorem lookup_perm {κ ν : Type} [BEq κ] [LawfulBEq κ] {l₁ l₂ : List (κ × ν)} (h : l₁.Perm l₂)
    (nd : (l₁.map (·.1)).Nodup) (q : κ) : List.lookup q l₁ = List.lookup q l₂ := by
  induction h with
  | nil => rfl
  | cons x _ ih =>
    obtain ⟨k, v⟩ := x
    simp only [List.map_cons, List.nodup_cons] at nd
    simp only [List.lookup_cons]
    rw [ih nd.2]
  | swap x y l =>
    obtain ⟨k, v⟩ := x
    obtain ⟨k', v'⟩ := y
    simp only [List.map_cons, List.nodup_cons, List.mem_cons, not_or] at nd
    simp only [List.lookup_cons]
    by_cases h1 : q == k' <;> by_cases h2 : q == k <;> simp [h1, h2]
    have := eq_of_beq h1
    have := eq_of_beq h2
    simp_all
  | trans h₁ _ ih₁ ih₂ =>
    rw [ih₁ nd, ih₂ ((h₁.map _).nodup_iff.mp nd)]

theorem lookup_append' {κ ν : Type} [BEq κ] (a b : List (κ × ν)) (q : κ) :
    List.lookup q (a ++ b) = (List.lookup q a).or (List.lookup q b) := by
  induction a with
  | nil => simp
  | cons x a ih =>
    obtain ⟨k, v⟩ := x
    simp only [List.cons_append, List.lookup_cons]
    cases q == k <;> simp [ih]

theorem copyInto_eq {κ ν : Type} (dst : GoMap κ ν) (l : List (κ × ν)) :
    copyInto dst l = l.reverse ++ dst := by
  induction l generalizing dst with
  | nil => rfl
  | cons x l ih =>
    simp only [copyInto, rangeFold, List.foldl_cons] at ih ⊢
    rw [ih]
    simp [copyStep, GoMap.set]

theorem fillInto_get {κ ν : Type} [BEq κ] [LawfulBEq κ] (dst : GoMap κ ν) (l : List (κ × ν)) (q : κ) :
    (fillInto dst l).get q = (dst.get q).or (List.lookup q l) := by
  induction l generalizing dst with
  | nil => simp [fillInto, rangeFold]
  | cons x l ih =>
    obtain ⟨k, v⟩ := x
    simp only [fillInto, rangeFold, List.foldl_cons] at ih ⊢
    rw [ih]
    simp only [fillStep, List.lookup_cons]
    cases hk : GoMap.get dst k with
    | some w =>
      simp only
      by_cases hq : q == k
      · have := eq_of_beq hq; subst this; simp [hk]
      · simp [hq]
    | none =>
      simp only [GoMap.get, GoMap.set, List.lookup_cons]
      by_cases hq : q == k
      · have := eq_of_beq hq; subst this
        simp only [GoMap.get] at hk
        simp [hk]
      · simp [hq]

/-! ### any / max -/

theorem any_foldl {ε : Type} (p : ε → Bool) (l : List ε) (b : Bool) :
    l.foldl (anyStep p) b = (b || l.any p) := by
  induction l generalizing b with
  | nil => simp
  | cons x l ih => simp [List.foldl_cons, ih, anyStep, Bool.or_assoc]

theorem any_perm {ε : Type} (p : ε → Bool) {l₁ l₂ : List ε} (h : l₁.Perm l₂) : l₁.any p = l₂.any p := by
  rw [Bool.eq_iff_iff]
  simp only [List.any_eq_true]
  constructor
  · rintro ⟨x, hx, px⟩; exact ⟨x, h.mem_iff.mp hx, px⟩
  · rintro ⟨x, hx, px⟩; exact ⟨x, h.mem_iff.mpr hx, px⟩

/-! ### the pseudo-element pass -/

def pseudoCond (k : Key) : Bool := k.pseudo != "" && !k.page

theorem pseudoPass_get {γ σ : Type} (compute : Key → Option γ → Option σ → Option σ → σ) (root : Key)
    (hroot : root.pseudo = "") (casc : GoMap Key γ) (comp₀ comp : GoMap Key σ)
    (inv : ∀ k : Key, k.pseudo = "" → comp.get k = comp₀.get k)
    (l : List (Key × γ)) (q : Key) :
    (pseudoPass compute root casc comp l).get q =
      if l.any (fun e => e.1 == q && pseudoCond e.1) then
        some (compute q (casc.get q) (comp₀.get { q with pseudo := "" }) (comp₀.get root))
      else comp.get q := by
  induction l generalizing comp with
  | nil => simp [pseudoPass, rangeFold]
  | cons x l ih =>
    simp only [pseudoPass, rangeFold, List.foldl_cons] at ih ⊢
    by_cases hc : pseudoCond x.1
    · have hstep : pseudoStep compute root casc comp x =
          comp.set x.1 (compute x.1 (casc.get x.1) (comp₀.get { x.1 with pseudo := "" }) (comp₀.get root)) := by
        have hc' := hc
        simp only [pseudoCond] at hc'
        simp only [pseudoStep, hc', if_true]
        rw [inv _ rfl, inv root hroot]
      rw [hstep, ih]
      · simp only [List.any_cons, hc, Bool.and_true]
        by_cases hq : x.1 == q
        · have := eq_of_beq hq; subst this
          simp only [BEq.rfl, Bool.true_or, if_true]
          split
          · rfl
          · simp [GoMap.get, GoMap.set]
        · simp only [hq, Bool.false_or]
          split
          · rfl
          · have hq' : (q == x.1) = false := by
              cases h : q == x.1
              · rfl
              · exact absurd (by rw [eq_of_beq h]; exact BEq.rfl) hq
            simp [GoMap.get, GoMap.set, List.lookup_cons, hq']
      · intro k hk
        have hne : (k == x.1) = false := by
          cases h : k == x.1
          · rfl
          · have := eq_of_beq h; subst this
            simp [pseudoCond, hk] at hc
        simp only [GoMap.get, GoMap.set, List.lookup_cons, hne]
        exact inv k hk
    · have hstep : pseudoStep compute root casc comp x = comp := by
        have hc' := hc
        simp only [pseudoCond] at hc'
        simp [pseudoStep, hc']
      rw [hstep, ih comp inv]
      have hc' : pseudoCond x.1 = false := by simpa using hc
      rw [List.any_cons, hc', Bool.and_false, Bool.false_or]

/-! ### resolveLinks -/

theorem pageAnchors_spec {π : Type} (l : List (String × π)) (seen : List String) (cur : List (String × π))
    (nd : (l.map (·.1)).Nodup) :
    (rangeFold anchorStep (seen, cur) l).2 = cur ++ l.filter (fun e => !seen.contains e.1) ∧
    ∀ s, s ∈ (rangeFold anchorStep (seen, cur) l).1 ↔ (s ∈ seen ∨ s ∈ l.map (·.1)) := by
  induction l generalizing seen cur with
  | nil => simp [rangeFold]
  | cons x l ih =>
    simp only [List.map_cons, List.nodup_cons] at nd
    simp only [rangeFold, List.foldl_cons] at ih ⊢
    by_cases hx : x.1 ∈ seen
    · have hstep : anchorStep (seen, cur) x = (seen, cur) := by simp [anchorStep, hx]
      rw [hstep]
      obtain ⟨h1, h2⟩ := ih seen cur nd.2
      refine ⟨by simp [h1, hx], ?_⟩
      intro s
      rw [h2 s]
      simp only [List.map_cons, List.mem_cons]
      constructor
      · rintro (h | h)
        · exact Or.inl h
        · exact Or.inr (Or.inr h)
      · rintro (h | h | h)
        · exact Or.inl h
        · exact Or.inl (h ▸ hx)
        · exact Or.inr h
    · have hstep : anchorStep (seen, cur) x = (x.1 :: seen, cur ++ [x]) := by simp [anchorStep, hx]
      rw [hstep]
      obtain ⟨h1, h2⟩ := ih (x.1 :: seen) (cur ++ [x]) nd.2
      constructor
      · rw [h1]
        have hf : l.filter (fun e => !(x.1 :: seen).contains e.1) = l.filter (fun e => !seen.contains e.1) := by
          apply List.filter_congr
          intro e he
          have hne : e.1 ≠ x.1 := by
            intro h
            exact nd.1 (by rw [← h]; exact List.mem_map_of_mem he)
          simp [hne]
        rw [hf]
        simp [hx]
      · intro s
        rw [h2 s]
        simp only [List.map_cons, List.mem_cons]
        constructor
        · rintro ((h | h) | h)
          · exact Or.inr (Or.inl h)
          · exact Or.inl h
          · exact Or.inr (Or.inr h)
        · rintro (h | h | h)
          · exact Or.inl (Or.inr h)
          · exact Or.inl (Or.inl h)
          · exact Or.inr h

/-! ### insertion sort: permutations of entries with a total order sort to the same list -/

theorem ins_comm {α : Type} (le : α → α → Bool) (tot : ∀ a b, le a b = true ∨ le b a = true)
    (trans : ∀ a b c, le a b = true → le b c = true → le a c = true)
    (a b : α) (anti : le a b = true → le b a = true → a = b) (l : List α) :
    ins le a (ins le b l) = ins le b (ins le a l) := by
  induction l with
  | nil =>
    simp only [ins]
    rcases tot a b with h | h <;> by_cases h' : le a b = true <;> by_cases h'' : le b a = true <;> simp_all [ins]
  | cons c l ih =>
    simp only [ins]
    by_cases h1 : le b c = true <;> by_cases h2 : le a c = true <;> by_cases h3 : le a b = true <;>
      by_cases h4 : le b a = true <;> simp_all [ins]
    all_goals first | done | grind

theorem isort_perm_eq {α : Type} (le : α → α → Bool) (tot : ∀ a b, le a b = true ∨ le b a = true)
    (trans : ∀ a b c, le a b = true → le b c = true → le a c = true)
    {l₁ l₂ : List α} (h : l₁.Perm l₂)
    (anti : ∀ a ∈ l₁, ∀ b ∈ l₁, le a b = true → le b a = true → a = b) :
    isort le l₁ = isort le l₂ := by
  unfold isort
  apply List.Perm.foldr_eq' h
  intro x hx y hy z
  exact ins_comm le tot trans y x (anti y hy x hx) z

theorem eq_of_nodup_map {α β : Type} (f : α → β) {l : List α} (nd : (l.map f).Nodup) :
    ∀ a ∈ l, ∀ b ∈ l, f a = f b → a = b := by
  induction l with
  | nil => intro a ha; cases ha
  | cons x l ih =>
    simp only [List.map_cons, List.nodup_cons] at nd
    intro a ha b hb hab
    simp only [List.mem_cons] at ha hb
    rcases ha with rfl | ha <;> rcases hb with rfl | hb
    · rfl
    · exact absurd (hab ▸ List.mem_map_of_mem hb) nd.1
    · exact absurd (hab ▸ List.mem_map_of_mem ha) nd.1
    · exact ih nd.2 a ha b hb hab

theorem byName_tot {π : Type} (a b : String × π) : byName a b = true ∨ byName b a = true := by
  simp only [byName, decide_eq_true_eq]
  exact String.le_total a.1 b.1

theorem byName_trans {π : Type} (a b c : String × π) : byName a b = true → byName b c = true → byName a c = true := by
  simp only [byName, decide_eq_true_eq]
  exact String.le_trans

theorem byName_anti {π : Type} {l : List (String × π)} (nd : (l.map (·.1)).Nodup) :
    ∀ a ∈ l, ∀ b ∈ l, byName a b = true → byName b a = true → a = b := by
  intro a ha b hb h1 h2
  simp only [byName, decide_eq_true_eq] at h1 h2
  have hk : a.1 = b.1 := String.le_antisymm h1 h2
  exact eq_of_nodup_map (·.1) nd a ha b hb hk

/-! ### GetLangQuotes -/

theorem langStep_foldl_some {ν : Type} (lang : String) (v : ν) (l : List (String × ν)) :
    l.foldl (langStep lang) (some v) = some v := by
  induction l with
  | nil => rfl
  | cons x l ih => simpa [List.foldl_cons, langStep] using ih

theorem langStep_foldl {ν : Type} (lang : String) (l : List (String × ν)) :
    l.foldl (langStep lang) none = (l.find? (fun e => e.1 != "" && isPrefix e.1 lang)).map (·.2) := by
  induction l with
  | nil => rfl
  | cons x l ih =>
    simp only [List.foldl_cons, List.find?_cons]
    by_cases h : (x.1 != "" && isPrefix x.1 lang) = true
    · have : langStep lang (none : Option ν) x = some x.2 := by simp only [langStep, h, if_true]
      rw [this, langStep_foldl_some]
      simp [h]
    · have h' : (x.1 != "" && isPrefix x.1 lang) = false := by simpa using h
      have : langStep lang (none : Option ν) x = none := by simp [langStep, h']
      rw [this, ih]
      simp [h']

theorem byLenName_tot {ν : Type} (a b : String × ν) : byLenName a b = true ∨ byLenName b a = true := by
  simp only [byLenName, Bool.or_eq_true, Bool.and_eq_true, decide_eq_true_eq]
  rcases Nat.lt_trichotomy a.1.utf8ByteSize b.1.utf8ByteSize with h | h | h
  · exact Or.inr (Or.inl h)
  · rcases String.le_total a.1 b.1 with h' | h'
    · exact Or.inl (Or.inr ⟨h, h'⟩)
    · exact Or.inr (Or.inr ⟨h.symm, h'⟩)
  · exact Or.inl (Or.inl h)

theorem byLenName_trans {ν : Type} (a b c : String × ν) :
    byLenName a b = true → byLenName b c = true → byLenName a c = true := by
  simp only [byLenName, Bool.or_eq_true, Bool.and_eq_true, decide_eq_true_eq]
  rintro (h1 | ⟨h1, h1'⟩) (h2 | ⟨h2, h2'⟩)
  · exact Or.inl (by omega)
  · exact Or.inl (by omega)
  · exact Or.inl (by omega)
  · exact Or.inr ⟨by omega, String.le_trans h1' h2'⟩

theorem byLenName_anti {ν : Type} {l : List (String × ν)} (nd : (l.map (·.1)).Nodup) :
    ∀ a ∈ l, ∀ b ∈ l, byLenName a b = true → byLenName b a = true → a = b := by
  intro a ha b hb
  simp only [byLenName, Bool.or_eq_true, Bool.and_eq_true, decide_eq_true_eq]
  rintro (h1 | ⟨h1, h1'⟩) (h2 | ⟨h2, h2'⟩)
  · omega
  · omega
  · omega
  · exact eq_of_nodup_map (·.1) nd a ha b hb (String.le_antisymm h1' h2')

end WR.C15
