/-!
# C15 — every `range` over a map-typed value in /repo (non-test files), with a verdict

Extracted with go/parser + go/types (importer "source") over all packages of the module; 67 sites.
The loops over `images.Cache`, `hyphen.dictionariesCache`, `hyphDic.cache`, `strutLayoutsCache`
are never iterated (lookups / stores only), so they do not appear.

Verdict legend
  INIT      runs in init() / a package-level initialiser: not part of a render
  COPY      `dst[k] = v` for every entry                   → Props.copy_perm_invariant
  FILL      `if _, in := dst[k]; !in { dst[k] = v }`       → Props.fill_perm_invariant
  ANY       computes ∃/∀ over the entries (flag, early `return false/true`) → Props.any_perm_invariant
  MAX       maximum of the keys                            → Props.max_perm_invariant
  DISJ      each iteration writes only state owned by its own key, computed from data no iteration
            writes (same argument as pseudo_pass_perm_invariant); not modelled separately
  MODEL     modelled in Model.lean, theorem in Props
  **DEP**   order CAN reach the backend calls: negation witness in Props, confirmed on the real code

| site                                   | function                   | ranged map                         | verdict |
|----------------------------------------|----------------------------|------------------------------------|---------|
| backend/text.go:69                     | FontChars.IsFixedPitch     | f.Extents                          | ANY (all widths equal); not called during Render/Write on the recording backend |
| css/parser/colors.go:202,206,209       | init                       | colour keyword tables              | INIT |
| css/properties/datas.go:228            | init                       | InitialValues                      | INIT |
| css/properties/main.go:95              | Properties.Copy            | p                                  | COPY |
| css/properties/main.go:103             | Properties.UpdateWith      | other                              | COPY |
| css/properties/utils.go:278            | Set-like Copy              | s                                  | COPY |
| css/properties/utils.go:290            | Equal                      | s                                  | ANY |
| css/validation/expanders.go:912        | expandFontVariant          | features                           | DISJ: the expanded longhands are appended in map order, but they are declarations of DISTINCT properties (font-variant-caps, -ligatures, …) which the cascade stores per property name; only the order of warnings for invalid tokens can differ (log text, not backend calls) |
| css/validation/utils.go:25,28          | init                       | LENGTHUNITS, AngleUnits            | INIT |
| css/validation/validation.go:334       | init                       | validatorsError                    | INIT |
| html/boxes/build.go:310                | elementToBox               | counterScope                       | DISJ: pops counterValues[name] for each name of the scope, one stack per name |
| html/boxes/build.go:474                | collectMissingCounter      | counterValues                      | ANY (key present) |
| html/boxes/build.go:494                | collectMissingTargetCounter| missingCounters                    | ANY |
| html/boxes/build.go:770,810,852        | parseAgain closures        | cachedCounterValues                | COPY |
| html/boxes/build.go:1301               | wrapTable                  | pr.TableWrapperBoxProperties       | DISJ: moves property `name` from the table style to the wrapper style, one property per iteration |
| html/document/document.go:321          | resolveLinks               | page.anchors                       | MODEL resolveLinks: names collected then SORTED (fix 37ac465 of F15-1/KF15-1): anchors_perm_invariant, resolve_links_perm_invariant; before the fix **DEP**: anchors_before_fix_not_perm_invariant |
| html/layout/blocks.go:488              | blockContainerLayout       | brokenOutOfFlow                    | COPY into context.brokenOutOfFlow (the ORDER problem is where that map is ranged: pages.go:725) |
| html/layout/grid.go:26                 | intersectWithChildren      | positions                          | ANY |
| html/layout/grid.go:268                | getColumnPlacement         | childrenPositions                  | DISJ/ANY: union of occupied columns into a set |
| html/layout/grid.go:308                | getColumnPlacement         | occupiedColumns                    | MAX |
| html/layout/grid.go:503                | resolveTracksSizes         | childrenPositions                  | order reaches only the order of `tracksChildren[track]`, consumed by maxima over the children (1.2.2); ANY/MAX-like, not modelled |
| html/layout/grid.go:609                | resolveTracksSizes         | childrenPositions                  | the collected spans are sorted (`sort.Ints`) before use |
| html/layout/grid.go:623,659            | resolveTracksSizes         | childrenPositions                  | **DEP** KF15-3 — the ITERATION INDEX `i` selects `sizingFunctions[i:i+span+1]`; MODEL gridSpanPass: grid_span_not_perm_invariant |
| html/layout/grid.go:1054               | gridLayout                 | childrenPositions                  | DISJ: lays out each child in its own cell from the final track sizes; `newChildren` is re-sorted by document index afterwards — runtime evidence only |
| html/layout/layout.go:213              | layoutDocument             | TargetCollector.CounterLookupItems | DISJ: ParseAgain of the (box, css-token) items of one box; tokens string-set / bookmark-label write different fields |
| html/layout/pages.go:725               | makePage                   | contextOutOfFlow                   | **DEP** KF15-2 — floats / abspos broken on the previous page are laid out again, each against the shapes of those placed before it, and prepended to the page in that order; MODEL oofPass: oof_not_perm_invariant, oof_sorted_perm_invariant |
| html/layout/pages.go:856               | makePage                   | missingCounters                    | ANY |
| html/layout/pages.go:869               | makePage                   | targetMissing                      | ANY (sets PagesWanted flags) |
| html/layout/pages.go:1027              | makeAllPages               | context.brokenOutOfFlow            | deletes every key |
| html/tree/computed_values.go:157       | init                       | pr.PageSizes                       | INIT |
| html/tree/style.go:129                 | newStyleFor (2nd pass)     | out.cascadedStyles                 | MODEL pseudoPass: pseudo_pass_perm_invariant |
| html/tree/style.go:140                 | newStyleFor                | out.cascadedStyles                 | deletes every key |
| html/tree/style.go:312                 | propsCache.updateWith      | other.vars                         | COPY |
| html/tree/style.go:358,542             | newComputedStyle/Anonymous | parentStyle.Variables()            | COPY |
| html/tree/style.go:362                 | newComputedStyle           | cascaded                           | COPY restricted to custom properties (keys distinct) |
| html/tree/style.go:1460                | GetAllComputedStyles       | UACounterStyle                     | COPY into the per-render counter-style table |
| html/tree/style.go:1495                | SetPageComputedStylesT     | styleFor.cascadedStyles            | DISJ: computes the style of each margin-box key of the page type from the page's final style |
| html/tree/target.go:35                 | ResumeStack.Unpack         | r                                  | returns "the" entry of a ONE-entry stack; with several entries (parallel flows) the result would follow map order — callers use it on single-entry stacks; not modelled, runtime evidence only |
| html/tree/target.go:54                 | ResumeStack.Equals         | r                                  | ANY |
| html/tree/target.go:120,127            | CounterValues.Copy/Update  | c / other                          | COPY |
| html/tree/target.go:149                | CounterValues.Equal        | c                                  | ANY |
| html/tree/target.go:374,375            | CheckPendingTargets        | TargetLookupItems, parseAgainFunctions | DISJ: every closure re-parses the content of its own box |
| html/tree/target.go:406                | CacheTargetPageCounters    | tc.CounterLookupItems              | DISJ/ANY: per item Pending flag / ParseAgain, per page ContentChanged flag |
| html/tree/target.go:428                | CacheTargetPageCounters    | missingCounters                    | ANY |
| svg/elements.go:478                    | resolveUse                 | node.attrs                         | FILL |
| svg/tree.go:86                         | newSVGContext              | parentAttrs                        | FILL |
| svg/tree.go:98                         | newSVGContext              | colorAttributes                    | DISJ: rewrites childAttrs[key] from childAttrs["color"], "color" is not a key of colorAttributes |
| svg/tree.go:109                        | newSVGContext              | childAttrs                         | DISJ: childAttrs[key] = parentAttrs[key] |
| svg/tree.go:149                        | inheritDefs                | tree.defs                          | DISJ per gradient/pattern (inheritElement is idempotent after deleting "href") |
| svg/tree.go:170                        | inheritElement             | parent.attrs                       | FILL |
| svg/tree.go:192                        | cascadedNode.copy          | c.attrs                            | COPY |
| text/quotes.go:155                     | langQuotesKeys initialiser | langQuotes                         | INIT: the keys are collected once and SORTED (fix 6df2af4 of KF15-4); GetLangQuotes walks that slice — MODEL langQuotes: lang_quotes_perm_invariant; before the fix **DEP**: lang_quotes_before_fix_not_perm_invariant |
| text/style.go:236                      | featureSet.list            | fs                                 | list of DISTINCT OpenType feature tags handed to the shaper; the order of distinct tags does not change shaping (assumption about the text engine; runtime evidence) |
| text/style.go:317                      | getFontFeatures            | ligatureKeys                       | DISJ: features[key] = 0 |
| utils/utils.go:27,39                   | Set.Copy / Set.Equal       | s                                  | COPY / ANY |
-/
namespace WR.C15

/-- reviewed allow-list for `WR.Gen.C15Globals.written`: (variable, declaration as written, why it
is acceptable).  The declaration is part of the fact: changing WHAT the shared variable holds
(e.g. a dictionary together with its per-render word cache) needs a new review. -/
def globalsAllowList : List (String × String × String) := [
  ("text/hyphen.dictionariesCache", "= map[string]hyphDicReference{…}",
   "cache of parsed hyphenation dictionaries, written in NewHyphener under dictionariesCacheLock (sync.Mutex); " ++
   "a hyphDicReference (patterns + max length) is never written after parsing and is a pure function of the " ++
   "embedded file; the word cache (hyphDic.cache) is NOT part of it: every Hyphener gets its own map")]

/-- reviewed allow-list for `WR.Gen.C15Globals.uses`: every use, outside init(), of a package-level
variable that can hold shared mutable state.  A new `value` use (the variable assigned to a field,
passed on, returned: it escapes and can be written through the copy) or a new variable must be
reviewed — this is how a process-wide cache handed to every render becomes visible. -/
def usesAllowList : List (String × String) := [
  ("css/parser.ColorKeywords index", "lookup / iteration in a table filled by its initialiser or init(); never written afterwards (no entry in `written`)"),
  ("css/parser.badPairs index", "lookup / iteration in a table filled by its initialiser or init(); never written afterwards (no entry in `written`)"),
  ("css/properties.FontSizeKeywords index", "lookup / iteration in a table filled by its initialiser or init(); never written afterwards (no entry in `written`)"),
  ("css/properties.Inf value", "float constant"),
  ("css/properties.LengthsToPixels index", "lookup / iteration in a table filled by its initialiser or init(); never written afterwards (no entry in `written`)"),
  ("css/properties.PageSizes index", "lookup / iteration in a table filled by its initialiser or init(); never written afterwards (no entry in `written`)"),
  ("css/properties.PropsFromNames index", "lookup / iteration in a table filled by its initialiser or init(); never written afterwards (no entry in `written`)"),
  ("css/properties.TableWrapperBoxProperties range", "lookup / iteration in a table filled by its initialiser or init(); never written afterwards (no entry in `written`)"),
  ("css/validation.ANGLETORADIANS index", "lookup / iteration in a table filled by its initialiser or init(); never written afterwards (no entry in `written`)"),
  ("css/validation.AngleUnits index", "lookup / iteration in a table filled by its initialiser or init(); never written afterwards (no entry in `written`)"),
  ("css/validation.LENGTHUNITS index", "lookup / iteration in a table filled by its initialiser or init(); never written afterwards (no entry in `written`)"),
  ("css/validation.RESOLUTIONTODPPX index", "lookup / iteration in a table filled by its initialiser or init(); never written afterwards (no entry in `written`)"),
  ("css/validation.allValidators index", "lookup / iteration in a table filled by its initialiser or init(); never written afterwards (no entry in `written`)"),
  ("css/validation.attrFallbacks index", "lookup / iteration in a table filled by its initialiser or init(); never written afterwards (no entry in `written`)"),
  ("css/validation.backgroundPositionsPercentages index", "lookup / iteration in a table filled by its initialiser or init(); never written afterwards (no entry in `written`)"),
  ("css/validation.centerKeywordFakeToken value", "token / dimension value copied: immutable"),
  ("css/validation.colon value", "token / dimension value copied: immutable"),
  ("css/validation.contentQuoteKeywords index", "lookup / iteration in a table filled by its initialiser or init(); never written afterwards (no entry in `written`)"),
  ("css/validation.counterStyleDescriptors index", "lookup / iteration in a table filled by its initialiser or init(); never written afterwards (no entry in `written`)"),
  ("css/validation.couplesEastAsian value", "slice of keyword couples passed to parseFontVariant, which only reads it"),
  ("css/validation.couplesLigatures value", "slice of keyword couples passed to parseFontVariant, which only reads it"),
  ("css/validation.couplesNumeric value", "slice of keyword couples passed to parseFontVariant, which only reads it"),
  ("css/validation.directionKeywords index", "lookup / iteration in a table filled by its initialiser or init(); never written afterwards (no entry in `written`)"),
  ("css/validation.fiftyPercent value", "token / dimension value copied: immutable"),
  ("css/validation.fontFaceDescriptors index", "lookup / iteration in a table filled by its initialiser or init(); never written afterwards (no entry in `written`)"),
  ("css/validation.noneFakeToken value", "token / dimension value copied: immutable"),
  ("css/validation.normalFakeToken value", "token / dimension value copied: immutable"),
  ("css/validation.notPrintMedia index", "lookup / iteration in a table filled by its initialiser or init(); never written afterwards (no entry in `written`)"),
  ("css/validation.proprietary index", "lookup / iteration in a table filled by its initialiser or init(); never written afterwards (no entry in `written`)"),
  ("css/validation.unstable index", "lookup / iteration in a table filled by its initialiser or init(); never written afterwards (no entry in `written`)"),
  ("css/validation.validatorsError index", "lookup / iteration in a table filled by its initialiser or init(); never written afterwards (no entry in `written`)"),
  ("css/validation.zeroPercent value", "token / dimension value copied: immutable"),
  ("html/boxes.TableFirstLetter value", "slice of unicode tables spread into unicode.In: read only"),
  ("html/boxes.asciiToWide index", "lookup / iteration in a table filled by its initialiser or init(); never written afterwards (no entry in `written`)"),
  ("html/boxes.htmlHandlers index", "lookup / iteration in a table filled by its initialiser or init(); never written afterwards (no entry in `written`)"),
  ("html/boxes.styleMap index", "lookup / iteration in a table filled by its initialiser or init(); never written afterwards (no entry in `written`)"),
  ("html/boxes.styleScores index", "lookup / iteration in a table filled by its initialiser or init(); never written afterwards (no entry in `written`)"),
  ("html/boxes.transparent value", "colour value (struct copy)"),
  ("html/layout.absoluteWidth value", "function value built once by handleMinMaxWidth/Height: immutable"),
  ("html/layout.blockLevelWidth value", "function value built once by handleMinMaxWidth/Height: immutable"),
  ("html/layout.blockReplacedWidth value", "function value built once by handleMinMaxWidth/Height: immutable"),
  ("html/layout.floatWidth value", "function value built once by handleMinMaxWidth/Height: immutable"),
  ("html/layout.inlineBlockWidth value", "function value built once by handleMinMaxWidth/Height: immutable"),
  ("html/layout.pageHeight value", "function value built once by handleMinMaxWidth/Height: immutable"),
  ("html/layout.pageWidth value", "function value built once by handleMinMaxWidth/Height: immutable"),
  ("html/layout.replacedBoxHeight value", "function value built once by handleMinMaxWidth/Height: immutable"),
  ("html/layout.replacedBoxWidth value", "function value built once by handleMinMaxWidth/Height: immutable"),
  ("html/tree.borderWidthKeywords index", "lookup / iteration in a table filled by its initialiser or init(); never written afterwards (no entry in `written`)"),
  ("html/tree.keywordsValues index", "lookup / iteration in a table filled by its initialiser or init(); never written afterwards (no entry in `written`)"),
  ("html/tree.keywordsValues range", "lookup / iteration in a table filled by its initialiser or init(); never written afterwards (no entry in `written`)"),
  ("html/tree.pseudoElements index", "lookup / iteration in a table filled by its initialiser or init(); never written afterwards (no entry in `written`)"),
  ("svg.colorAttributes range", "lookup / iteration in a table filled by its initialiser or init(); never written afterwards (no entry in `written`)"),
  ("svg.notInheritedAttributes index", "lookup / iteration in a table filled by its initialiser or init(); never written afterwards (no entry in `written`)"),
  ("text.capsKeys index", "lookup / iteration in a table filled by its initialiser or init(); never written afterwards (no entry in `written`)"),
  ("text.eastAsianKeys index", "lookup / iteration in a table filled by its initialiser or init(); never written afterwards (no entry in `written`)"),
  ("text.fcStretch index", "lookup / iteration in a table filled by its initialiser or init(); never written afterwards (no entry in `written`)"),
  ("text.fcStyle index", "lookup / iteration in a table filled by its initialiser or init(); never written afterwards (no entry in `written`)"),
  ("text.fcWeight index", "lookup / iteration in a table filled by its initialiser or init(); never written afterwards (no entry in `written`)"),
  ("text.langQuotes index", "lookup / iteration in a table filled by its initialiser or init(); never written afterwards (no entry in `written`)"),
  ("text.langQuotesKeys range", "lookup / iteration in a table filled by its initialiser or init(); never written afterwards (no entry in `written`)"),
  ("text.ligatureKeys index", "lookup / iteration in a table filled by its initialiser or init(); never written afterwards (no entry in `written`)"),
  ("text.ligatureKeys range", "lookup / iteration in a table filled by its initialiser or init(); never written afterwards (no entry in `written`)"),
  ("text.lstToISO index", "lookup / iteration in a table filled by its initialiser or init(); never written afterwards (no entry in `written`)"),
  ("text.numericKeys index", "lookup / iteration in a table filled by its initialiser or init(); never written afterwards (no entry in `written`)"),
  ("text/hyphen.dictionariesCache index", "lookup / iteration in a table filled by its initialiser or init(); never written afterwards (no entry in `written`)"),
  ("text/hyphen.encodings index", "lookup / iteration in a table filled by its initialiser or init(); never written afterwards (no entry in `written`)"),
  ("text/hyphen.languages index", "lookup / iteration in a table filled by its initialiser or init(); never written afterwards (no entry in `written`)"),
  ("utils.VersionString value", "string"),
  ("utils.W3CDateReGroupsIndexes index", "lookup / iteration in a table filled by its initialiser or init(); never written afterwards (no entry in `written`)")]

/-- reviewed allow-list for `WR.Gen.C15Globals.methodCalls`: (pkg.Var.Method, verdict) -/
def methodCallsAllowList : List (String × String) := [
  ("css/parser.hexEscapeRe.FindSubmatch", "regexp: safe for concurrent use, read-only"),
  ("css/parser.nDashDigitRe.FindStringSubmatch", "regexp"),
  ("css/parser.numberRe.FindIndex", "regexp"),
  ("css/properties.Inherited.Has", "map read"),
  ("css/properties.InitialNotComputed.Has", "map read"),
  ("css/properties.InitialValues.Copy", "map read (copy)"),
  ("css/properties.InitialValues.GetBackgroundAttachment", "map read"),
  ("css/properties.InitialValues.GetBackgroundClip", "map read"),
  ("css/properties.InitialValues.GetBackgroundColor", "map read"),
  ("css/properties.InitialValues.GetBackgroundImage", "map read"),
  ("css/properties.InitialValues.GetBackgroundOrigin", "map read"),
  ("css/properties.InitialValues.GetBackgroundPosition", "map read"),
  ("css/properties.InitialValues.GetBackgroundRepeat", "map read"),
  ("css/properties.InitialValues.GetBackgroundSize", "map read"),
  ("css/properties.InitialValues.GetFontSize", "map read"),
  ("css/properties.KnownProperties.Has", "map read"),
  ("css/properties.ZeroPixels.ToValue", "value receiver"),
  ("css/selector.spaceAsciiSet.index", "value read"),
  ("css/selector.specialCharReplacer.Replace", "strings.Replacer: safe for concurrent use"),
  ("html/boxes.lineFeedRe.ReplaceAllString", "regexp"),
  ("html/boxes.reHasNonWhitespace.MatchString", "regexp"),
  ("html/boxes.spaceRe.ReplaceAllString", "regexp"),
  ("html/boxes.tabRe.ReplaceAllString", "regexp"),
  ("html/layout.lineBreaks.Has", "map read"),
  ("html/layout.traceLogger.Dump", "guarded by `const traceMode = false`: dead code"),
  ("html/layout.traceLogger.DumpTree", "guarded by `const traceMode = false`: dead code"),
  ("html/tree.keywordsValues.ToValue", "value receiver"),
  ("logger.ProgressLogger.Printf", "log.Logger: internally synchronised; shared by all renders (output interleaves, no data race)"),
  ("logger.ProgressLogger.Println", "log.Logger"),
  ("logger.WarningLogger.Printf", "log.Logger"),
  ("logger.WarningLogger.Println", "log.Logger"),
  ("svg.notInheritedAttributes.Has", "map read"),
  ("svg.replacerNoPreserve.Replace", "strings.Replacer"),
  ("svg.replacerPreserve.Replace", "strings.Replacer"),
  ("text.bidiMarkReplacer.Replace", "strings.Replacer"),
  ("text/hyphen.dictionariesCacheLock.Lock", "the guard of dictionariesCache"),
  ("text/hyphen.dictionariesCacheLock.Unlock", "the guard of dictionariesCache"),
  ("utils.htmlSpaceSeparatedTokensRe.FindAllString", "regexp"),
  ("utils.htmlSpacesRe.ReplaceAllString", "regexp"),
  ("utils.w3CDateRe.FindStringSubmatch", "regexp")]

end WR.C15
