/-
C15 — models of the places where webrender iterates over a Go map (`for k, v := range m`).

Go randomises the iteration order of every `range` over a map.  A loop over a map is therefore
modelled as a left fold over an ARBITRARY list of the entries (`rangeFold body init order`): the
list `order` is the permutation the runtime happened to choose.  Order independence of a site is
the statement that the fold gives the same observable result for any two permutations.

The loops below mirror the Go code that exists (quirks included); the payloads the loops do not
inspect (positions, styles, boxes) are type parameters.  Sites.lean lists every map-iteration site
of the repository and says which of these models / patterns it falls under.
-/
namespace WR.C15

/-- `for k, v := range m { s = body s (k, v) }`, the runtime visiting the entries in `order`. -/
def rangeFold {σ ε : Type} (body : σ → ε → σ) (init : σ) (order : List ε) : σ :=
  order.foldl body init

/-- two lists related element by element (pages of two runs, each with its own iteration order) -/
inductive Forall₂ {α β : Type} (R : α → β → Prop) : List α → List β → Prop
  | nil : Forall₂ R [] []
  | cons {a b as bs} : R a b → Forall₂ R as bs → Forall₂ R (a :: as) (b :: bs)

/-! ## Go maps as association lists: a write conses, a read takes the first binding. -/

abbrev GoMap (κ ν : Type) := List (κ × ν)

def GoMap.get {κ ν : Type} [BEq κ] (m : GoMap κ ν) (k : κ) : Option ν := List.lookup k m
def GoMap.set {κ ν : Type} (m : GoMap κ ν) (k : κ) (v : ν) : GoMap κ ν := (k, v) :: m

/-! ## Pattern "copy / update": `for k, v := range src { dst[k] = v }`
(css/properties Copy/UpdateWith, CounterValues.Copy/Update, propsCache.updateWith, variables
inheritance in newComputedStyle/newAnonymousStyle, blocks.go:488, svg attribute cascades, …) -/

def copyStep {κ ν : Type} (dst : GoMap κ ν) (e : κ × ν) : GoMap κ ν := dst.set e.1 e.2
def copyInto {κ ν : Type} (dst : GoMap κ ν) (order : List (κ × ν)) : GoMap κ ν := rangeFold copyStep dst order

/-- variant "only if absent": `if _, in := dst[k]; !in { dst[k] = v }` (svg `use`/gradient inheritance) -/
def fillStep {κ ν : Type} [BEq κ] (dst : GoMap κ ν) (e : κ × ν) : GoMap κ ν :=
  match dst.get e.1 with
  | some _ => dst
  | none => dst.set e.1 e.2
def fillInto {κ ν : Type} [BEq κ] (dst : GoMap κ ν) (order : List (κ × ν)) : GoMap κ ν := rangeFold fillStep dst order

/-! ## Pattern "exists / flag": `for k := range m { if p k { flag = true } }`
(ResumeStack.Equals, Set/CounterValues Equal, intersectWithChildren, collectMissingCounter,
makePage's PagesWanted / callParseAgain flags, IsFixedPitch, …) -/

def anyStep {ε : Type} (p : ε → Bool) (flag : Bool) (e : ε) : Bool := flag || p e
def anyRange {ε : Type} (p : ε → Bool) (order : List ε) : Bool := rangeFold (anyStep p) false order

/-! ## Pattern "maximum": getColumnPlacement's `for k := range occupiedColumns { if k > y { y = k } }` -/

def maxStep (y : Int) (k : Int) : Int := if k > y then k else y
def maxRange (init : Int) (order : List Int) : Int := rangeFold maxStep init order

/-! ## Site html/tree/style.go:129 — second pass of newStyleFor over the pseudo-element keys

```go
for key := range out.cascadedStyles {
    if key.PseudoType != "" && !key.IsPageType() {
        out.setComputedStyles(key.Element, key.Element, html.Root, key.PseudoType, ...)
```
setComputedStyles reads `computedStyles[parent.ToKey("")]`, `computedStyles[root,""]`,
`cascadedStyles[key]` and writes `computedStyles[key]`. -/

structure Key where
  el : Nat
  pseudo : String
  page : Bool          -- IsPageType(): the key belongs to a page, not to an element
  deriving DecidableEq, Repr

/-- `compute key cascaded parentStyle rootStyle` stands for computedFromCascaded. -/
def pseudoStep {γ σ : Type} (compute : Key → Option γ → Option σ → Option σ → σ) (root : Key)
    (casc : GoMap Key γ) (comp : GoMap Key σ) (e : Key × γ) : GoMap Key σ :=
  let key := e.1
  if key.pseudo != "" && !key.page then
    comp.set key (compute key (casc.get key) (comp.get { key with pseudo := "" }) (comp.get root))
  else comp

def pseudoPass {γ σ : Type} (compute : Key → Option γ → Option σ → Option σ → σ) (root : Key)
    (casc : GoMap Key γ) (comp : GoMap Key σ) (order : List (Key × γ)) : GoMap Key σ :=
  rangeFold (pseudoStep compute root casc) comp order

/-! ## Site html/document/document.go:316 — resolveLinks

Current code (after fix 37ac465 "the anchors of a page were handed to the backend in map
iteration order"):
```go
anchors := utils.NewSet()
for i, page := range d.Pages {
    var current []backend.Anchor
    names := make([]string, 0, len(page.anchors))
    for anchorName := range page.anchors { names = append(names, anchorName) }
    sort.Strings(names)
    for _, anchorName := range names {
        if !anchors.Has(anchorName) {
            pos := page.anchors[anchorName]
            current = append(current, backend.Anchor{Name: anchorName, X: pos[0], Y: pos[1]})
            anchors.Add(anchorName)
        }
    }
    pagedAnchors[i] = current
}
```
then the links of every page are filtered by `anchors.Has(link.Target)` for internal links.
Before the fix the inner loop was `for anchorName, pos := range page.anchors` (`resolveAnchors`
applied to the raw iteration orders, kept below as `resolveLinksBeforeFix`). -/

/-- inner loop: state = (set of names seen so far, anchors of the current page) -/
def anchorStep {π : Type} (st : List String × List (String × π)) (e : String × π) :
    List String × List (String × π) :=
  if st.1.contains e.1 then st else (e.1 :: st.1, st.2 ++ [e])

def pageAnchors {π : Type} (seen : List String) (order : List (String × π)) :
    List String × List (String × π) :=
  rangeFold anchorStep (seen, []) order

/-- outer loop over the pages (a slice: fixed order); `orders` = for every page the iteration order
of its anchors map.  Returns the per-page anchor lists and the final set of names. -/
def resolveAnchors {π : Type} : List String → List (List (String × π)) →
    List (List (String × π)) × List String
  | seen, [] => ([], seen)
  | seen, p :: ps =>
    let r := pageAnchors seen p
    let rest := resolveAnchors r.1 ps
    (r.2 :: rest.1, rest.2)

structure Link (ρ : Type) where
  typ : String
  target : String
  rect : ρ
  deriving DecidableEq, Repr

def keepLink {ρ : Type} (anchors : List String) (l : Link ρ) : Bool :=
  if l.typ == "internal" then anchors.contains l.target else true

/-- resolveLinks as it was before fix 37ac465: (pagedLinks, pagedAnchors), anchors in map order -/
def resolveLinksBeforeFix {π ρ : Type} (pageAnchorOrders : List (List (String × π))) (pageLinks : List (List (Link ρ))) :
    List (List (Link ρ)) × List (List (String × π)) :=
  let r := resolveAnchors [] pageAnchorOrders
  (pageLinks.map (fun ls => ls.filter (keepLink r.2)), r.1)

/-! ## Site html/layout/pages.go:725 — makePage re-inserts the out-of-flow boxes broken on the previous page

```go
contextOutOfFlow = context.brokenOutOfFlow
context.brokenOutOfFlow = make(map[Box]brokenBox)
for _, v := range contextOutOfFlow {
    ... outOfFlowBox, outOfFlowResumeAt = floatLayout(context, box, containingBlock, ...)   // or absoluteBoxLayout
    outOfFlowBoxes = append(outOfFlowBoxes, outOfFlowBox)
    if outOfFlowResumeAt != nil { context.brokenOutOfFlow[outOfFlowBox] = brokenBox{...} }
}
rootBox.Children = append(outOfFlowBoxes, rootBox.Children...)
```
`lay ctx e` stands for floatLayout/absoluteBoxLayout: it reads and extends the page context
(the excluded shapes of the floats already placed) and returns the placed box and what is left. -/

def oofStep {χ ε β : Type} (lay : χ → ε → χ × β × Option ε)
    (st : χ × List β × List ε) (e : ε) : χ × List β × List ε :=
  let r := lay st.1 e
  (r.1, st.2.1 ++ [r.2.1], match r.2.2 with | some rest => st.2.2 ++ [rest] | none => st.2.2)

def oofPass {χ ε β : Type} (lay : χ → ε → χ × β × Option ε) (ctx : χ) (order : List ε) :
    χ × List β × List ε :=
  rangeFold (oofStep lay) (ctx, [], []) order

/-- the smallest float placement showing the dependence: floats of a given width stacked from the
left edge; context = next free x; placed box = (x, width). -/
def stackLeft (x : Nat) (w : Nat) : Nat × (Nat × Nat) × Option Nat := (x + w, (x, w), none)

/-! ## Site html/layout/grid.go:623 — resolveTracksSizes, items spanning several tracks

```go
i := -1
for child, rect := range childrenPositions {
    i++
    coord, size := x, width   // or y, height
    if size != span { continue }
    hasFr := false
    for _, functions := range sizingFunctions[min(i, len):min(len, i+span+1)] { if isFr(functions[1]) { hasFr = true; break } }
    if !hasFr { tracksChildren[coord-implicitStart] = append(tracksChildren[coord-implicitStart], child) }
}
```
The slice of sizing functions is selected by the ITERATION INDEX `i` of the map range (upstream
WeasyPrint has `enumerate(children_positions.items())`, an insertion-ordered dict). -/

structure GridItem where
  child : Nat
  coord : Nat      -- coord - implicitStart
  size : Nat
  deriving DecidableEq, Repr

def hasFrSlice (isFr : List Bool) (i span : Nat) : Bool :=
  let lo := min i isFr.length
  let hi := min isFr.length (i + span + 1)
  ((isFr.drop lo).take (hi - lo)).any id

/-- state: iteration index, tracksChildren; `none` = index out of range (Go panics) -/
def gridSpanStep (isFr : List Bool) (span : Nat) (st : Option (Nat × List (List Nat))) (it : GridItem) :
    Option (Nat × List (List Nat)) :=
  match st with
  | none => none
  | some (i, tc) =>
    if it.size != span then some (i + 1, tc)
    else if hasFrSlice isFr i span then some (i + 1, tc)
    else if it.coord < tc.length then some (i + 1, tc.modify it.coord (· ++ [it.child]))
    else none

def gridSpanPass (isFr : List Bool) (span : Nat) (order : List GridItem) : Option (List (List Nat)) :=
  (rangeFold (gridSpanStep isFr span) (some (0, isFr.map (fun _ => []))) order).map (·.2)

/-! ## The repair of the order-dependent sites: iterate in a canonical order

`for _, e := range sortedEntries(m)`: insertion sort by a total order on the entries (anchor
name, document order of the box, length-then-name of the language key). -/

def ins {α : Type} (le : α → α → Bool) (a : α) : List α → List α
  | [] => [a]
  | b :: l => if le a b then a :: b :: l else b :: ins le a l

def isort {α : Type} (le : α → α → Bool) (l : List α) : List α := l.foldr (ins le) []

def sortedRangeFold {σ ε : Type} (le : ε → ε → Bool) (body : σ → ε → σ) (init : σ) (order : List ε) : σ :=
  rangeFold body init (isort le order)

def byName {π : Type} (a b : String × π) : Bool := decide (a.1 ≤ b.1)

/-- the anchors loop of the CURRENT resolveLinks: the names of a page are collected from the map
(in iteration order `orders`), sorted, then visited. -/
def resolveAnchorsSorted {π : Type} (seen : List String) (orders : List (List (String × π))) :
    List (List (String × π)) × List String :=
  resolveAnchors seen (orders.map (isort byName))

/-- resolveLinks (current code): (pagedLinks, pagedAnchors) -/
def resolveLinks {π ρ : Type} (pageAnchorOrders : List (List (String × π))) (pageLinks : List (List (Link ρ))) :
    List (List (Link ρ)) × List (List (String × π)) :=
  let r := resolveAnchorsSorted [] pageAnchorOrders
  (pageLinks.map (fun ls => ls.filter (keepLink r.2)), r.1)

/-! ## Site text/quotes.go:136 — GetLangQuotes

Current code (after fix 6df2af4 "the quotes of a language without an exact entry were taken from
a random matching prefix"):
```go
if quotes, ok := langQuotes[lang]; ok { return quotes[0], quotes[1] }
// Find long names before short ones (the iteration order of a map is random)
for _, key := range langQuotesKeys {
    if key != "" && strings.HasPrefix(lang, key) { value := langQuotes[key]; return value[0], value[1] }
}
return langQuotes[""][0], langQuotes[""][1]
```
where `langQuotesKeys` = the keys of the map (ranged once, in a package-level initialiser), sorted
by decreasing byte length, then by name.  Before the fix the loop was
`for key, value := range langQuotes` (`langQuotesBeforeFix`): the first key IN MAP ORDER that is
a prefix won. -/

def isPrefix (p s : String) : Bool := p.toList.isPrefixOf s.toList

/-- the loop body with its early return: once a value is chosen it is kept -/
def langStep {ν : Type} (lang : String) (acc : Option ν) (e : String × ν) : Option ν :=
  match acc with
  | some v => some v
  | none => if e.1 != "" && isPrefix e.1 lang then some e.2 else none

/-- GetLangQuotes before fix 6df2af4 (`exact` = the result of the exact lookup) -/
def langQuotesBeforeFix {ν : Type} (exact : Option ν) (dflt : ν) (lang : String) (order : List (String × ν)) : ν :=
  match exact with
  | some v => v
  | none => (rangeFold (langStep lang) none order).getD dflt

/-- `sort.Slice(keys, len(keys[i]) > len(keys[j]) || (equal && keys[i] < keys[j]))`; Go's `len` of a
string is its length in bytes -/
def byLenName {ν : Type} (a b : String × ν) : Bool :=
  decide (a.1.utf8ByteSize > b.1.utf8ByteSize) ||
    (decide (a.1.utf8ByteSize = b.1.utf8ByteSize) && decide (a.1 ≤ b.1))

/-- GetLangQuotes (current code); `order` = the iteration order of the map when `langQuotesKeys`
was initialised -/
def langQuotes {ν : Type} (exact : Option ν) (dflt : ν) (lang : String) (order : List (String × ν)) : ν :=
  match exact with
  | some v => v
  | none => (sortedRangeFold byLenName (langStep lang) none order).getD dflt

end WR.C15
