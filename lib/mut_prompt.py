#!/usr/bin/env python3
"""Prepares a scratch worktree for a mutation agent and prints its prompt. usage: mut_prompt.py Cxx [n]"""
import json, os, subprocess, sys
pid = sys.argv[1]
n = int(sys.argv[2]) if len(sys.argv) > 2 else 3
wt = "/tmp/mut/" + pid
os.makedirs("/tmp/mut", exist_ok=True)
if not os.path.exists(wt):
    subprocess.run(["git", "-C", "/repo", "worktree", "add", "-q", "--detach", wt, "HEAD"], check=True)
for l in open("/verif/properties.jsonl"):
    d = json.loads(l)
    if d["id"] == pid:
        break
json.dump(d, open("/tmp/mut/%s.property.json" % pid, "w"), indent=1)
files = ", ".join(d["anchors"]["files"])
print(f"""You are testing how well a semantic property of a Go project is protected. The project is benoitkugler/webrender (a Go port of WeasyPrint: HTML/CSS/SVG layout onto an abstract backend). You have your OWN scratch git worktree of it at {wt} (work ONLY there; never touch /repo or /verif and do not read anything under /verif). No network: every shell call needs `export GOFLAGS=-mod=mod GOPROXY=off GOSUMDB=off GOTOOLCHAIN=local`. The existing test suite is `cd {wt} && go test -vet=off -count=1 ./css/... ./html/boxes/ ./html/tree/ ./images/ ./matrix/ ./svg/ ./text/hyphen/ ./utils/` (about 10 s; it must stay green with your change; the packages html/layout, html/document and text have tests that cannot run in this sandbox because a font cache file is missing — ignore them). Files named verif_hooks*.go (build tag `verif`) are test instrumentation: do not modify them.

The property (full record in /tmp/mut/{pid}.property.json):
"{pid} — {d['title']}. {d['statement']}"
Quantified over: {d['quantifier']['text']}
Relevant code: {files}.

TASK: produce {n} different, independent changes (mutations) to the project's NON-TEST source, each of which BREAKS this property while the project still compiles and the existing test suite still passes. Prefer changes that need something specific to manifest — an unusual input, a particular combination/order/nesting, a boundary value, a multi-step sequence, or two cooperating sites that each look fine alone — rather than changes that any ordinary use would expose at once. Make them realistic (the kind of slip a maintainer could make in a refactor, an "optimisation" or a "simplification"), small, and in DIFFERENT places / about DIFFERENT aspects of the property.
For each mutation i = 1..{n} deliver in {wt}/out/m<i>/:
  patch.diff  — `git diff` of the change against HEAD (only non-test source files);
  demo_test.go — a Go test (say in meta.json in which package directory it must be placed and the `-run` pattern) that FAILS with the change and PASSES without it; if the demonstration needs the full layout pipeline, fonts can be set up offline like this: `fs, _ := fontconfig.Standard.ScanFontDirectories("/repo/resources_test", "/usr/share/fonts/truetype/dejavu"); fc := text.NewFontConfigurationPango(fcfonts.NewFontMap(fontconfig.Standard.Copy(), fs))` (imports github.com/benoitkugler/textprocessing/fontconfig, github.com/benoitkugler/textprocessing/pango/fcfonts, github.com/benoitkugler/webrender/text; the Ahem font in resources_test has square glyphs of the font size) and then `layout.Layout(html, nil, false, fc)` or `document.Render(html, nil, false, fc)`;
  meta.json — {{"property":"{pid}","summary":"...","needs_to_manifest":"...","files_changed":[...],"demo_package_dir":"...","demo_run_pattern":"...","how_demonstrated":"commands you ran and their outcome with/without the patch","suite_passes_with_patch":true}}.
Procedure per mutation: start from a clean tree (`git -C {wt} checkout -- . && git -C {wt} clean -fdq -e out`), make the change, run the test suite above (must pass), run your demo (must fail), save `git diff > out/m<i>/patch.diff`, revert the change (keep the demo), run the demo again (must pass), then move the demo to out/m<i>/demo_test.go. Leave the worktree clean at the end except for out/. Final message: a short summary of the mutations (one paragraph each).""")
