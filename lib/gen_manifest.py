#!/usr/bin/env python3
"""Regenerates MANIFEST.json from lean/obligations.json + lib/manifest_texts.json."""
import json, os
ROOT = os.path.dirname(os.path.dirname(os.path.abspath(__file__)))
obs = {fn[:-5]: json.load(open(os.path.join(ROOT, "lean", "obligations", fn))) for fn in sorted(os.listdir(os.path.join(ROOT, "lean", "obligations"))) if fn.endswith(".json")}
def hook_commits():
    """every commit of /repo that adds or updates a verif_hooks*.go file (build tag verif), oldest first"""
    import subprocess
    out = subprocess.run(["git", "-C", "/repo", "log", "--reverse", "--format=%h", "--", "*verif_hooks*.go"], capture_output=True, text=True).stdout.split()
    return out or texts["_hooks"]["source_commits"]

texts = {fn[:-5]: json.load(open(os.path.join(ROOT, "lib", "manifest", fn))) for fn in sorted(os.listdir(os.path.join(ROOT, "lib", "manifest"))) if fn.endswith(".json")}
props = [json.loads(l) for l in open(os.path.join(ROOT, "properties.jsonl"))]
checks, na = [], []
for p in props:
    pid = p["id"]
    if pid in obs and pid in texts and not texts[pid].get("not_applicable"):
        t = texts[pid]
        checks.append({
            "property_id": pid,
            "quick_cmd": "./check %s --tier quick" % pid,
            "thorough_cmd": "./check %s --tier thorough" % pid,
            "evidence_file": "/verif/evidence/%s.json" % pid,
            "replay_cmd_template": "./check %s --replay {path}" % pid,
            "engine": "lean+wrh",
            "level_claimed": {"category": "proof", "text": t["text"], "design_ref": t.get("design_ref", "DESIGN.md §5 " + pid)},
            "level_note": t["note"],
            "technique": t["technique"],
        })
    else:
        na.append({"property_id": pid, "reason": texts.get(pid, {}).get("not_applicable", "check not built yet in this session; no claim is made")})
m = {
    "version": 1,
    "setup_cmd": "./check --setup",
    "hooks": {
        "guard": "verif",
        "enable": "go build -tags verif (the harness module /verif/harness replaces github.com/benoitkugler/webrender by /repo)",
        "baseline_off_cmd": "cd /repo && GOFLAGS=-mod=mod GOPROXY=off go test -vet=off -count=1 ./...",
        "source_commits": hook_commits(),
        "add_only": True,
    },
    "engines": [
        {"name": "lean", "path": "/verif/lean", "serves_properties": [c["property_id"] for c in checks], "kind_free_text": "Lean 4.33 Lake project WR: models, specs, property theorems (WR/Props), per-property model drivers (lean_exe)"},
        {"name": "wrh", "path": "/verif/harness", "serves_properties": [c["property_id"] for c in checks], "kind_free_text": "Go harness: fact extractor/translator (wrh facts), correspondence + judge + search runs against the real code in process (wrh run)"},
        {"name": "check", "path": "/verif/check", "serves_properties": [c["property_id"] for c in checks], "kind_free_text": "orchestrator: rebuild, theorem re-check, axiom audit, verdict rules, evidence"},
    ],
    "checks": checks,
    "not_applicable": na,
    "notes": "Machine-checked proof in Lean 4 about hand-written/translated models, tied to /repo by regenerated facts (WR/Gen) and by differential correspondence runs. See DESIGN.md.",
}
json.dump(m, open(os.path.join(ROOT, "MANIFEST.json"), "w"), indent=1)
print("checks:", [c["property_id"] for c in checks])
