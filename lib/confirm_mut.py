#!/usr/bin/env python3
"""Confirms a seeded change: compiles, baseline suite still passes, demo fails with it and passes without.
usage: confirm_mut.py <worktree> <patch.diff> <demo file> <dest path in worktree> <go package> [<-run pattern>]"""
import os, subprocess, sys, shutil, json
wt, patch, demo, dest, pkg = sys.argv[1:6]
pat = sys.argv[6] if len(sys.argv) > 6 else "."
env = dict(os.environ, GOFLAGS="-mod=mod", GOPROXY="off", GOSUMDB="off", GOTOOLCHAIN="local")
BASE = ["./css/...", "./html/boxes/", "./html/tree/", "./images/", "./matrix/", "./svg/", "./text/hyphen/", "./utils/"]
def sh(cmd, **kw):
    p = subprocess.run(cmd, cwd=wt, env=env, stdout=subprocess.PIPE, stderr=subprocess.STDOUT, text=True, **kw)
    return p.returncode, p.stdout
def clean():
    sh(["git", "checkout", "-q", "--", "."])
res = {}
clean()
destp = os.path.join(wt, dest)
shutil.copy(demo, destp)
try:
    rc, out = sh(["go", "test", "-vet=off", "-count=1", "-run", pat, pkg])
    res["demo_without_patch"] = "pass" if rc == 0 else "FAIL"
    res["demo_without_tail"] = out[-300:]
    rc, out = sh(["git", "apply", patch])
    assert rc == 0, out
    rc, out = sh(["go", "build", "./..."])
    res["compiles"] = rc == 0
    rc, out = sh(["go", "test", "-vet=off", "-count=1", "-run", pat, pkg])
    res["demo_with_patch"] = "pass" if rc == 0 else "FAIL"
    res["demo_with_tail"] = out[-600:]
    os.remove(destp)
    rc, out = sh(["go", "test", "-vet=off", "-count=1"] + BASE)
    res["baseline_with_patch"] = "pass" if rc == 0 else "FAIL"
    if rc != 0:
        res["baseline_tail"] = out[-800:]
finally:
    if os.path.exists(destp):
        os.remove(destp)
    clean()
res["confirmed"] = bool(res.get("compiles") and res.get("demo_without_patch") == "pass" and res.get("demo_with_patch") == "FAIL" and res.get("baseline_with_patch") == "pass")
print(json.dumps(res, indent=1))
sys.exit(0 if res["confirmed"] else 1)
