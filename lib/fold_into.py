#!/usr/bin/env python3
"""fold_into.py '<commit message fragment>' <path>: folds the working-tree version of <path> into the (local,
unpublished) /repo commit whose message contains the fragment, rewriting the later commits on top (no later
commit may touch <path>). The working tree is not touched."""
import os, subprocess, sys
frag, path = sys.argv[1], sys.argv[2]
def git(*a, env=None):
    e = dict(os.environ)
    if env: e.update(env)
    return subprocess.run(["git"] + list(a), cwd="/repo", env=e, capture_output=True, text=True, check=True).stdout.strip()
target = git("log", "--format=%H", "-1", "-F", "--grep", frag)
assert target, "no such commit"
later = git("log", "--format=%h", target + "..HEAD", "--", path)
assert later == "", "later commits touch the file: " + later
blob = git("hash-object", "-w", path)
base = git("rev-parse", target + "^")
head = base
for c in git("rev-list", "--reverse", base + "..HEAD").split():
    msg = git("log", "--format=%B", "-1", c)
    env = {"GIT_AUTHOR_DATE": git("log", "--format=%aI", "-1", c), "GIT_COMMITTER_DATE": git("log", "--format=%cI", "-1", c), "GIT_INDEX_FILE": "/tmp/rw.idx"}
    if os.path.exists("/tmp/rw.idx"): os.remove("/tmp/rw.idx")
    git("read-tree", c + "^{tree}", env=env)
    git("update-index", "--cacheinfo", "100644," + blob + "," + path, env=env)
    head = git("commit-tree", git("write-tree", env=env), "-p", head, "-m", msg, env=env)
git("update-ref", "refs/heads/main", head)
git("reset", "-q")
print("new head", head[:8])
