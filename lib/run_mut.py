#!/usr/bin/env python3
"""run_mut.py Cxx [tier]: for each /tmp/mut/Cxx/out/m<i>: confirm the mutation (confirm_mut.py), run
`VERIF_REPO=<worktree> ./check Cxx`, store it under seeded/Cxx-m<i> with the outcome, print a summary."""
import json, os, re, subprocess, sys
pid = sys.argv[1]
tier = sys.argv[2] if len(sys.argv) > 2 else "quick"
wt = os.environ.get("MUT_WT", "/tmp/mut/" + pid)
offset = int(os.environ.get("MUT_OFFSET", "0"))
ROOT = "/verif"
def sh(cmd, **kw):
    p = subprocess.run(cmd, stdout=subprocess.PIPE, stderr=subprocess.STDOUT, text=True, **kw)
    return p.returncode, p.stdout
summary = []
for i in sorted(os.listdir(wt + "/out")):
    d = os.path.join(wt, "out", i)
    if not (i.startswith("m") and os.path.isdir(d) and os.path.exists(d + "/meta.json")):
        continue
    m = json.load(open(d + "/meta.json"))
    pkg = re.split(r"[\s(]", str(m.get("demo_package_dir", "")).strip())[0].strip("./").rstrip("/")
    pat = str(m.get("demo_run_pattern", ".")).split()[0]
    demos = [f for f in os.listdir(d) if f.endswith("_test.go")]
    os.makedirs(os.path.join(wt, pkg), exist_ok=True)
    dest = "%s/zz_%s_%s_demo_test.go" % (pkg, pid.lower(), i)
    rc, out = sh(["python3", ROOT + "/lib/confirm_mut.py", wt, d + "/patch.diff", os.path.join(d, demos[0]), dest, "./" + pkg + "/", pat])
    try:
        conf = json.loads(out)
    except Exception:
        conf = {"confirmed": False, "raw": out[-500:]}
    sh(["git", "checkout", "-q", "--", "."], cwd=wt)
    rc, out = sh(["git", "apply", d + "/patch.diff"], cwd=wt)
    env = dict(os.environ, VERIF_REPO=wt)
    rc, out = sh([ROOT + "/check", pid, "--tier", tier], cwd=ROOT, env=env)
    sh(["git", "checkout", "-q", "--", "."], cwd=wt)
    lines = [l for l in out.split("\n") if l.startswith("VIOLATION") or l.startswith("[" + pid)]
    caught = any(l.startswith("VIOLATION") for l in lines)
    nofail = any("no-failing-input-found" in l for l in lines)
    ops = ""
    mm = re.search(r"replay=(\S+)", "\n".join(lines))
    if mm and os.path.exists(os.path.join(ROOT, mm.group(1))):
        rp = json.load(open(os.path.join(ROOT, mm.group(1))))
        f = rp.get("finding") or {}
        ops = "%s %s" % (f.get("op", ""), (f.get("reason") or "")[:160]) if f else "no longer checks: " + ", ".join(rp.get("no_longer_checks", [])[:6])
    result = "VERIF_REPO=<patched worktree> ./check %s --tier %s (seed 1): " % (pid, tier) + (
        ("VIOLATION%s — %s" % (" (no-failing-input-found)" if nofail else "", ops)) if caught else "MISSED (exit 0)")
    if not conf.get("confirmed"):
        result = "NOT CONFIRMED by the lead (%s); " % json.dumps({k: v for k, v in conf.items() if "tail" not in k}) + result
    sh(["python3", ROOT + "/lib/store_seeded.py", pid, i[1:], result], env=dict(os.environ, MUT_WT=wt, MUT_OFFSET=str(offset)))
    summary.append((i, conf.get("confirmed"), "CAUGHT" + ("(no-input)" if nofail else "") if caught else "MISSED", ops[:120], (m.get("summary") or "")[:110]))
for s in summary:
    print(pid, *s, sep=" | ")
