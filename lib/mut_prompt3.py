#!/usr/bin/env python3
"""Round-3 prompt: like mut_prompt.py but worktree /tmp/mut/<Cxx>c and a list of the mutations already seeded (not to be repeated)."""
import json, os, subprocess, sys, glob
pid = sys.argv[1]
wt = "/tmp/mut/%sc" % pid
if not os.path.exists(wt):
    subprocess.run(["git", "-C", "/repo", "worktree", "add", "-q", "--detach", wt, "HEAD"], check=True)
base = subprocess.run([sys.executable, "/verif/lib/mut_prompt.py", pid, "3"], capture_output=True, text=True).stdout
# mut_prompt created /tmp/mut/<pid> too when missing: remove it again
if os.path.exists("/tmp/mut/" + pid):
    subprocess.run(["git", "-C", "/repo", "worktree", "remove", "--force", "/tmp/mut/" + pid])
base = base.replace("/tmp/mut/%s " % pid, wt + " ").replace("/tmp/mut/%s/" % pid, wt + "/").replace("cd /tmp/mut/%s &&" % pid, "cd %s &&" % wt).replace("-C /tmp/mut/%s " % pid, "-C %s " % wt)
done = []
for f in sorted(glob.glob("/verif/seeded/%s-m*/meta.json" % pid)):
    m = json.load(open(f))
    done.append("- " + (m.get("breaks") or "")[:330])
extra = "\n\nMutations ALREADY produced in earlier rounds — do NOT repeat them or close variants; choose other sites and other aspects of the property:\n" + "\n".join(done)
extra += "\n\nAlso note: demonstration tests that need the layout/drawing pipeline must live in a NEW package directory (e.g. html/%sdemo) because the html/layout and html/document test packages panic at init in this sandbox (missing font cache)." % pid.lower()
open("/tmp/mut/%sc.prompt.txt" % pid, "w").write(base + extra)
print(wt)
