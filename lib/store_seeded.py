#!/usr/bin/env python3
"""store_seeded.py Cxx i 'check result text' : copies /tmp/mut/Cxx/out/m<i> into seeded/Cxx-m<i>"""
import json, os, shutil, sys
pid, i, result = sys.argv[1], sys.argv[2], sys.argv[3]
src = "%s/out/m%s" % (os.environ.get("MUT_WT", "/tmp/mut/" + pid), i)
dst = "/verif/seeded/%s-m%d" % (pid, int(i) + int(os.environ.get("MUT_OFFSET", "0")))
os.makedirs(dst, exist_ok=True)
shutil.copy(src + "/patch.diff", dst + "/patch.diff")
for fn in os.listdir(src):
    if fn.endswith(".go"):
        shutil.copy(os.path.join(src, fn), os.path.join(dst, fn + ".txt"))
m = json.load(open(src + "/meta.json"))
out = {"property": pid, "breaks": m.get("summary"), "needs_to_manifest": m.get("needs_to_manifest"), "files_changed": m.get("files_changed"),
       "demonstration": "demo_test.go.txt -> copy into %s ; go test -vet=off -count=1 -run '%s'" % (m.get("demo_package_dir"), m.get("demo_run_pattern")),
       "confirmed_by_lead": "lib/confirm_mut.py in a scratch worktree: compiles, baseline packages pass with the patch, demo passes without / fails with the patch",
       "check_result": result, "author_notes": m.get("how_demonstrated")}
json.dump(out, open(dst + "/meta.json", "w"), indent=1)
print("stored", dst)
