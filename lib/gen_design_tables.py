#!/usr/bin/env python3
"""Regenerates the machine-maintained tables of DESIGN.md (between marker comments):
   FIXED     — genuine defects repaired in /repo (from lib/fixed.json, hashes resolved in /repo)
   KNOWN     — genuine defects recorded, not repaired (known_findings.json + known_findings.d/*.json)
   SEEDED    — seeded changes and which checks catch them (seeded/*/meta.json)"""
import json, os, re, subprocess
ROOT = os.path.dirname(os.path.dirname(os.path.abspath(__file__)))
def esc(s):
    return str(s).replace("|", "\\|").replace("\n", " ")
def fixed():
    fx = json.load(open(os.path.join(ROOT, "lib", "fixed.json")))
    rows = ["| property | fix commit | what failed on the unchanged tree |", "|---|---|---|"]
    for e in sorted(fx, key=lambda e: e["property"]):
        h = subprocess.run(["git", "-C", "/repo", "log", "--format=%h", "-1", "-F", "--grep", e["grep"]], capture_output=True, text=True).stdout.strip()
        rows.append("| %s | %s | %s |" % (e["property"], h, esc(e["what"])))
    return "\n".join(rows) + "\n\n%d defects repaired, one `fix:` commit each.\n" % len(fx)
def known():
    items = []
    paths = [os.path.join(ROOT, "known_findings.json")]
    d = os.path.join(ROOT, "known_findings.d")
    paths += [os.path.join(d, f) for f in sorted(os.listdir(d)) if f.endswith(".json")]
    for p in paths:
        for f in json.load(open(p)).get("findings", []):
            items.append(f)
    rows = ["| property | id | matched by | what fails |", "|---|---|---|---|"]
    for f in sorted(items, key=lambda f: (f.get("property", ""), f.get("id", ""))):
        m = "op `%s`" % f.get("op", "")
        if f.get("key") is not None:
            m += ", key `%s`" % f.get("key")
        if f.get("input_regex"):
            m += ", input regex"
        rows.append("| %s | %s | %s | %s |" % (f.get("property"), f.get("id", ""), esc(m), esc(f.get("what", ""))))
    return "\n".join(rows) + "\n\n%d recorded findings.\n" % len(items)
def seeded():
    d = os.path.join(ROOT, "seeded")
    rows = ["| seeded id | what it breaks | needs to manifest | outcome |", "|---|---|---|---|"]
    n = c = 0
    for s in sorted(os.listdir(d)):
        mp = os.path.join(d, s, "meta.json")
        if not os.path.exists(mp):
            continue
        m = json.load(open(mp))
        res = m.get("check_result", "")
        n += 1
        if "VIOLATION" in res and not res.startswith("MISSED"):
            c += 1
        rows.append("| %s | %s | %s | %s |" % (s, esc((m.get("breaks") or "")[:260]), esc((m.get("needs_to_manifest") or "")[:200]), esc(res[:330])))
    return "\n".join(rows) + "\n\n%d seeded changes confirmed; %d reported as VIOLATION by the check named in the row (see the rows for the ones first missed and what was strengthened).\n" % (n, c)
def perprop():
    out = []
    od = os.path.join(ROOT, "lean", "obligations")
    for fn in sorted(os.listdir(od)):
        if not fn.endswith(".json"):
            continue
        pid = fn[:-5]
        ob = json.load(open(os.path.join(od, fn)))
        mt = {}
        mp = os.path.join(ROOT, "lib", "manifest", fn)
        if os.path.exists(mp):
            mt = json.load(open(mp))
        def loc(paths):
            n = 0
            for s_ in paths:
                sp = os.path.join(ROOT, "lean", s_)
                files = []
                if os.path.isdir(sp):
                    for d_, _, fs in os.walk(sp):
                        files += [os.path.join(d_, f) for f in fs if f.endswith(".lean")]
                elif os.path.exists(sp):
                    files = [sp]
                for f in files:
                    n += sum(1 for _ in open(f))
            return n
        out.append("### %s — as built\n" % pid)
        out.append("*Claim.* %s\n" % mt.get("text", "(no manifest text yet)"))
        ths = [t.split(".")[-1] for t in ob.get("theorems", [])]
        out.append("*Theorems re-checked on every run (%d, `%s`; Lean sources audited: %d lines):* %s\n" % (len(ths), ob.get("module"), loc(ob.get("sources", [])), ", ".join("`%s`" % t for t in ths)))
        if ob.get("gen"):
            out.append("*Regenerated from /repo on every run:* %s\n" % ", ".join("`WR/Gen/%s`" % g for g in ob["gen"]))
        out.append("*Correspondence / judge run.* %s\n" % ob.get("correspondence", ""))
        if ob.get("partial"):
            out.append("*Partial / not proved.* %s\n" % ob["partial"])
        if ob.get("assumptions"):
            out.append("*Assumptions.* " + " · ".join(ob["assumptions"]) + "\n")
        out.append("*Trusted base.* " + " · ".join(ob.get("trusted_base", [])) + "\n")
    return "\n".join(out) + "\n"
def appendix_a():
    od = os.path.join(ROOT, "lean", "obligations")
    nseed = {}
    sd = os.path.join(ROOT, "seeded")
    for x in os.listdir(sd):
        mp = os.path.join(sd, x, "meta.json")
        if os.path.exists(mp):
            m = json.load(open(mp))
            pid = x.split("-")[0]
            a, b = nseed.get(pid, (0, 0))
            res = m.get("check_result", "")
            ok = "VIOLATION" in res
            nseed[pid] = (a + 1, b + (1 if ok else 0))
    nk = {}
    paths = [os.path.join(ROOT, "known_findings.json")]
    d = os.path.join(ROOT, "known_findings.d")
    paths += [os.path.join(d, f) for f in sorted(os.listdir(d)) if f.endswith(".json")]
    for pth in paths:
        for f in json.load(open(pth)).get("findings", []):
            nk[f.get("property")] = nk.get(f.get("property"), 0) + 1
    nf = {}
    for e in json.load(open(os.path.join(ROOT, "lib", "fixed.json"))):
        nf[e["property"]] = nf.get(e["property"], 0) + 1
    rows = ["| prop | theorems (first few of n) | claim | defects repaired / recorded | seeded changes caught |", "|---|---|---|---|---|"]
    for fn in sorted(os.listdir(od)):
        if not fn.endswith(".json"):
            continue
        pid = fn[:-5]
        ob = json.load(open(os.path.join(od, fn)))
        ths = [t.split(".")[-1] for t in ob.get("theorems", [])]
        claim = "partial: " + esc(ob.get("partial", ""))[:170] if ob.get("partial") else "full on the model"
        a, b = nseed.get(pid, (0, 0))
        rows.append("| %s | %s … (%d) | %s | %d / %d | %d of %d |" % (pid, ", ".join("`%s`" % t for t in ths[:4]), len(ths), claim, nf.get(pid, 0), nk.get(pid, 0), b, a))
    return "\n".join(rows) + "\n"
p = os.path.join(ROOT, "DESIGN.md")
s = open(p).read()
for name, fn in (("FIXED", fixed), ("KNOWN", known), ("SEEDED", seeded), ("PERPROP", perprop), ("APPA", appendix_a)):
    b, e = "<!-- %s:BEGIN -->" % name, "<!-- %s:END -->" % name
    if b in s and e in s:
        s = s[:s.index(b) + len(b)] + "\n" + fn() + s[s.index(e):]
open(p, "w").write(s)
print("DESIGN.md tables regenerated")
