#!/usr/bin/env python3
"""recheck_seeded.py <seeded-id>...: re-applies a stored seeded change in a temporary worktree of /repo HEAD,
runs the property's check against it and appends the outcome to seeded/<id>/meta.json (field recheck)."""
import json, os, re, subprocess, sys, time
ROOT = "/verif"
def sh(cmd, **kw):
    p = subprocess.run(cmd, stdout=subprocess.PIPE, stderr=subprocess.STDOUT, text=True, **kw)
    return p.returncode, p.stdout
for sid in sys.argv[1:]:
    pid = sid.split("-")[0]
    wt = "/tmp/mut/re_" + sid
    sh(["git", "-C", "/repo", "worktree", "remove", "--force", wt])
    rc, out = sh(["git", "-C", "/repo", "worktree", "add", "-q", "--detach", wt, "HEAD"])
    rc, out = sh(["git", "apply", "--3way", os.path.join(ROOT, "seeded", sid, "patch.diff")], cwd=wt)
    if rc != 0:
        rc, out = sh(["git", "apply", os.path.join(ROOT, "seeded", sid, "patch.diff")], cwd=wt)
    if rc != 0:
        print(sid, "PATCH NO LONGER APPLIES:", out[-200:])
        sh(["git", "-C", "/repo", "worktree", "remove", "--force", wt])
        continue
    rc, out = sh(["go", "build", "./..."], cwd=wt, env=dict(os.environ, GOFLAGS="-mod=mod", GOPROXY="off", GOSUMDB="off", GOTOOLCHAIN="local"))
    t0 = time.time()
    rc, out = sh([ROOT + "/check", pid], cwd=ROOT, env=dict(os.environ, VERIF_REPO=wt))
    lines = [l for l in out.split("\n") if l.startswith("VIOLATION") or l.startswith("[" + pid)]
    caught = any(l.startswith("VIOLATION") for l in lines)
    nofail = any("no-failing-input-found" in l for l in lines)
    ops = ""
    mm = re.search(r"replay=(\S+)", "\n".join(lines))
    if mm and os.path.exists(os.path.join(ROOT, mm.group(1))):
        rp = json.load(open(os.path.join(ROOT, mm.group(1))))
        f = rp.get("finding") or {}
        ops = "%s %s" % (f.get("op", ""), (f.get("reason") or "")[:140]) if f else "no longer checks: " + ", ".join(rp.get("no_longer_checks", [])[:6])
    res = ("VIOLATION%s — %s" % (" (no-failing-input-found)" if nofail else "", ops)) if caught else "MISSED (exit 0)"
    mp = os.path.join(ROOT, "seeded", sid, "meta.json")
    m = json.load(open(mp))
    m["recheck"] = "after strengthening, VERIF_REPO=<patched worktree> ./check %s (quick, seed 1, %.0f s): %s" % (pid, time.time() - t0, res)
    if os.environ.get("REPLACE") == "1":
        m["check_result"] = "VERIF_REPO=<patched worktree> ./check %s (quick, seed 1): %s" % (pid, res)
    elif caught and "MISSED" in m.get("check_result", ""):
        m["check_result"] = m["check_result"].rstrip() + " — NOW: " + m["recheck"]
    json.dump(m, open(mp, "w"), indent=1)
    print(sid, res[:160])
    sh(["git", "-C", "/repo", "worktree", "remove", "--force", wt])
