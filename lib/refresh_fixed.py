#!/usr/bin/env python3
"""Rewrites the `fixed:` lines of known_findings.json from lib/fixed.json, resolving each entry's commit
hash in /repo by a fragment of its commit message (hashes change when the lead rewrites local history)."""
import json, os, subprocess
ROOT = os.path.dirname(os.path.dirname(os.path.abspath(__file__)))
fx = json.load(open(os.path.join(ROOT, "lib", "fixed.json")))
k = json.load(open(os.path.join(ROOT, "known_findings.json")))
lines = []
for e in fx:
    h = subprocess.run(["git", "-C", "/repo", "log", "--format=%h", "-1", "-F", "--grep", e["grep"]], capture_output=True, text=True).stdout.strip()
    assert h, "no commit for " + e["grep"]
    lines.append("fixed: property=%s %s %s" % (e["property"], h, e["what"]))
k["fixed"] = lines
json.dump(k, open(os.path.join(ROOT, "known_findings.json"), "w"), indent=1)
print(len(lines), "fixed entries")
